"""C17 tables: the literals of FlowContainer.to_row_data_sheet (excluded/target headers), the
FlowRowModel field list with the header each top-level field is written under, the
uuid-typed FlowRowModel fields, RouterCase.NO_ARGS_TESTS, actions.short_types."""
import ast
import re

from gen_tables import Refuse, coq_list, coq_str, func_ast


def _set_literals(fn, name):
    """every literal assigned to `name` inside fn (also inside conditional expressions)"""
    tree = func_ast(fn)
    found = []
    for node in ast.walk(tree):
        if isinstance(node, ast.Assign) and len(node.targets) == 1 and isinstance(node.targets[0], ast.Name) \
                and node.targets[0].id == name:
            v = node.value
            cands = [v.body, v.orelse] if isinstance(v, ast.IfExp) else [v]
            for c in cands:
                try:
                    found.append((ast.literal_eval(c), ast.unparse(v.test) if isinstance(v, ast.IfExp) else None))
                except Exception:
                    raise Refuse(f"{fn.__qualname__}.{name} is not a literal")
    if not found:
        raise Refuse(f"{fn.__qualname__}: no assignment to {name}")
    return found


def tables_c17(out, notes):
    from rpft.parsers.creation.flowrowmodel import FlowRowModel
    from rpft.rapidpro.models import actions
    from rpft.rapidpro.models.containers import FlowContainer
    from rpft.rapidpro.models.routers import RouterCase

    # ---- excluded / target headers: effective values, observed through the object that
    # to_row_data_sheet builds for an (empty) flow; ast only as a cross-check
    def observe(strip):
        fc = FlowContainer("probe")
        rds = fc.to_row_data_sheet(strip_uuids=strip, numbered=False)
        return sorted(rds.excluded_headers), sorted(rds.target_headers)

    try:
        ex_strip, tg = observe(True)
        ex_plain, tg2 = observe(False)
    except Exception as e:
        raise Refuse(f"cannot observe the headers of to_row_data_sheet: {type(e).__name__}: {e}")
    if tg != tg2:
        raise Refuse("target headers depend on strip_uuids")
    for h in ex_strip + ex_plain:
        if not isinstance(h, str) or not re.fullmatch(r"[A-Za-z0-9_]+", h):
            raise Refuse(f"excluded header {h!r} is not a plain name (the model treats patterns as prefixes)")
    out.append(f"Definition strip_excluded : list str := {coq_list(coq_str(h) for h in ex_strip)}.")
    out.append(f"Definition plain_excluded : list str := {coq_list(coq_str(h) for h in ex_plain)}.")
    out.append(f"Definition export_targets : list str := {coq_list(coq_str(h) for h in tg)}.")
    notes.append("strip_excluded/export_targets: observed on the RowDataSheet built by FlowContainer('probe').to_row_data_sheet")

    # ---- FlowRowModel: fields in order, their header, which of them are uuid-typed
    fields = list(FlowRowModel.__fields__)
    hdr = [(f, FlowRowModel.field_name_to_header_name(f)) for f in fields]
    out.append("Definition frm_field_headers : list (str * str) := "
               + coq_list(f"({coq_str(f)}, {coq_str(h)})" for f, h in hdr) + ".")
    # uuid-typed fields of the row model: those the compiler (FlowParser) reads back as a node /
    # object uuid.  Names are fixed by the sheet format documentation: node_uuid (_nodeId), obj_id.
    uuid_fields = [f for f in fields if f in ("node_uuid", "obj_id")]
    if len(uuid_fields) != 2:
        raise Refuse(f"FlowRowModel no longer has the uuid fields node_uuid/obj_id: {uuid_fields}")
    out.append(f"Definition frm_uuid_fields : list str := {coq_list(coq_str(f) for f in uuid_fields)}.")

    # ---- probe: which argument of a has_group case reaches the edge condition when the router's
    # operand is not @contact.groups (finding has_group-case-outside-group-split and its repair)
    from rpft.rapidpro.models.routers import RouterCategory, SwitchRouter

    def probe_case(operand, args):
        cat = RouterCategory("G", "dest-uuid")
        r = SwitchRouter(operand, cases=[RouterCase("has_group", list(args), cat.uuid)], categories=[cat])
        try:
            pairs = r.get_exit_edge_pairs("row")
        except IndexError:
            return "IndexError"
        conds = [e.condition.value for ex, e in pairs if ex is cat.exit]
        if len(conds) != 1:
            raise Refuse(f"get_exit_edge_pairs gives {len(conds)} edges for one has_group case")
        return conds[0]

    try:
        two = [probe_case(op, ["g-uuid", "g name"]) for op in ("@input.text", "@child.run.status", "@fields.x")]
        one = [probe_case(op, ["g-uuid"]) for op in ("@input.text", "@child.run.status", "@fields.x")]
        split2, split1 = probe_case("@contact.groups", ["g-uuid", "g name"]), probe_case("@contact.groups", ["g-uuid"])
    except Refuse:
        raise
    except Exception as e:
        raise Refuse(f"cannot probe SwitchRouter.get_exit_edge_pairs on a has_group case: {type(e).__name__}: {e}")
    if (split2, split1) != ("g name", "IndexError"):
        raise Refuse(f"group split: has_group case exported as {split2!r} / {split1!r} (the model writes arguments[1])")
    if two == ["g name"] * 3 and one == ["IndexError"] * 3:
        by_name = True       # repaired: the group name for every has_group case, as in a group split
    elif two == ["g-uuid"] * 3 and one == ["g-uuid"] * 3:
        by_name = False      # arguments[0], the group uuid, outside group splits
    else:
        raise Refuse(f"has_group case outside a group split exported as {two!r} (two arguments) / {one!r} (one argument): "
                     "a behaviour the C17 model has no mirror for")
    out.append(f"Definition has_group_case_by_name : bool := {'true' if by_name else 'false'}.")
    notes.append(f"C17: probe has_group_case_by_name={by_name}")

    # ---- RouterCase.NO_ARGS_TESTS, short_types
    na = RouterCase.NO_ARGS_TESTS
    if not all(isinstance(x, str) for x in na):
        raise Refuse("NO_ARGS_TESTS is not a collection of strings")
    out.append(f"Definition no_args_tests : list str := {coq_list(coq_str(x) for x in sorted(na))}.")
    st = actions.short_types
    if not isinstance(st, dict) or not all(isinstance(k, str) and isinstance(v, str) for k, v in st.items()):
        raise Refuse("actions.short_types is not a dict of strings")
    out.append("Definition short_types : list (str * str) := "
               + coq_list(f"({coq_str(k)}, {coq_str(v)})" for k, v in sorted(st.items())) + ".")


GENERATORS = [tables_c17]
