"""C18 tables: header separators of RowParser, the type-name table of
model_inference.type_from_string (outer names and names inside `List[...]`), the name under
which typing.List is reachable from a header annotation, and str_to_bool's false-words.
Everything is read from *effective values* (import + tabulation); fail-closed.
All constants are prefixed inf_ (the row-codec engine emits its own separators)."""
import builtins
import typing

from gen_tables import Refuse, coq_bool, coq_char, coq_list, coq_str

# tags of the small type universe of coq/theories/Row/InferTy.v
TAGS = [str, int, float, bool, list, typing.List]  # 0..5


def _tag(t):
    for i, o in enumerate(TAGS):
        if t is o:
            return i
    return None


def tables_infer(out, notes):
    import rpft.parsers.common.model_inference as mi
    from rpft.parsers.common.rowparser import RowParser, str_to_bool

    seps = {}
    for coq_name, attr in (("inf_hdr_sep", "HEADER_FIELD_SEPARATOR"), ("inf_ann_sep", "TYPE_ANNOTATION_SEPARATOR"),
                           ("inf_dflt_sep", "DEFAULT_VALUE_SEPARATOR")):
        v = getattr(RowParser, attr, None)
        if not (isinstance(v, str) and len(v) == 1):
            raise Refuse(f"RowParser.{attr} is not a one-character string: {v!r}")
        seps[coq_name] = v
        out.append(f"Definition {coq_name} : char := {coq_char(v)}.")

    # ---- where model_from_headers_rec looks for the header separator: in the whole header,
    # annotations included (the tree with the defect default-contains-dot), or in the field name
    # only (get_field_name(header): what precedes the first annotation/default separator).
    # Decided by behaviour on probe headers; anything that is neither of the two is refused.
    hs_, as_, ds_ = seps["inf_hdr_sep"], seps["inf_ann_sep"], seps["inf_dflt_sep"]

    def shape(headers):
        """field names of the inferred class, two levels deep"""
        try:
            m, _ = mi.model_from_headers_rec("probe", headers)
        except BaseException as e:
            return ("raised", type(e).__name__)
        out_ = []
        for k, f in getattr(m, "__fields__", {}).items():
            sub = getattr(f.type_, "__fields__", None)
            out_.append((k, sorted(sub.keys()) if sub is not None else None))
        return out_

    def expect(header, by_name):
        """what the two candidate behaviours give on a single header (two levels)"""
        def nested(h):
            return hs_ in (h.split(as_)[0].split(ds_)[0] if by_name else h)
        if not nested(header):
            return [(header.split(as_)[0].split(ds_)[0].strip(), None)]
        field, sub = header.split(hs_, 1)
        if nested(sub):
            return [(field, [sub.split(hs_, 1)[0]])]
        return [(field, [sub.split(as_)[0].split(ds_)[0].strip()])]

    probes = [f"x{as_}float{ds_}1{hs_}5e3", f"x{ds_}a{hs_}b", f"x {as_} str {ds_} a{hs_}b ", f"a{hs_}b{ds_}1{hs_}5e3",
              f"a{hs_}b{as_}int{ds_}3", f"x{as_}int{ds_}3", f"a{hs_}c", "x"]
    got = [shape([p]) for p in probes]
    verdicts = [b for b in (False, True) if got == [expect(p, b) for p in probes]]
    if len(verdicts) != 1:
        raise Refuse("model_from_headers_rec splits headers neither on the whole header nor on the field name: "
                     + repr(list(zip(probes, got))))
    out.append("(* model_from_headers_rec looks for the header separator in get_field_name(header) (true)")
    out.append("   or in the whole header, annotations included (false): probed on 8 headers *)")
    out.append(f"Definition inf_nested_by_field_name : bool := {coq_bool(verdicts[0])}.")
    notes.append(f"nested_by_field_name: PROBED model_from_headers_rec on {len(probes)} headers -> {verdicts[0]}")

    # ---- outer type names: tabulate type_from_string over every name it can sensibly see
    cands = [""] + sorted(set(dir(builtins)) | set(vars(mi)) | {"str", "int", "float", "bool", "list", "List"})
    cands = [c for c in cands if "." not in c]
    outer = []
    for n in cands:
        try:
            t = mi.type_from_string(n)
        except BaseException:
            continue
        tg = _tag(t)
        if tg is not None:
            outer.append((n, tg))
    if not outer:
        raise Refuse("type_from_string maps no candidate name to a type of the universe")
    out.append("(* tags: 0 str, 1 int, 2 float, 3 bool, 4 builtin list, 5 typing.List (bare) *)")
    out.append("Definition inf_type_names : list (str * N) := "
               + coq_list(f"({coq_str(n)}, {tg}%N)" for n, tg in outer) + ".")
    notes.append(f"type_names: TABULATED type_from_string over {len(cands)} candidate names "
                 "(\"\", builtins, globals of model_inference)")

    # ---- the name of typing.List as an annotation, and the names usable inside its brackets
    gen = [n for n, tg in outer if tg == 5]
    if len(gen) != 1:
        raise Refuse(f"expected exactly one annotation name for typing.List, found {gen!r}")
    g = gen[0]
    out.append(f"Definition inf_generic_name : str := {coq_str(g)}.")
    inner = []
    for n in cands:
        if n == "":
            continue
        try:
            t = mi.type_from_string(f"{g}[{n}]")
        except BaseException:
            continue
        if getattr(t, "__origin__", None) is not list or len(getattr(t, "__args__", ())) != 1:
            continue
        tg = _tag(t.__args__[0])
        if tg is not None:
            inner.append((n, tg))
    out.append("Definition inf_inner_type_names : list (str * N) := "
               + coq_list(f"({coq_str(n)}, {tg}%N)" for n, tg in inner) + ".")
    # the bracket syntax itself (Python's subscript) and nesting, checked behaviourally
    try:
        ok = (mi.type_from_string(f"{g}[{g}[int]]") == typing.List[typing.List[int]]
              and mi.type_from_string(f"{g}[int]") == typing.List[int])
    except BaseException as e:
        raise Refuse(f"type_from_string does not understand {g}[...]: {e!r}")
    if not ok:
        raise Refuse(f"type_from_string({g}[{g}[int]]) is not List[List[int]]")
    try:
        mi.type_from_string(f"{g}[]")
        raise Refuse(f"type_from_string accepts {g}[]")
    except Refuse:
        raise
    except BaseException:
        pass
    out.append("Definition inf_generic_open : char := 91%N.  (* '[' : Python subscript syntax, checked behaviourally *)")
    out.append("Definition inf_generic_close : char := 93%N. (* ']' *)")

    # ---- str_to_bool: which words mean False (tabulated; must be case-insensitive)
    words = ["false", "true", "", "0", "1", "no", "yes", "f", "n", "none", "off", "null", "fals", "falsee", " false"]
    false_words = []
    for w in words:
        rs = {bool(str_to_bool(x)) for x in (w, w.upper(), w.title())}
        if len(rs) != 1:
            raise Refuse(f"str_to_bool is not case-insensitive on {w!r}")
        if rs == {False}:
            false_words.append(w)
    out.append(f"Definition inf_bool_false_words : list str := {coq_list(coq_str(w) for w in false_words)}.")
    notes.append("bool_false_words: TABULATED str_to_bool over 15 candidate words x 3 casings")


GENERATORS = [tables_infer]
