"""C18 tables: header separators of RowParser, the type-name table of
model_inference.type_from_string (outer names and names inside `List[...]`), the name under
which typing.List is reachable from a header annotation, and str_to_bool's false-words.
Everything is read from *effective values* (import + tabulation); fail-closed.
All constants are prefixed inf_ (the row-codec engine emits its own separators)."""
import builtins
import typing

from gen_tables import Refuse, coq_char, coq_list, coq_str

# tags of the small type universe of coq/theories/Row/InferTy.v
TAGS = [str, int, float, bool, list, typing.List]  # 0..5


def _tag(t):
    for i, o in enumerate(TAGS):
        if t is o:
            return i
    return None


def tables_infer(out, notes):
    import rpft.parsers.common.model_inference as mi
    from rpft.parsers.common.rowparser import RowParser, str_to_bool

    seps = {}
    for coq_name, attr in (("inf_hdr_sep", "HEADER_FIELD_SEPARATOR"), ("inf_ann_sep", "TYPE_ANNOTATION_SEPARATOR"),
                           ("inf_dflt_sep", "DEFAULT_VALUE_SEPARATOR")):
        v = getattr(RowParser, attr, None)
        if not (isinstance(v, str) and len(v) == 1):
            raise Refuse(f"RowParser.{attr} is not a one-character string: {v!r}")
        seps[coq_name] = v
        out.append(f"Definition {coq_name} : char := {coq_char(v)}.")

    # ---- outer type names: tabulate type_from_string over every name it can sensibly see
    cands = [""] + sorted(set(dir(builtins)) | set(vars(mi)) | {"str", "int", "float", "bool", "list", "List"})
    cands = [c for c in cands if "." not in c]
    outer = []
    for n in cands:
        try:
            t = mi.type_from_string(n)
        except BaseException:
            continue
        tg = _tag(t)
        if tg is not None:
            outer.append((n, tg))
    if not outer:
        raise Refuse("type_from_string maps no candidate name to a type of the universe")
    out.append("(* tags: 0 str, 1 int, 2 float, 3 bool, 4 builtin list, 5 typing.List (bare) *)")
    out.append("Definition inf_type_names : list (str * N) := "
               + coq_list(f"({coq_str(n)}, {tg}%N)" for n, tg in outer) + ".")
    notes.append(f"type_names: TABULATED type_from_string over {len(cands)} candidate names "
                 "(\"\", builtins, globals of model_inference)")

    # ---- the name of typing.List as an annotation, and the names usable inside its brackets
    gen = [n for n, tg in outer if tg == 5]
    if len(gen) != 1:
        raise Refuse(f"expected exactly one annotation name for typing.List, found {gen!r}")
    g = gen[0]
    out.append(f"Definition inf_generic_name : str := {coq_str(g)}.")
    inner = []
    for n in cands:
        if n == "":
            continue
        try:
            t = mi.type_from_string(f"{g}[{n}]")
        except BaseException:
            continue
        if getattr(t, "__origin__", None) is not list or len(getattr(t, "__args__", ())) != 1:
            continue
        tg = _tag(t.__args__[0])
        if tg is not None:
            inner.append((n, tg))
    out.append("Definition inf_inner_type_names : list (str * N) := "
               + coq_list(f"({coq_str(n)}, {tg}%N)" for n, tg in inner) + ".")
    # the bracket syntax itself (Python's subscript) and nesting, checked behaviourally
    try:
        ok = (mi.type_from_string(f"{g}[{g}[int]]") == typing.List[typing.List[int]]
              and mi.type_from_string(f"{g}[int]") == typing.List[int])
    except BaseException as e:
        raise Refuse(f"type_from_string does not understand {g}[...]: {e!r}")
    if not ok:
        raise Refuse(f"type_from_string({g}[{g}[int]]) is not List[List[int]]")
    try:
        mi.type_from_string(f"{g}[]")
        raise Refuse(f"type_from_string accepts {g}[]")
    except Refuse:
        raise
    except BaseException:
        pass
    out.append("Definition inf_generic_open : char := 91%N.  (* '[' : Python subscript syntax, checked behaviourally *)")
    out.append("Definition inf_generic_close : char := 93%N. (* ']' *)")

    # ---- str_to_bool: which words mean False (tabulated; must be case-insensitive)
    words = ["false", "true", "", "0", "1", "no", "yes", "f", "n", "none", "off", "null", "fals", "falsee", " false"]
    false_words = []
    for w in words:
        rs = {bool(str_to_bool(x)) for x in (w, w.upper(), w.title())}
        if len(rs) != 1:
            raise Refuse(f"str_to_bool is not case-insensitive on {w!r}")
        if rs == {False}:
            false_words.append(w)
    out.append(f"Definition inf_bool_false_words : list str := {coq_list(coq_str(w) for w in false_words)}.")
    notes.append("bool_false_words: TABULATED str_to_bool over 15 candidate words x 3 casings")


GENERATORS = [tables_infer]
