"""Tables of C12 (bulk instantiation, template arguments), regenerated from the *effective
behaviour* of the current tree:

  flow_name_sep_single / flow_name_sep_bulk
      the text between `<name>` and `<ID>` in the name of an instantiated flow, measured
      separately on the path "create_flow row naming the data row" and on the path "bulk
      create_flow row" by compiling a three-sheet index with rpft.converters.create_flows
      (the separator is a literal inside _parse_flow; measuring it is insensitive to where
      the literal lives).
  sheet_type_kw
      the one declared type that makes map_template_arguments_to_context bind the rows of
      the named data sheet.  Candidates: the identifier-like string constants in the ast of
      that function (fall-back: a fixed list); each is tried behaviourally; exactly one must
      bind a mapping.
  template_argument_fields
      pydantic fields of TemplateArgument in order, with `required` and the default.
  instance_context_private / literal_lists_fresh   (wave 4, Index/Alias.v: the policy `as_coded`)
      where the list OBJECTS of an instance come from, measured on create_flows output with templates
      that change a list in place: the same data row (with a list field) instantiated by two create_flow
      rows - does the second instance see what the first appended?  the same template with a begin_for
      over a literal two-level cell instantiated twice - does the second instance loop over the lists
      the first one changed?  true = each instance works on objects of its own.
"""
import ast
import inspect
import os
import re
import shutil
import tempfile
import textwrap

from gen_tables import Refuse, coq_str, coq_list, coq_bool


def _write(d, name, text):
    with open(os.path.join(d, name + ".csv"), "w", newline="", encoding="utf8") as f:
        f.write(text)


def _compile(sheets):
    from rpft.converters import create_flows

    d = tempfile.mkdtemp(prefix="c12tab")
    try:
        for k, v in sheets.items():
            _write(d, k, v)
        return create_flows([d], None, "csv")
    finally:
        shutil.rmtree(d, ignore_errors=True)


def _sep(create_row):
    out = _compile({
        "content_index": "type,sheet_name,data_sheet,data_row_id,new_name\n"
                         "data_sheet,dta,,,\n" + create_row,
        "dta": "ID,v\nRRR,x\n",
        "ttt": "row_id,type,from,message_text\n,send_message,start,hello\n",
    })
    names = [f["name"] for f in out["flows"]]
    if len(names) != 1:
        raise Refuse(f"C12 separator probe: expected one flow, got {names!r}")
    n = names[0]
    if not (n.startswith("ttt") and n.endswith("RRR") and len(n) >= 6):
        raise Refuse(f"C12 separator probe: flow name {n!r} is not <name><sep><ID>")
    return n[3:-3]


def _binds_mapping(kw):
    try:
        out = _compile({
            "content_index": "type,sheet_name,data_sheet,data_row_id,template_arguments\n"
                             f"template_definition,ttt,,,x;{kw}|\n"
                             "data_sheet,dta,,,\n"
                             "create_flow,ttt,,,dta\n",
            "dta": "ID,v\nRRR,x\n",
            "ttt": "row_id,type,from,message_text\n,send_message,start,{{ 'M' if x is mapping else 'S' }}\n",
        })
        texts = [a.get("text") for f in out["flows"] for n in f["nodes"] for a in n["actions"]]
    except BaseException as e:  # noqa
        return False
    return texts == ["M"]


_MUT = "{{ X.append('Q') or '' }}{{ X|join('+') }}"


def _private(sheets, what):
    """two instances, each appends to a list it is given and shows it: 'a+b+Q' twice = objects of their own (True),
    'a+b+Q' then 'a+b+Q+Q' = the second one got the object the first one changed (False); anything else: refuse"""
    try:
        out = _compile(sheets)
    except BaseException as e:  # noqa
        raise Refuse(f"C12 {what} probe: {type(e).__name__}: {e}")
    texts = [[a.get("text") for n in f["nodes"] for a in n["actions"]] for f in out["flows"]]
    if texts == [["a+b+Q"], ["a+b+Q"]]:
        return True
    if texts == [["a+b+Q"], ["a+b+Q+Q"]]:
        return False
    raise Refuse(f"C12 {what} probe: unexpected texts {texts!r}")


def tables_c12(out, notes):
    from rpft.parsers.creation.contentindexparser import ContentIndexParser
    from rpft.parsers.creation.contentindexrowmodel import TemplateArgument

    import logging
    logging.disable(logging.CRITICAL)
    try:
        s_single = _sep("create_flow,ttt,dta,RRR,\n")
        s_bulk = _sep("create_flow,ttt,dta,,\n")
        out.append(f"Definition flow_name_sep_single : str := {coq_str(s_single)}.")
        out.append(f"Definition flow_name_sep_bulk : str := {coq_str(s_bulk)}.")
        notes.append(f"flow_name_sep_*: measured on create_flows output ({s_single!r}, {s_bulk!r})")

        cands = []
        try:
            fn = ContentIndexParser.map_template_arguments_to_context
            tree = ast.parse(textwrap.dedent(inspect.getsource(fn)))
            for node in ast.walk(tree):
                if isinstance(node, ast.Constant) and isinstance(node.value, str) \
                        and re.fullmatch(r"[A-Za-z_][A-Za-z0-9_]*", node.value):
                    cands.append(node.value)
            notes.append("sheet_type_kw: candidates from the ast of map_template_arguments_to_context")
        except Exception:
            pass
        for c in ["sheet", "Sheet", "sheets", "data_sheet", "table", "rows", "str", "list"]:
            if c not in cands:
                cands.append(c)
        good = [c for c in cands if _binds_mapping(c)]
        if len(good) != 1:
            raise Refuse(f"C12: cannot determine the sheet-argument type keyword (binding candidates: {good!r})")
        if _binds_mapping(""):
            raise Refuse("C12: an argument declared without a type is bound to a mapping")
        out.append(f"Definition sheet_type_kw : str := {coq_str(good[0])}.")

        head = "type,sheet_name,data_sheet,data_row_id,new_name\n"
        ctx_private = _private({
            "content_index": head + "data_sheet,dta,,,\ncreate_flow,ttt,dta,RRR,one\ncreate_flow,ttt,dta,RRR,two\n",
            "dta": "ID,items:List[str]\nRRR,a;b\n",
            "ttt": "row_id,type,from,message_text\n,send_message,start," + _MUT.replace("X", "items") + "\n",
        }, "instance_context_private")
        lit_fresh = _private({
            "content_index": head + "create_flow,ttt,,,one\ncreate_flow,ttt,,,two\n",
            "ttt": "row_id,type,from,loop_variable,message_text\n,begin_for,start,pr,a;b|\n,send_message,,," + _MUT.replace("X", "pr") + "\n,end_for,,,\n",
        }, "literal_lists_fresh")
        out.append(f"Definition instance_context_private : bool := {coq_bool(ctx_private)}.")
        out.append(f"Definition literal_lists_fresh : bool := {coq_bool(lit_fresh)}.")
        notes.append(f"instance_context_private={ctx_private}, literal_lists_fresh={lit_fresh}: measured on create_flows output (templates that append to a list they are given)")
    finally:
        logging.disable(logging.NOTSET)

    flds = []
    for name, f in TemplateArgument.__fields__.items():
        d = f.default
        if not (d is None or isinstance(d, str)):
            raise Refuse(f"TemplateArgument.{name}: default {d!r} is not a string")
        if f.outer_type_ is not str:
            raise Refuse(f"TemplateArgument.{name}: type {f.outer_type_!r} is not str")
        flds.append("(%s, %s, %s)" % (coq_str(name), coq_bool(bool(f.required)), coq_str(d or "")))
    out.append(f"Definition template_argument_fields : list (str * bool * str) := {coq_list(flds)}.")


GENERATORS = [tables_c12]
