"""C15 probe of ONE invocation environment of `rpft create_flows` (run as a subprocess, never imported).

usage:  python c15_probe.py <result.json> <src root> [--introspect] -- <arguments of the rpft command ...>

The process is started in the working directory and with the environment of the configuration
under test.  It runs `rpft.cli.main()` exactly as `python -m rpft.cli` / the `rpft` script would
(import of rpft.cli included: that is where initialize_main_logger runs), with the library call
`rpft.converters.create_flows` replaced by a function that MEASURES the logging configuration
in force at the moment the library would start to work:

  * the effective level of logger "main" (the lowest level for which isEnabledFor holds; 1000 =
    the logger is disabled),
  * every handler that sees a record of that logger (Logger.callHandlers: the logger's own
    handlers, then those of its ancestors while `propagate`), in call order, with its class and,
    BEHAVIOURALLY, the lowest level at which handler.handle(record) ends the process
    (SystemExit) and with which status (1000 = never),
  * end to end: the lowest level at which logger.log(level, ...) ends the process, and the status.

Also recorded: environment variables read from frames of the package while all this ran (names
computed at run time included), whether the command got as far as the library call, with which
status it ended when it did not, and whether the output path was touched in that case; with
--introspect the options of the live argparse parser of the create_flows subcommand.
"""
import io
import json
import logging
import os
import sys

LEVELS = (10, 20, 30, 40, 50)
NEVER = 1000
SENTINEL = "C15-PROBE-SENTINEL\n"


def _status(code):
    if code is None:
        return 0
    if isinstance(code, int):
        return code & 0xFF if code >= 0 else 1
    return 1          # sys.exit("text") prints the text and exits with 1


def _qual(o):
    c = type(o)
    return f"{c.__module__}.{c.__qualname__}"


def measure(shutdown_cls):
    from rpft.logger import logger as rlog

    name = getattr(rlog, "LOGGER_NAME", "main")
    lg = logging.getLogger(name)
    level = NEVER
    if not lg.disabled:
        for lvl in range(1, 61):
            if lg.isEnabledFor(lvl):
                level = lvl
                break
    chain = []
    c = lg
    while c is not None:
        for h in c.handlers:
            chain.append(h)
        if not c.propagate:
            break
        c = c.parent
    handlers = []
    for h in chain:
        thr, code = NEVER, 0
        for lvl in LEVELS:
            rec = lg.makeRecord(lg.name, lvl, "(c15 probe)", 0, "c15 probe record", (), None)
            try:
                lg.filter(rec)          # the ContextFilter adds the attributes the formatter needs
            except Exception:
                pass
            try:
                h.handle(rec)
            except SystemExit as e:
                thr, code = lvl, _status(e.code)
                break
            except Exception:
                pass
        target = ""
        if isinstance(h, logging.FileHandler):
            target = "file:" + os.path.basename(getattr(h, "baseFilename", "") or "")
        elif isinstance(h, logging.StreamHandler):
            s = getattr(h, "stream", None)
            target = "stream:" + ("stderr" if s is sys.__stderr__ or s is sys.stderr else
                                  "stdout" if s is sys.__stdout__ or s is sys.stdout else type(s).__name__)
        handlers.append(dict(cls=_qual(h), is_shutdown=bool(shutdown_cls and isinstance(h, shutdown_cls)),
                             level=int(getattr(h, "level", 0) or 0), threshold=thr, exit=code, target=target))
    obs_thr, obs_exit = NEVER, 0
    for lvl in LEVELS:
        try:
            lg.log(lvl, "c15 probe record")
        except SystemExit as e:
            obs_thr, obs_exit = lvl, _status(e.code)
            break
        except Exception:
            pass
    return dict(logger=name, level=level, handlers=handlers, observed=[obs_thr, obs_exit])


def introspect(cli):
    import argparse

    out = dict(subcommands=[], options=[], error=None)
    try:
        p = cli.create_parser()
    except Exception as e:
        out["error"] = f"create_parser: {type(e).__name__}: {e}"
        return out

    def describe(a, position):
        return dict(position=position, option_strings=list(a.option_strings), dest=a.dest,
                    nargs=a.nargs if a.nargs is None or isinstance(a.nargs, (int, str)) else str(a.nargs),
                    choices=[str(c) for c in a.choices] if a.choices is not None and not isinstance(a.choices, dict) else None,
                    required=bool(getattr(a, "required", False)), default=repr(a.default),
                    type=getattr(a.type, "__name__", None) if a.type is not None else None,
                    action=type(a).__name__, help=(a.help or "")[:200])

    target = None
    for a in p._actions:
        if isinstance(a, argparse._SubParsersAction):
            if "create_flows" in a.choices:
                target = a.choices["create_flows"]
                out["subcommands"] = sorted(n for n, sp in a.choices.items() if sp is target)
        elif not isinstance(a, argparse._HelpAction):
            out["options"].append(describe(a, "global"))
    if target is None:
        out["error"] = "no create_flows subcommand"
        return out
    for a in target._actions:
        if not isinstance(a, argparse._HelpAction):
            out["options"].append(describe(a, "sub"))
    return out


def main():
    res_path, src = sys.argv[1], sys.argv[2]
    rest = sys.argv[3:]
    want_options = False
    if rest and rest[0] == "--introspect":
        want_options, rest = True, rest[1:]
    if not rest or rest[0] != "--":
        raise SystemExit("usage")
    argv = rest[1:]
    out_path = None
    for i, a in enumerate(argv):
        if a in ("-o", "--output") and i + 1 < len(argv):
            out_path = argv[i + 1]
        elif a.startswith("--output="):
            out_path = a.split("=", 1)[1]
    result = dict(reached=False, status=None, error=None, env_reads=[], log=None, options=None,
                  out_untouched=None, argv=argv)

    srcp = os.path.realpath(src) + os.sep
    reads = result["env_reads"]
    Env = type(os.environ)
    orig_getitem = Env.__getitem__
    skip = ("os.py", "_collections_abc.py", "<frozen os>", "<frozen _collections_abc>")

    def traced(self, key):
        try:
            f = sys._getframe(1)
            while f is not None and (f.f_code.co_filename in skip or os.path.basename(f.f_code.co_filename) in skip):
                f = f.f_back
            if f is not None and os.path.realpath(f.f_code.co_filename).startswith(srcp) and len(reads) < 400:
                reads.append([key if isinstance(key, str) else repr(key),
                              os.path.relpath(os.path.realpath(f.f_code.co_filename), srcp), f.f_lineno])
        except Exception:
            pass
        return orig_getitem(self, key)

    Env.__getitem__ = traced
    state = {}
    status, error = None, None
    real_stdout = sys.stdout
    sys.stdout = io.StringIO()
    try:
        try:
            sys.argv = ["rpft"] + argv
            import rpft.cli as cli
            import rpft.converters as conv

            shutdown_cls = None
            try:
                from rpft.logger.logger import ShutdownHandler as shutdown_cls
            except Exception:
                pass
            real = conv.create_flows

            def fake(*a, **k):
                state["called"] = True
                state["log"] = measure(shutdown_cls)
                return {"campaigns": [], "fields": [], "flows": [], "groups": [], "triggers": [], "version": "13"}

            conv.create_flows = fake
            for k, v in list(vars(cli).items()):
                if v is real:
                    setattr(cli, k, fake)
            if want_options:
                result["options"] = introspect(cli)
            cli.main()
            status = 0
        except SystemExit as e:
            status = _status(e.code)
        except BaseException as e:
            status, error = 1, f"{type(e).__name__}: {e}"[:400]
    finally:
        sys.stdout = real_stdout
        Env.__getitem__ = orig_getitem
    result["reached"] = bool(state.get("called"))
    result["status"] = status
    result["error"] = error
    result["log"] = state.get("log")
    if out_path is not None and not result["reached"]:
        try:
            result["out_untouched"] = open(out_path).read() == SENTINEL
        except Exception:
            result["out_untouched"] = False
    with open(res_path, "w") as f:
        json.dump(result, f)


if __name__ == "__main__":
    main()
