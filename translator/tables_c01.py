"""C01 table: does FlowParser._compile_flow validate that the node uuids of a compiled flow are pairwise
distinct?  (It does since the repair of the finding duplicate-given-node-id; before, two rows that could not be
merged into one node and carried the same given `_nodeId` silently compiled to two nodes with one uuid.)

Behavioural probe on the CURRENT tree: `_compile_flow` is run on a parser whose node groups hold (i) two basic
nodes with the same uuid, (ii) two basic nodes with different uuids; the CRITICAL records it logs are counted.
Fail-closed: a critical error on distinct uuids, or a probe that cannot be run, raises Refuse."""
import logging

from gen_tables import Refuse, coq_bool


def criticals_of_compile(uuid_lists):
    """flows of ONE container, each given as the list of its node uuids -> per flow the list of CRITICAL messages
    logged by FlowParser._compile_flow (a SystemExit raised by a handler counts as the end of that flow)"""
    import tablib
    from rpft.parsers.creation.flowparser import FlowParser, RowNodeGroup
    from rpft.rapidpro.models.containers import RapidProContainer
    from rpft.rapidpro.models.nodes import BasicNode

    class Collect(logging.Handler):
        def __init__(self):
            super().__init__()
            self.msgs = []

        def emit(self, record):
            if record.levelno >= logging.CRITICAL:
                self.msgs.append(record.getMessage())

    lg = logging.getLogger("main")
    container = RapidProContainer()
    out = []
    for i, us in enumerate(uuid_lists):
        h = Collect()
        lg.handlers.insert(0, h)        # before any handler that raises SystemExit
        try:
            fp = FlowParser(container, f"probe{i}", table=tablib.Dataset(headers=["row_id", "type"]))
            for u in us:
                node = BasicNode(uuid=u)
                node.update_default_exit(None)
                fp.current_node_group().add_node_group(RowNodeGroup(node, "send_message"))
            try:
                fp._compile_flow()
            except SystemExit:
                pass
        finally:
            lg.handlers.remove(h)
        out.append(h.msgs)
    return out


def tables_c01(out, notes):
    a, b = "aaaaaaaa-aaaa-4aaa-8aaa-aaaaaaaaaaaa", "bbbbbbbb-bbbb-4bbb-8bbb-bbbbbbbbbbbb"
    try:
        dup, distinct = criticals_of_compile([[a, a], [a, b]])
    except Exception as e:
        raise Refuse(f"cannot probe FlowParser._compile_flow: {type(e).__name__}: {e}")
    if distinct:
        raise Refuse(f"_compile_flow reports a critical error on two nodes with different uuids: {distinct!r}")
    out.append(f"Definition compile_checks_node_uuids : bool := {coq_bool(bool(dup))}.")
    notes.append("compile_checks_node_uuids: TABULATED by running FlowParser._compile_flow on two nodes with one uuid / two uuids")


# ------------------------------------------------------------------------------------------------------------
# How FlowParser READS rows: padding edges, has_group conditions.  Behavioural probes on the current tree: small
# flows are parsed by FlowParser.parse() (no container validation) and the objects it built are inspected.

EDGE_COLS = ["from", "condition.value", "condition.variable", "condition.type", "condition.name"]


def parse_probe_flow(rows, width=2):
    """rows: dicts with row_id, type, edges (list of dicts over EDGE_COLS, padded with blanks to `width`), and other
    cells.  -> ('ok', FlowContainer) | ('critical', message) | ('crash', exception name)"""
    import tablib
    from rpft.parsers.creation.flowparser import FlowParser
    from rpft.rapidpro.models.containers import RapidProContainer

    class Stop(logging.Handler):
        def emit(self, record):
            if record.levelno >= logging.CRITICAL:
                raise SystemExit(record.getMessage())

    headers = ["row_id", "type"] + [f"edges.{i + 1}.{c}" for i in range(width) for c in EDGE_COLS] + ["message_text", "node_name"]
    data = []
    for r in rows:
        cells = {"row_id": r.get("row_id", ""), "type": r["type"], "message_text": r.get("message_text", ""), "node_name": r.get("node_name", "")}
        for i in range(width):
            e = r["edges"][i] if i < len(r["edges"]) else {}
            for c in EDGE_COLS:
                cells[f"edges.{i + 1}.{c}"] = e.get(c, "")
        data.append([cells[h] for h in headers])
    lg = logging.getLogger("main")
    h = Stop()
    lg.handlers.insert(0, h)
    try:
        fp = FlowParser(RapidProContainer(), "probe", table=tablib.Dataset(*data, headers=headers))
        try:
            return ("ok", fp.parse(add_to_container=False))
        except SystemExit as e:
            return ("critical", str(e))
        except Exception as e:
            return ("crash", type(e).__name__)
    finally:
        lg.handlers.remove(h)


def node_by_text(flow, text):
    for n in flow.nodes:
        for a in n.actions:
            if getattr(a, "text", None) == text:
                return n
    raise Refuse(f"probe flow has no node with the message {text!r}")


def padding_probes():
    """per row type: does a blank padding edge (all edges.2.* cells blank) of a row of that type act as an unconditional
    edge from the preceding row?  -> {row type: True (applied) | False (dropped)}"""
    S = dict
    m1 = S(row_id="1", type="send_message", edges=[{"from": "start"}], message_text="one")
    m2 = S(row_id="2", type="send_message", edges=[{"from": "1"}], message_text="two")
    out = {}

    def dest_of_two(rows):
        r = parse_probe_flow(rows)
        if r[0] != "ok":
            raise Refuse(f"padding probe does not parse: {r!r}")
        return node_by_text(r[1], "two").get_exits()[0].destination_uuid, r[1]

    # an ordinary row: padding was never read as an edge (else every rectangular sheet would be mis-wired)
    d, f = dest_of_two([m1, m2, S(row_id="3", type="send_message", edges=[{"from": "1"}], message_text="three")])
    out["send_message"] = d is not None
    d, f = dest_of_two([m1, m2, S(row_id="", type="hard_exit", edges=[{"from": "1"}])])
    out["hard_exit"] = d is not None
    # row 2 leads back to row 1; a loose_exit row from row 1 with a padding edge would cut that
    d, f = dest_of_two([m1, m2, S(row_id="", type="go_to", edges=[{"from": "2"}], message_text="1"),
                        S(row_id="", type="loose_exit", edges=[{"from": "1"}])])
    out["loose_exit"] = d is None
    d, f = dest_of_two([m1, m2, S(row_id="", type="go_to", edges=[{"from": "1"}], message_text="1")])
    out["go_to"] = d is not None
    d, f = dest_of_two([m1, m2, S(row_id="n", type="no_op", edges=[{"from": "1"}]),
                        S(row_id="3", type="send_message", edges=[{"from": "n"}], message_text="three")])
    out["no_op"] = d is not None
    d, f = dest_of_two([m1, m2, S(row_id="B", type="begin_block", edges=[{"from": "1"}]),
                        S(row_id="b", type="send_message", edges=[{}], message_text="three"), S(row_id="", type="end_block", edges=[{}])])
    out["begin_block"] = d is not None
    # a row merged into the node of row 1 through the node name: with the padding read as a second edge it is rejected
    r = parse_probe_flow([dict(m1, node_name="nn"), S(row_id="2", type="send_message", edges=[{"from": "1"}], message_text="two", node_name="nn")])
    if r[0] == "ok":
        out["merged row"] = False
    elif r[0] == "critical" and "exactly one unconditional incoming edge" in r[1]:
        out["merged row"] = True
    else:
        raise Refuse(f"padding probe (merged row): unexpected outcome {r!r}")
    return out


def has_group_probes():
    """the arguments of the case compiled from an edge with condition type has_group and value 'grp', per kind of source
    row -> {source: list of arguments}"""
    S = dict
    cond = {"condition.value": "grp", "condition.type": "has_group"}
    sheets = {
        "wait_for_response": [S(row_id="1", type="wait_for_response", edges=[{"from": "start"}]),
                              S(row_id="2", type="send_message", edges=[dict(cond, **{"from": "1"})], message_text="two")],
        "split_by_value": [S(row_id="1", type="split_by_value", edges=[{"from": "start"}], message_text="@fields.x"),
                           S(row_id="2", type="send_message", edges=[dict(cond, **{"from": "1"})], message_text="two")],
        "action row": [S(row_id="1", type="send_message", edges=[{"from": "start"}], message_text="one"),
                       S(row_id="2", type="send_message", edges=[dict(cond, **{"from": "1"})], message_text="two")],
        "split_by_group": [S(row_id="1", type="split_by_group", edges=[{"from": "start"}], message_text="grp;"),
                           S(row_id="2", type="send_message", edges=[{"from": "1", "condition.value": "grp"}], message_text="two")],
        "no_op": [S(row_id="1", type="send_message", edges=[{"from": "start"}], message_text="one"),
                  S(row_id="n", type="no_op", edges=[{"from": "1"}]),
                  S(row_id="2", type="send_message", edges=[dict(cond, **{"from": "n", "condition.variable": "@contact.groups"})], message_text="two")],
    }
    out = {}
    for what, rows in sheets.items():
        r = parse_probe_flow(rows, width=1)
        if r[0] != "ok":
            raise Refuse(f"has_group probe ({what}) does not parse: {r!r}")
        cases = [k for n in r[1].nodes if getattr(n, "router", None) is not None for k in getattr(n.router, "cases", [])]
        if len(cases) != 1 or cases[0].type != "has_group":
            raise Refuse(f"has_group probe ({what}): expected exactly one has_group case, got {[(k.type, k.arguments) for k in cases]!r}")
        out[what] = list(cases[0].arguments)
    return out


def shared_constant(plugin, fn_name, const):
    """the value another translator plugin emits for `const` (the shared probes padding_edges_dropped_at_read of
    tables_flowread.py and has_group_edges_by_name of tables_c04.py select the behaviour of Comp/Compile.v)"""
    import importlib
    tmp = []
    getattr(importlib.import_module(plugin), fn_name)(tmp, [])
    for line in tmp:
        if line.startswith(f"Definition {const} : bool := "):
            return line.rstrip(".").endswith("true")
    raise Refuse(f"{plugin} does not emit {const}")


def tables_rows_read(out, notes):
    """Comp/Compile.v reads rows with the SHARED constants padding_edges_dropped_at_read (tables_flowread.py, probed on
    a no_op row) and has_group_edges_by_name (tables_c04.py, probed on a wait_for_response row).  The compiler model
    applies them to every row type / to every row that is not a group split: that is checked here, row type by
    row type, fail-closed.  One constant is emitted: has_group_by_name_from_noop (NoOpNodeGroup.add_exit)."""
    try:
        pad = padding_probes()
    except Refuse:
        raise
    except Exception as e:
        raise Refuse(f"cannot probe how FlowParser reads padding edges: {type(e).__name__}: {e}")
    if pad.pop("send_message"):
        raise Refuse("a blank padding edge of an ordinary row is read as an edge")
    dropped = shared_constant("tables_flowread", "tables_flowread", "padding_edges_dropped_at_read")
    wrong = {k: v for k, v in pad.items() if v == dropped}
    if wrong:
        raise Refuse(f"padding_edges_dropped_at_read = {dropped}, but blank padding edges are "
                     f"{'applied' if dropped else 'dropped'} by rows of type {sorted(wrong)}: Comp/Compile.v has no mirror for that")
    try:
        hg = has_group_probes()
    except Refuse:
        raise
    except Exception as e:
        raise Refuse(f"cannot probe how has_group conditions are compiled: {type(e).__name__}: {e}")
    by_name, by_arg0 = [None, "grp"], ["grp"]
    if hg.pop("split_by_group") != by_name:
        raise Refuse("a split_by_group row no longer compiles its cases as [None, group name]")
    noop = hg.pop("no_op")
    if noop not in (by_name, by_arg0):
        raise Refuse(f"unexpected arguments of a has_group case compiled from an edge leaving a no_op decision: {noop!r}")
    named = shared_constant("tables_c04", "tables_c04", "has_group_edges_by_name")
    wrong = {k: v for k, v in hg.items() if v != (by_name if named else by_arg0)}
    if wrong:
        raise Refuse(f"has_group_edges_by_name = {named}, but a has_group condition is compiled to {wrong!r}: "
                     "Comp/Compile.v has no mirror for that")
    out.append(f"Definition has_group_by_name_from_noop : bool := {coq_bool(noop == by_name)}.")
    notes.append("has_group_by_name_from_noop: TABULATED by parsing a probe sheet with a has_group condition on an edge leaving a no_op "
                 "decision and reading the case's arguments; padding_edges_dropped_at_read / has_group_edges_by_name CHECKED for go_to, no_op, "
                 "hard_exit, loose_exit, begin_block, merged rows / wait_for_response, split_by_value, action rows")


def tables_names(out, notes):
    """explicit_names_claimed: does an explicit category name claim its name (the repair of the finding category-name-clash)?
    Behavioural probe on SwitchRouter.add_choice: (1) an unnamed test 'yes' (its category gets the invented name 'Yes'), then a
    test 'yeah' with the explicit name 'Yes': one category with both tests (the invented category is re-used: false) or two
    categories, the invented one renamed (true); (2) a test with the explicit name 'Other' (the default category's): re-targets the
    default category (false) or is refused with a RapidProRouterError (true); (3) the same for 'No Response' on a router with a
    timeout.  The three answers must agree; anything else is a Refuse."""
    try:
        from rpft.rapidpro.models.exceptions import RapidProRouterError
        from rpft.rapidpro.models.routers import SwitchRouter

        r1 = SwitchRouter("@input.text", wait_timeout=0)
        r1.add_choice("@input.text", "has_any_word", ["yes"], None, "d1")
        r1.add_choice("@input.text", "has_any_word", ["yeah"], "Yes", "d2")
        cats = [(c.name, c.exit.destination_uuid) for c in r1.categories]
        case_cats = [k.category_uuid for k in r1.cases]
        if len(cats) == 1 and cats[0] == ("Yes", "d2") and case_cats[0] == case_cats[1]:
            a1 = False
        elif len(cats) == 2 and cats[0][1] == "d1" and cats[1] == ("Yes", "d2") and cats[0][0] != "Yes" and case_cats[0] != case_cats[1]:
            a1 = True
        else:
            raise Refuse(f"explicit category name equal to an invented one: categories {cats!r}")

        def reserved(name, timeout):
            r = SwitchRouter("@input.text", wait_timeout=timeout)
            try:
                r.add_choice("@input.text", "has_any_word", ["x"], name, "d9")
            except RapidProRouterError:
                return True
            target = r.default_category if name == "Other" else r.no_response_category
            if r.categories == [] and target.exit.destination_uuid == "d9" and r.cases[0].category_uuid == target.uuid:
                return False
            raise Refuse(f"explicit category name {name!r}: categories {[(c.name, c.exit.destination_uuid) for c in r.get_categories()]!r}")

        a2, a3 = reserved("Other", 0), reserved("No Response", 60)
    except Refuse:
        raise
    except Exception as e:
        raise Refuse(f"cannot probe SwitchRouter.add_choice on explicit category names: {type(e).__name__}: {e}")
    if not (a1 == a2 == a3):
        raise Refuse(f"explicit category names: invented-name clash claimed={a1}, 'Other' refused={a2}, 'No Response' refused={a3}: "
                     "Comp/Compile.v has no mirror for a mixture")
    out.append(f"Definition explicit_names_claimed : bool := {coq_bool(a1)}.")
    notes.append("explicit_names_claimed: TABULATED by SwitchRouter.add_choice with an explicit category name equal to an invented name / "
                 "'Other' / 'No Response'")


GENERATORS = [tables_c01, tables_rows_read, tables_names]
