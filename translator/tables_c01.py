"""C01 table: does FlowParser._compile_flow validate that the node uuids of a compiled flow are pairwise
distinct?  (It does since the repair of the finding duplicate-given-node-id; before, two rows that could not be
merged into one node and carried the same given `_nodeId` silently compiled to two nodes with one uuid.)

Behavioural probe on the CURRENT tree: `_compile_flow` is run on a parser whose node groups hold (i) two basic
nodes with the same uuid, (ii) two basic nodes with different uuids; the CRITICAL records it logs are counted.
Fail-closed: a critical error on distinct uuids, or a probe that cannot be run, raises Refuse."""
import logging

from gen_tables import Refuse, coq_bool


def criticals_of_compile(uuid_lists):
    """flows of ONE container, each given as the list of its node uuids -> per flow the list of CRITICAL messages
    logged by FlowParser._compile_flow (a SystemExit raised by a handler counts as the end of that flow)"""
    import tablib
    from rpft.parsers.creation.flowparser import FlowParser, RowNodeGroup
    from rpft.rapidpro.models.containers import RapidProContainer
    from rpft.rapidpro.models.nodes import BasicNode

    class Collect(logging.Handler):
        def __init__(self):
            super().__init__()
            self.msgs = []

        def emit(self, record):
            if record.levelno >= logging.CRITICAL:
                self.msgs.append(record.getMessage())

    lg = logging.getLogger("main")
    container = RapidProContainer()
    out = []
    for i, us in enumerate(uuid_lists):
        h = Collect()
        lg.handlers.insert(0, h)        # before any handler that raises SystemExit
        try:
            fp = FlowParser(container, f"probe{i}", table=tablib.Dataset(headers=["row_id", "type"]))
            for u in us:
                node = BasicNode(uuid=u)
                node.update_default_exit(None)
                fp.current_node_group().add_node_group(RowNodeGroup(node, "send_message"))
            try:
                fp._compile_flow()
            except SystemExit:
                pass
        finally:
            lg.handlers.remove(h)
        out.append(h.msgs)
    return out


def tables_c01(out, notes):
    a, b = "aaaaaaaa-aaaa-4aaa-8aaa-aaaaaaaaaaaa", "bbbbbbbb-bbbb-4bbb-8bbb-bbbbbbbbbbbb"
    try:
        dup, distinct = criticals_of_compile([[a, a], [a, b]])
    except Exception as e:
        raise Refuse(f"cannot probe FlowParser._compile_flow: {type(e).__name__}: {e}")
    if distinct:
        raise Refuse(f"_compile_flow reports a critical error on two nodes with different uuids: {distinct!r}")
    out.append(f"Definition compile_checks_node_uuids : bool := {coq_bool(bool(dup))}.")
    notes.append("compile_checks_node_uuids: TABULATED by running FlowParser._compile_flow on two nodes with one uuid / two uuids")


GENERATORS = [tables_c01]
