#!/venv/bin/python
"""Regenerate coq/theories/Gen/Tables.v from /repo's *current* working tree.

Fail-closed: any table that can be neither read nor tabulated aborts generation with
exit status 3 and a message on stderr; the caller reports TIE-BROKEN(translator).

Reads *effective values*: the package is imported from $RPFT_SRC (default /repo/src) and
introspected.  Function-local literals are read from the function's ast; when that fails
the function is tabulated over its finite candidate domain (recorded in Tables.v).
"""
import ast
import hashlib
import inspect
import os
import sys
import textwrap

SRC = os.environ.get("RPFT_SRC", "/repo/src")
sys.path.insert(0, SRC)
sys.dont_write_bytecode = True

OUT = os.path.join(os.path.dirname(os.path.abspath(__file__)), "..", "coq", "theories", "Gen", "Tables.v")


class Refuse(Exception):
    pass


def coq_str(s):
    return "[" + "; ".join(str(ord(c)) for c in s) + "]%N"


def coq_char(c):
    if len(c) != 1:
        raise Refuse(f"expected one character, got {c!r}")
    return f"{ord(c)}%N"


def coq_list(items):
    return "[" + "; ".join(items) + "]"


def coq_bool(b):
    return "true" if b else "false"


def func_ast(fn):
    src = textwrap.dedent(inspect.getsource(fn))
    return ast.parse(src).body[0]


def local_literal(fn, name):
    """Value of `name = <literal>` inside function fn, or Refuse."""
    tree = func_ast(fn)
    found = []
    for node in ast.walk(tree):
        if isinstance(node, ast.Assign) and len(node.targets) == 1:
            t = node.targets[0]
            if isinstance(t, ast.Name) and t.id == name:
                try:
                    found.append(ast.literal_eval(node.value))
                except Exception:
                    raise Refuse(f"{fn.__qualname__}.{name} is not a literal")
    if len(found) != 1:
        raise Refuse(f"{fn.__qualname__}: expected exactly one literal assignment to {name}, found {len(found)}")
    return found[0]


# ----------------------------------------------------------------------------- E1

def tables_cell(out, notes):
    from rpft.parsers.common.cellparser import CellParser

    seps = CellParser.SEPARATORS
    if not (isinstance(seps, list) and len(seps) == 2 and all(isinstance(s, str) and len(s) == 1 for s in seps)):
        raise Refuse(f"CellParser.SEPARATORS is not a list of two one-character strings: {seps!r}")
    esc = CellParser.ESCAPE_CHARACTER
    out.append(f"Definition sep0 : char := {coq_char(seps[0])}.")
    out.append(f"Definition sep1 : char := {coq_char(seps[1])}.")
    out.append(f"Definition esc_char : char := {coq_char(esc)}.")
    # the temporary character of cleanse, IF the code has one (the three-replace un-escape parks escaped
    # backslashes in a character that a value may then not contain; the one-pass un-escape has none).
    # Read the function-local literal when there is one, and in every case probe the behaviour: a character c
    # is "used up" by cleanse when it does not come back from the middle of an otherwise plain word.
    # Candidates: U+0000..U+02FF plus every one-character string constant in CellParser's source.
    ast_tmp = None
    try:
        ast_tmp = local_literal(CellParser.cleanse, "TEMP_CHARACTER")
        if not (isinstance(ast_tmp, str) and len(ast_tmp) == 1):
            raise Refuse(f"CellParser.cleanse.TEMP_CHARACTER is not one character: {ast_tmp!r}")
    except Refuse as e:
        if "expected exactly one literal assignment" not in str(e) or "found 0" not in str(e):
            raise
    cands = {chr(i) for i in range(0x300)}
    try:
        for node in ast.walk(ast.parse(textwrap.dedent(inspect.getsource(CellParser)))):
            if isinstance(node, ast.Constant) and isinstance(node.value, str) and len(node.value) == 1:
                cands.add(node.value)
    except (OSError, TypeError, SyntaxError) as e:
        raise Refuse(f"cannot read the source of CellParser: {e}")
    if ast_tmp is not None:
        cands.add(ast_tmp)
    cp = CellParser()
    used_up = sorted(c for c in cands if cp.cleanse("a" + c + "b") != "a" + c + "b")
    if ast_tmp is not None:
        if used_up != [ast_tmp]:
            raise Refuse(f"cleanse names TEMP_CHARACTER {ast_tmp!r} but the characters it uses up are {used_up!r}")
        tmp = ast_tmp
        notes.append("cleanse_tmp: read from the ast of CellParser.cleanse (TEMP_CHARACTER), confirmed by probing")
    elif len(used_up) == 1:
        tmp = used_up[0]
        notes.append("cleanse_tmp: TABULATED by probing CellParser.cleanse over U+0000..U+02FF and the literals of the class")
    elif not used_up:
        tmp = None
        notes.append("cleanse_tmp: None - no TEMP_CHARACTER in the ast and no probed character is used up by cleanse")
    else:
        raise Refuse(f"cleanse uses up several characters: {used_up!r}")
    out.append("Definition cleanse_tmp : option char := " + ("None" if tmp is None else f"Some {coq_char(tmp)}") + ".")


# ----------------------------------------------------------------------------- E3

def tables_env(out, notes):
    """Undefined-variable policy and delimiters of the two Jinja environments."""
    import jinja2
    from rpft.parsers.common.cellparser import CellParser

    cp = CellParser()

    def policy(env):
        u = env.undefined
        if issubclass(u, jinja2.StrictUndefined):
            return "Strict"
        if u is jinja2.Undefined or issubclass(u, (jinja2.ChainableUndefined, jinja2.DebugUndefined)) or issubclass(u, jinja2.Undefined):
            return "Lenient"
        raise Refuse(f"unknown undefined class {u!r}")

    out.append("Inductive undefined_policy := Strict | Lenient.")
    out.append(f"Definition env_undefined_policy : undefined_policy := {policy(cp.env)}.")
    out.append(f"Definition native_undefined_policy : undefined_policy := {policy(cp.native_env)}.")
    out.append(f"Definition env_var_start : str := {coq_str(cp.env.variable_start_string)}.")
    out.append(f"Definition env_var_end : str := {coq_str(cp.env.variable_end_string)}.")
    out.append(f"Definition native_var_start : str := {coq_str(cp.native_env.variable_start_string)}.")
    out.append(f"Definition native_var_end : str := {coq_str(cp.native_env.variable_end_string)}.")
    fl = sorted(set(cp.env.filters) - set(jinja2.Environment().filters) | {"escape"} & set(cp.env.filters))
    out.append(f"Definition env_custom_filters : list str := {coq_list(coq_str(f) for f in fl)}.")
    out.append(
        "Definition escape_filter_is_cell_escape : bool := "
        + coq_bool(cp.env.filters.get("escape") is CellParser.escape_string
                   and cp.native_env.filters.get("escape") is CellParser.escape_string)
        + "."
    )


GENERATORS = [tables_cell, tables_env]

# further table generators are registered by translator/tables_*.py modules
def load_plugins():
    here = os.path.dirname(os.path.abspath(__file__))
    sys.path.insert(0, here)
    for fn in sorted(os.listdir(here)):
        if fn.startswith("tables_") and fn.endswith(".py"):
            mod = __import__(fn[:-3])
            GENERATORS.extend(mod.GENERATORS)


def main():
    out = []
    notes = []
    try:
        load_plugins()
        for g in GENERATORS:
            out.append(f"\n(* ---- {g.__name__} ---- *)")
            g(out, notes)
    except Refuse as e:
        print(f"TRANSLATOR-REFUSES: {e}", file=sys.stderr)
        return 3
    except Exception as e:  # import failure etc.
        import traceback
        traceback.print_exc()
        print(f"TRANSLATOR-REFUSES: {type(e).__name__}: {e}", file=sys.stderr)
        return 3
    # plugins written independently may emit the same table twice: keep one copy when
    # the text is identical, refuse when two plugins disagree about a name
    seen, dedup = {}, []
    for line in out:
        name = None
        for kw in ("Definition ", "Inductive "):
            if line.startswith(kw):
                name = line[len(kw):].split()[0].rstrip(":")
        if name is not None:
            if name in seen:
                if seen[name] == line:
                    continue
                print(f"TRANSLATOR-REFUSES: table {name} emitted twice with different contents", file=sys.stderr)
                return 3
            seen[name] = line
        dedup.append(line)
    out = dedup
    header = [
        "(* GENERATED by translator/gen_tables.py from the current /repo working tree.",
        "   Do not edit: regenerated on every run of ./check and of setup. *)",
        "From Coq Require Import List NArith Bool.",
        "From RPFT Require Import Base.Sexp.",
        "Import ListNotations.",
    ]
    body = "\n".join(header + out) + "\n\n(* notes:\n" + "\n".join("   " + n for n in notes) + "\n*)\n"
    out_path = os.path.abspath(os.environ.get("TABLES_OUT", OUT))
    os.makedirs(os.path.dirname(out_path), exist_ok=True)
    old = open(out_path).read() if os.path.exists(out_path) else None
    if old != body:
        with open(out_path, "w") as f:
            f.write(body)
        print("Tables.v: CHANGED", hashlib.sha256(body.encode()).hexdigest()[:16])
    else:
        print("Tables.v: unchanged", hashlib.sha256(body.encode()).hexdigest()[:16])
    return 0


if __name__ == "__main__":
    sys.exit(main())
