"""Row codec: behaviour probes for the repairs of round FX7 (findings.d/C04.json webhook-body-shadowed,
findings.d/C07.json).  Each probe runs the tree at hand on tiny inputs and recognises exactly two
behaviours - the one recorded as a finding and the repaired one; anything else is refused (the models
Row/RowParse.v, Cell/Cell.v, Io/XlsxCell.v mirror these two only).

  rekey_blank_keeps   RowParser.parse_row, re-keying of the headers: when two headers of a row denote the same
                      field (`webhook.body` and `message_text` in a call_webhook row) a BLANK cell does not
                      overwrite what an earlier one said / the last cell wins whatever it holds
  xlsx_export_text_cells
                      RowDataSheet.export(filename, "xlsx") + XLSXSheetReader: a cell text of two or more characters
                      that starts with "=" comes back as written (the export forces text cells) / comes back empty
                      (openpyxl stores it as a formula, which has no value when the file is read back)
  join_keeps_blank_last
                      CellParser.join_from_lists: a list (of two or more parts) whose last part is the empty text gets
                      a trailing separator, so that the reader - which drops one empty element after a final
                      separator - gives the empty last element back (`a;;` for ["a", ""]) / it does not (`a;`, read
                      back as ["a"])
  sheet_keeps_single_columns
                      RowDataSheet._get_headers: the header of a row that writes ONE column is a column of the sheet /
                      only headers that stand next to another header in some row are (the header order is read off the
                      edges between consecutive headers: a one-column row contributes none) - then a sheet of one-column
                      rows has no header at all (convert_to_tablib raises TypeError) and a one-column row next to wider
                      rows silently loses its cell
"""
from gen_tables import Refuse, coq_bool


# --------------------------------------------------------------------------------------------------------
def _probe_rekey(notes):
    from typing import List

    from rpft.parsers.common.cellparser import CellParser
    from rpft.parsers.common.rowparser import ParserModel, RowParser
    from rpft.parsers.creation.flowrowmodel import FlowRowModel

    class Alias(ParserModel):
        a: str = "dflt"
        b: str = ""
        l: List[str] = []

        def header_name_to_field_name_with_context(header, row):
            return {"x": "a", "y": "a", "z": "a", "m": "l", "n": "l"}.get(header, header)

    p = RowParser(Alias, CellParser())

    def run(cells):
        try:
            r = p.parse_row(dict(cells))
            return (r.a, r.b, tuple(r.l))
        except Exception as e:
            raise Refuse(f"rekey probe: parse_row({cells!r}) raises {type(e).__name__}: {e}")

    # behaviour common to both trees
    common = [
        ([("x", ""), ("y", "v")], ("v", "", ())),                 # blank first, value later: the value
        ([("x", "v"), ("y", "w")], ("w", "", ())),                # two values: the last one
        ([("x", "v"), ("y", " ")], ("", "", ())),                 # a cell of whitespace is not `== ""`: it is assigned (and stripped)
        ([("x", "")], ("", "", ())),                              # a single blank cell is assigned (not the default)
        ([("x", ""), ("y", "")], ("", "", ())),
        ([("b", "q"), ("x", "v")], ("v", "q", ())),
        ([("m", "1;2"), ("n", "3")], ("dflt", "", ("3",))),
    ]
    for cells, want in common:
        got = run(cells)
        if got != want:
            raise Refuse(f"rekey probe: parse_row({cells!r}) = {got!r}, expected {want!r} on either tree")
    # the two behaviours
    cases = [
        ([("x", "v"), ("y", "")], ("v", "", ()), ("", "", ())),
        ([("x", "v"), ("b", "q"), ("y", "")], ("v", "q", ()), ("", "q", ())),
        ([("x", "v"), ("y", ""), ("z", "")], ("v", "", ()), ("", "", ())),
        ([("x", "v"), ("y", ""), ("z", "w")], ("w", "", ()), ("w", "", ())),
        ([("m", "1;2"), ("b", ""), ("n", "")], ("dflt", "", ("1", "2")), ("dflt", "", ())),
    ]
    verdicts = set()
    for cells, kept, overwritten in cases:
        got = run(cells)
        if kept == overwritten:
            if got != kept:
                raise Refuse(f"rekey probe: parse_row({cells!r}) = {got!r}, expected {kept!r} on either tree")
            continue
        if got == kept:
            verdicts.add(True)
        elif got == overwritten:
            verdicts.add(False)
        else:
            raise Refuse(f"rekey probe: parse_row({cells!r}) = {got!r}: neither {kept!r} (a blank cell keeps the "
                         f"earlier value) nor {overwritten!r} (the last cell wins)")
    if len(verdicts) != 1:
        raise Refuse("rekey probe: a blank cell keeps the earlier value of its field in some rows and overwrites it in others")
    keeps = verdicts.pop()

    # the row of the finding itself, on the flow row model
    fp = RowParser(FlowRowModel, CellParser())
    row = {"row_id": "2", "type": "call_webhook", "edges.1.from": "1", "webhook.url": "http://hook/yes",
           "webhook.method": "PUT", "webhook.body": "body one", "message_text": "", "save_name": "hook alpha"}
    try:
        body = fp.parse_row(row).webhook.body
    except Exception as e:
        raise Refuse(f"rekey probe: the call_webhook row of the finding does not parse: {type(e).__name__}: {e}")
    if body != ("body one" if keeps else ""):
        raise Refuse(f"rekey probe: generic model says rekey_blank_keeps={keeps} but the call_webhook row reads body {body!r}")
    notes.append(f"rekey_blank_keeps={keeps}: PROBED on RowParser.parse_row with a model whose context remap sends three "
                 "headers to one field (12 rows: blank after value, blank before value, two values, whitespace cell, "
                 "list field) and on the call_webhook row of finding webhook-body-shadowed; a third behaviour is refused")
    return keeps


# --------------------------------------------------------------------------------------------------------
def xlsx_cells_roundtrip(texts):
    """texts -> what RowDataSheet.export(..., "xlsx") + XLSXSheetReader give back for each (one row per text, next to
    an id cell so that no row is empty).  Used by the probe below and by harness/c07.py."""
    import os
    import shutil
    import tempfile

    from rpft.parsers.common.cellparser import CellParser
    from rpft.parsers.common.rowdatasheet import RowDataSheet
    from rpft.parsers.common.rowparser import ParserModel, RowParser
    from rpft.parsers.sheets import XLSXSheetReader

    class OneCell(ParserModel):
        id: str = ""
        text: str = ""

    rows = [OneCell(id=f"r{i}", text=t) for i, t in enumerate(texts)]
    d = tempfile.mkdtemp(prefix="rpftxlsx")
    try:
        fn = os.path.join(d, "cells.xlsx")
        RowDataSheet(RowParser(OneCell, CellParser()), rows).export(fn, "xlsx")
        table = list(XLSXSheetReader(fn).sheets.values())[0].table
        hs = list(table.headers)
        if "id" not in hs:
            raise Refuse(f"xlsx probe: headers read back are {hs!r}")
        got = {}
        for r in table:
            rd = dict(zip(hs, r))
            got[rd["id"]] = rd.get("text", "")
        return [got.get(f"r{i}") for i in range(len(texts))]
    finally:
        shutil.rmtree(d, ignore_errors=True)


def _probe_xlsx(notes):
    plain = ["a", "=", "a=b", "'=x", "#N/A", "+1", "-1", "@x", "x =y", "1.50", "TRUE", "é|;\\", "a\nb"]
    formulas = ["=2+2 is four", "==", "=SUM(A1)", "=a", "= x", "=é"]
    try:
        back = xlsx_cells_roundtrip(plain + formulas)
    except Refuse:
        raise
    except Exception as e:
        raise Refuse(f"xlsx probe: RowDataSheet.export / XLSXSheetReader fail on plain texts: {type(e).__name__}: {e}")
    for t, b in zip(plain, back):
        if b != t:
            raise Refuse(f"xlsx probe: the cell text {t!r} (not a formula text) comes back as {b!r}")
    fb = back[len(plain):]
    if all(b == t for t, b in zip(formulas, fb)):
        verdict = True
    elif all(b == "" for b in fb):
        verdict = False
    else:
        raise Refuse(f"xlsx probe: texts starting with '=' come back as {list(zip(formulas, fb))!r}: neither all kept nor all empty")
    notes.append(f"xlsx_export_text_cells={verdict}: PROBED — {len(plain)} plain texts and {len(formulas)} texts of the form "
                 "'=…' through RowDataSheet.export(xlsx) + XLSXSheetReader (all '=…' texts kept: True; all empty: False; "
                 "anything else, or a plain text changed: refused)")
    return verdict


# --------------------------------------------------------------------------------------------------------
def _probe_join(notes):
    from rpft.parsers.common.cellparser import CellParser

    cp = CellParser()

    def j(v):
        try:
            return cp.join_from_lists(v)
        except Exception as e:
            raise Refuse(f"join probe: join_from_lists({v!r}) raises {type(e).__name__}: {e}")

    common = [("a", "a"), ([], ""), (["a"], "a|"), ([""], "|"), (["a", "b"], "a|b"), (["", "b"], "|b"), (["a", "", "b"], "a||b"),
              ([["a", "b"], ["c"]], "a;b|c;"), ([["a"]], "a;|"), ([[""]], ";|"), ([["", "b"], "c"], ";b|c"),
              (["a|b", "c;d\\"], "a\\|b|c\\;d\\\\")]
    for v, want in common:
        if j(v) != want:
            raise Refuse(f"join probe: join_from_lists({v!r}) = {j(v)!r}, expected {want!r} on either tree")
    cases = [(["a", ""], "a||", "a|"), (["", ""], "||", "|"), (["a", "", ""], "a|||", "a||"), ([["k", ""]], "k;;|", "k;|"),
             ([["k", ""], ["j", "v"]], "k;;|j;v", "k;|j;v"), ([["a"], []], "a;||", "a;|"), ([["a", "b"], ""], "a;b||", "a;b|"),
             ([["", ""]], ";;|", ";|")]
    verdicts = set()
    for v, kept, dropped in cases:
        got = j(v)
        if got == kept:
            verdicts.add(True)
        elif got == dropped:
            verdicts.add(False)
        else:
            raise Refuse(f"join probe: join_from_lists({v!r}) = {got!r}: neither {kept!r} nor {dropped!r}")
    if len(verdicts) != 1:
        raise Refuse("join probe: a trailing separator after an empty last part in some lists and not in others")
    keeps = verdicts.pop()
    # the reader's side of the argument: one empty element after a final separator is dropped
    reads = [("a|", ["a"]), ("a||", ["a", ""]), ("k;;|", [["k", ""]]), ("k;|", [["k"]]), ("|", [""]), ("||", ["", ""])]
    for txt, want in reads:
        got = cp.split_into_lists(txt)
        if got != want:
            raise Refuse(f"join probe: split_into_lists({txt!r}) = {got!r}, expected {want!r}")
    notes.append(f"join_keeps_blank_last={keeps}: PROBED on CellParser.join_from_lists ({len(common)} values joined alike on either "
                 f"tree, {len(cases)} values whose last part is empty: trailing separator on all: True; on none: False; "
                 "anything else refused) and on split_into_lists (6 texts)")
    return keeps


# --------------------------------------------------------------------------------------------------------
def sheet_header_set(subsets):
    """subsets: list of lists of field names out of a, b, c, d -> the headers RowDataSheet._get_headers gives for the rows
    that set exactly these fields (sorted; the ORDER of the sheet's columns is not part of the model).  Used by the probe
    below and by harness/c07.py."""
    from rpft.parsers.common.cellparser import CellParser
    from rpft.parsers.common.rowdatasheet import RowDataSheet
    from rpft.parsers.common.rowparser import ParserModel, RowParser

    class Four(ParserModel):
        a: str = ""
        b: str = ""
        c: str = ""
        d: str = ""

    rows = [Four(**{n: "v" for n in sub}) for sub in subsets]
    return sorted(RowDataSheet(RowParser(Four, CellParser()), rows)._get_headers())


def _probe_headers(notes):
    common = [([["a", "b"]], ["a", "b"]), ([["a", "b"], ["b", "c"]], ["a", "b", "c"]), ([], []), ([[]], []),
              ([["a", "b", "d"], ["a", "d"]], ["a", "b", "d"]), ([["a", "b"], ["a"]], ["a", "b"])]
    cases = [([["a"]], ["a"], []), ([["a"], ["a"]], ["a"], []), ([["a"], ["b"]], ["a", "b"], []),
             ([["a", "b"], ["c"]], ["a", "b", "c"], ["a", "b"]), ([["c"], ["a", "b"], ["d"]], ["a", "b", "c", "d"], ["a", "b"]),
             ([["a", "b"], ["b"], ["d"]], ["a", "b", "d"], ["a", "b"])]

    def run(subsets):
        try:
            return sheet_header_set(subsets)
        except Exception as e:
            raise Refuse(f"header probe: RowDataSheet._get_headers on rows {subsets!r} raises {type(e).__name__}: {e}")

    for subsets, want in common:
        if run(subsets) != want:
            raise Refuse(f"header probe: rows {subsets!r} give the headers {run(subsets)!r}, expected {want!r} on either tree")
    verdicts = set()
    for subsets, kept, lost in cases:
        got = run(subsets)
        if got == kept:
            verdicts.add(True)
        elif got == lost:
            verdicts.add(False)
        else:
            raise Refuse(f"header probe: rows {subsets!r} give the headers {got!r}: neither {kept!r} nor {lost!r}")
    if len(verdicts) != 1:
        raise Refuse("header probe: the header of a one-column row is kept in some sheets and lost in others")
    keeps = verdicts.pop()
    notes.append(f"sheet_keeps_single_columns={keeps}: PROBED on RowDataSheet._get_headers ({len(common)} sheets whose rows all have "
                 f"two or more columns or share their single one, {len(cases)} sheets with a one-column row: its header kept in all: "
                 "True; lost in all: False; anything else refused)")
    return keeps


def tables_rowfix(out, notes):
    out.append("")
    out.append("(* ---- row codec repairs (translator/tables_rowfix.py) ---- *)")
    try:
        keeps = _probe_rekey(notes)
    except Refuse:
        raise
    except Exception as e:
        raise Refuse(f"rekey probe failed: {type(e).__name__}: {e}")
    out.append(f"Definition rekey_blank_keeps : bool := {coq_bool(keeps)}.")
    try:
        text_cells = _probe_xlsx(notes)
    except Refuse:
        raise
    except Exception as e:
        raise Refuse(f"xlsx probe failed: {type(e).__name__}: {e}")
    out.append(f"Definition xlsx_export_text_cells : bool := {coq_bool(text_cells)}.")
    try:
        jk = _probe_join(notes)
    except Refuse:
        raise
    except Exception as e:
        raise Refuse(f"join probe failed: {type(e).__name__}: {e}")
    out.append(f"Definition join_keeps_blank_last : bool := {coq_bool(jk)}.")
    try:
        hk = _probe_headers(notes)
    except Refuse:
        raise
    except Exception as e:
        raise Refuse(f"header probe failed: {type(e).__name__}: {e}")
    out.append(f"Definition sheet_keeps_single_columns : bool := {coq_bool(hk)}.")


GENERATORS = [tables_rowfix]
