"""C13 tables: the INVENTORY of hidden state the code really has, regenerated from the
current source by import + introspection (inspect.signature over every function of every
rpft module, module globals, class attributes, pydantic field defaults), and the use sites
of the logging-context stack (ast).  A new mutable default / global / raw push changes a
Coq constant, and `inventory_ok` / `handler_discipline_ok` (vm_compute) stop checking.
"""
import ast
import enum
import importlib
import inspect
import os
import pkgutil
import shutil
import sys
import tempfile
import types
import warnings

from gen_tables import Refuse, coq_str, coq_list, coq_bool

IMMUTABLE = (type(None), bool, int, float, complex, str, bytes, frozenset, range, type,
             types.FunctionType, types.BuiltinFunctionType, types.ModuleType, enum.Enum,
             types.MethodType)


def immutable(v):
    if isinstance(v, tuple):
        return all(immutable(x) for x in v)
    return isinstance(v, IMMUTABLE)


def kind(v):
    if type(v) in (list, dict, set):
        return type(v).__name__
    return "obj:" + type(v).__qualname__


def abstract_value(v):
    """contents of a mutable default as an association list of strings (the model's oval)"""
    if isinstance(v, dict):
        return [(str(k), str(x)) for k, x in v.items()]
    if isinstance(v, (list, set, tuple)):
        return [(str(x), "") for x in (sorted(v, key=str) if isinstance(v, set) else v)]
    d = getattr(v, "__dict__", None)
    if isinstance(d, dict):
        out = []
        for k, x in sorted(d.items()):
            if isinstance(x, (dict, list, set)):
                out += [(f"{k}.{a}", b) for a, b in abstract_value(x)]
            else:
                out.append((str(k), str(x)))
        return out
    return [("?", repr(v))]


def load_modules():
    """every module of the rpft package.  rpft.cli opens errors.log in the cwd at import:
    import it from a scratch cwd."""
    warnings.simplefilter("ignore")
    import rpft

    src = os.environ.get("RPFT_SRC", "/repo/src")
    if not os.path.abspath(rpft.__path__[0]).startswith(os.path.abspath(src)):
        raise Refuse(f"rpft imported from {rpft.__path__[0]}, not from {src}")
    here = os.getcwd()
    scratch = tempfile.mkdtemp(prefix="c13tr")
    mods = []
    try:
        os.chdir(scratch)
        for m in sorted(pkgutil.walk_packages(rpft.__path__, "rpft."), key=lambda m: m.name):
            try:
                mods.append(importlib.import_module(m.name))
            except Exception as e:
                raise Refuse(f"cannot import {m.name}: {type(e).__name__}: {e}")
    finally:
        os.chdir(here)
        import logging
        for h in list(logging.getLogger("main").handlers):
            if isinstance(h, logging.FileHandler):
                h.close()
        shutil.rmtree(scratch, ignore_errors=True)
    return mods


def classes_of(mod):
    out = []

    def walk(cls):
        out.append(cls)
        for v in vars(cls).values():
            if isinstance(v, type) and v.__module__ == mod.__name__ and v.__qualname__.startswith(cls.__qualname__ + "."):
                walk(v)

    for v in vars(mod).values():
        if isinstance(v, type) and v.__module__ == mod.__name__ and "." not in v.__qualname__:
            walk(v)
    return out


def functions_of(mod):
    seen = set()
    for v in vars(mod).values():
        if isinstance(v, types.FunctionType) and v.__module__ == mod.__name__ and id(v) not in seen:
            seen.add(id(v))
            yield v
    for cls in classes_of(mod):
        for v in vars(cls).values():
            fs = []
            if isinstance(v, (staticmethod, classmethod)):
                fs = [v.__func__]
            elif isinstance(v, types.FunctionType):
                fs = [v]
            elif isinstance(v, property):
                fs = [g for g in (v.fget, v.fset, v.fdel) if g]
            for f in fs:
                if isinstance(f, types.FunctionType) and id(f) not in seen:
                    seen.add(id(f))
                    yield f


def inventory(mods):
    """-> (defaults, globals, class_attrs, field_defaults); each a sorted list of tuples."""
    import logging

    defaults, globs, cattrs, fields = [], {}, [], []
    for mod in mods:
        for f in functions_of(mod):
            try:
                sig = inspect.signature(f)
            except (TypeError, ValueError) as e:
                raise Refuse(f"no signature for {f.__qualname__}: {e}")
            for p in sig.parameters.values():
                if p.default is not inspect.Parameter.empty and not immutable(p.default):
                    defaults.append((mod.__name__ + ":" + f.__qualname__, p.name, kind(p.default), abstract_value(p.default)))
        # module globals: distinct mutable objects, named canonically
        try:
            tree = ast.parse(inspect.getsource(mod))
            assigned = set()
            for node in tree.body:
                tg = []
                if isinstance(node, ast.Assign):
                    tg = node.targets
                elif isinstance(node, (ast.AnnAssign, ast.AugAssign)):
                    tg = [node.target]
                for t in tg:
                    for n in ast.walk(t):
                        if isinstance(n, ast.Name):
                            assigned.add(n.id)
        except (OSError, TypeError):
            assigned = set()   # package __init__ without source etc.
        for n, v in vars(mod).items():
            if n.startswith("__") or immutable(v):
                continue
            if getattr(type(v), "__module__", "").startswith("typing"):
                continue
            if isinstance(v, logging.Logger):
                globs.setdefault(id(v), []).append((0, "logging", "getLogger(" + v.name + ")", "obj:Logger"))
            else:
                globs.setdefault(id(v), []).append((0 if n in assigned else 1, mod.__name__, n, kind(v)))
        for cls in classes_of(mod):
            for an, av in vars(cls).items():
                if an.startswith("__") or an.startswith("_abc_"):
                    continue
                if isinstance(av, (staticmethod, classmethod, property, types.FunctionType)) or immutable(av):
                    continue
                cattrs.append((mod.__name__ + ":" + cls.__qualname__, an, kind(av)))
            flds = vars(cls).get("__fields__")
            if isinstance(flds, dict):   # pydantic.v1 models: the stored default object of a field
                for fn, fv in flds.items():
                    d = getattr(fv, "default", None)
                    if not immutable(d):
                        fields.append((mod.__name__ + ":" + cls.__qualname__, fn, kind(d)))
    glist = sorted(set(min(names)[1:] for names in globs.values()))
    return sorted(defaults), glist, sorted(set(cattrs)), sorted(set(fields))


def handler_uses(mods):
    """Where the process-global logging context stack is touched, from the ast:
    (enclosing function, attribute used on logging_context_handler) and, for every
    construction `logging_context(...)`, whether it is the context expression of a `with`."""
    uses, ctx = [], []
    for mod in mods:
        try:
            tree = ast.parse(inspect.getsource(mod))
        except (OSError, TypeError):
            continue
        # names bound to the handler / the context manager in this module
        hnames = {n for n, v in vars(mod).items() if v is handler_object()}
        cnames = {n for n, v in vars(mod).items() if v is ctx_class()}
        mnames = {n for n, v in vars(mod).items() if isinstance(v, types.ModuleType) and v.__name__ == "rpft.logger.logger"}
        with_items = set()
        for node in ast.walk(tree):
            if isinstance(node, (ast.With, ast.AsyncWith)):
                for it in node.items:
                    with_items.add(id(it.context_expr))

        def is_handler(e):
            return (isinstance(e, ast.Name) and e.id in hnames) or \
                (isinstance(e, ast.Attribute) and e.attr == "logging_context_handler"
                 and isinstance(e.value, ast.Name) and e.value.id in mnames)

        def is_ctx(e):
            return (isinstance(e, ast.Name) and e.id in cnames) or \
                (isinstance(e, ast.Attribute) and e.attr == "logging_context"
                 and isinstance(e.value, ast.Name) and e.value.id in mnames)

        def visit(node, qual):
            for child in ast.iter_child_nodes(node):
                q = qual
                if isinstance(child, (ast.FunctionDef, ast.AsyncFunctionDef, ast.ClassDef)):
                    q = (qual + "." if qual else "") + child.name
                if isinstance(child, ast.Attribute) and is_handler(child.value):
                    uses.append((mod.__name__ + ":" + (qual or "<module>"), child.attr))
                elif is_handler(child) and not (isinstance(node, ast.Attribute)):
                    # the handler object itself used as a value (passed on, rebound, aliased)
                    if not (isinstance(node, ast.Assign) and child in node.targets):
                        uses.append((mod.__name__ + ":" + (qual or "<module>"), "<value>"))
                if isinstance(child, ast.Call) and is_ctx(child.func):
                    ctx.append((mod.__name__ + ":" + (qual or "<module>"), id(child) in with_items))
                elif is_ctx(child) and not isinstance(node, ast.Call):
                    if not isinstance(node, (ast.ImportFrom, ast.ClassDef)):
                        ctx.append((mod.__name__ + ":" + (qual or "<module>"), False))
                visit(child, q)

        visit(tree, "")
    return sorted(set(uses)), sorted(ctx)


def handler_object():
    import rpft.logger.logger as L
    return L.logging_context_handler


def ctx_class():
    import rpft.logger.logger as L
    return L.logging_context


def exit_behaviour():
    """Effective behaviour of the context manager: after __enter__, does __exit__ restore
    both stacks and let the exception propagate, for each way of leaving the block?"""
    import rpft.logger.logger as L

    h = L.logging_context_handler
    out = []
    for name, exc in (("none", None), ("Exception", ValueError("x")), ("SystemExit", SystemExit(1)),
                      ("KeyboardInterrupt", KeyboardInterrupt()), ("RecursionError", RecursionError())):
        before = (list(h.processing_stack), list(h.context_variables))
        cm = L.logging_context("c13-probe", probe=1)
        cm.__enter__()
        pushed = (h.processing_stack[-1:] == ["c13-probe"] and len(h.processing_stack) == len(before[0]) + 1
                  and len(h.context_variables) == len(before[1]) + 1)
        r = cm.__exit__(type(exc) if exc else None, exc, None)
        restored = (list(h.processing_stack), list(h.context_variables)) == before
        out.append((name, bool(pushed and restored and not r)))
        # leave the handler as we found it whatever the code did
        h.processing_stack[:] = before[0]
        h.context_variables[:] = before[1]
    return out


# ------------------------------------------------------------------ order sources (hash randomisation)
# "... regardless of hash randomisation": the places where the order of a result can come from something
# other than the input — the iteration order of a set / frozenset (per-process string hash, object
# addresses), an enumeration of a directory, id() / hash() values, clocks and random numbers.  Every
# such construct of every rpft module is listed with its EXPOSURE, decided from the syntax tree:
#   member   the value is only searched, measured, compared, updated, or sorted / min / max WITHOUT a key: no order can leave it
#   iter     it is iterated / converted to a sequence / popped: its order can reach a result
#   escape   it is handed to other code (argument, return value, stored in a container)
#   value    (id / hash / clock / random) the value itself is not a function of the input
# A set bound to a local name, to a parameter (as its default) or to `self.x` gets the worst exposure
# of the uses of that name in the function / of that attribute in the class.
SET_CTORS = {"set", "frozenset"}
SET_METHODS_SET = {"union", "intersection", "difference", "symmetric_difference", "copy"}
SET_METHODS_MEMBER = {"add", "update", "discard", "remove", "clear", "issubset", "issuperset", "isdisjoint", "__contains__",
                      "intersection_update", "difference_update", "symmetric_difference_update"} | SET_METHODS_SET
ORDER_FREE_CALLS = {"len", "bool", "any", "all", "set", "frozenset", "isinstance", "type"}
ORDER_FREE_WITHOUT_KEY = {"min", "max", "sorted"}     # with key=..: ties are resolved by the iteration order
SEQ_CALLS = {"list", "tuple", "iter", "next", "enumerate", "zip", "map", "filter", "reversed", "dict", "OrderedDict", "str", "repr", "print"}
SEQ_METHODS = {"join", "extend", "fromkeys", "writerow", "writerows", "format"}
DIR_CALLS = {"listdir", "scandir", "walk", "glob", "iglob", "rglob", "iterdir"}
ENTROPY = {("random", None), ("secrets", None), ("time", "time"), ("time", "time_ns"), ("time", "monotonic"), ("time", "perf_counter"),
           ("datetime", "now"), ("datetime", "utcnow"), ("datetime", "today"), ("os", "urandom"), ("os", "getpid"),
           ("uuid", "uuid1"), ("uuid", "uuid4")}
RANK = {"member": 0, "escape": 1, "iter": 2, "value": 2}


def worst(a, b):
    return a if RANK[a] >= RANK[b] else b


class OrderScan:
    def __init__(self, modname, tree):
        self.mod, self.tree = modname, tree
        self.parent = {}
        for n in ast.walk(tree):
            for c in ast.iter_child_nodes(n):
                self.parent[id(c)] = n
        # module aliases: local name -> dotted origin
        self.alias = {}
        for n in ast.walk(tree):
            if isinstance(n, ast.Import):
                for a in n.names:
                    self.alias[(a.asname or a.name).split(".")[0]] = a.name if a.asname else a.name.split(".")[0]
            elif isinstance(n, ast.ImportFrom) and n.module:
                for a in n.names:
                    self.alias[a.asname or a.name] = n.module + "." + a.name
        self.out = []

    # ---- scopes
    def scope_of(self, node):
        """(qualname, function node or None, class node or None)"""
        names, fn, cls = [], None, None
        n = self.parent.get(id(node))
        while n is not None:
            if isinstance(n, (ast.FunctionDef, ast.AsyncFunctionDef, ast.Lambda)):
                if fn is None and not isinstance(n, ast.Lambda):
                    fn = n
                if not isinstance(n, ast.Lambda):
                    names.append(n.name)
            elif isinstance(n, ast.ClassDef):
                if cls is None:
                    cls = n
                names.append(n.name)
            n = self.parent.get(id(n))
        return self.mod + ":" + (".".join(reversed(names)) or "<module>"), fn, cls

    # ---- what is a set-valued expression
    def is_set_expr(self, n):
        if isinstance(n, (ast.Set, ast.SetComp)):
            return True
        if isinstance(n, ast.Call):
            if isinstance(n.func, ast.Name) and n.func.id in SET_CTORS:
                return True
            if isinstance(n.func, ast.Attribute) and n.func.attr in SET_METHODS_SET - {"copy"}:
                return True
        if isinstance(n, ast.BinOp) and isinstance(n.op, (ast.BitOr, ast.BitAnd, ast.Sub, ast.BitXor)):
            return self.is_set_expr(n.left) or self.is_set_expr(n.right)
        return False

    def dotted(self, f):
        parts = []
        while isinstance(f, ast.Attribute):
            parts.append(f.attr)
            f = f.value
        if isinstance(f, ast.Name):
            parts.append(self.alias.get(f.id, f.id))
            return ".".join(reversed(parts))
        return None

    # ---- exposure of the value of expression `n`, from the way its parent uses it
    def exposure(self, n, depth=0):
        p = self.parent.get(id(n))
        if p is None or depth > 6:
            return "escape"
        if isinstance(p, ast.Call):
            if n is p.func:
                return "member"
            if isinstance(p.func, ast.Name) and n in p.args:
                if p.func.id in ORDER_FREE_CALLS:
                    return "member"
                if p.func.id in ORDER_FREE_WITHOUT_KEY:
                    return "iter" if any(kw.arg == "key" for kw in p.keywords) else "member"
                if p.func.id in SEQ_CALLS:
                    return "iter"
            if isinstance(p.func, ast.Attribute) and n in p.args and p.func.attr in SEQ_METHODS:
                return "iter"
            if isinstance(p.func, ast.Attribute) and n in p.args and p.func.attr in SET_METHODS_MEMBER:
                return "member"      # other.update(n), other.issubset(n) ...
            return "escape"
        if isinstance(p, ast.Attribute) and p.value is n:
            gp = self.parent.get(id(p))
            if isinstance(gp, ast.Call) and gp.func is p:
                if p.attr in SET_METHODS_MEMBER:
                    return "member"
                if p.attr == "pop":
                    return "iter"
            return "escape"
        if isinstance(p, ast.Compare):
            return "member"
        if isinstance(p, (ast.For, ast.AsyncFor)) and p.iter is n:
            return "iter"
        if isinstance(p, ast.comprehension) and p.iter is n:
            owner = self.parent.get(id(p))
            if isinstance(owner, ast.SetComp):
                return "member"          # the result is a set again (listed on its own)
            return "iter"
        if isinstance(p, ast.Starred):
            return "iter"
        if isinstance(p, (ast.If, ast.While)) and p.test is n:
            return "member"
        if isinstance(p, ast.IfExp):
            return "member" if p.test is n else self.exposure(p, depth + 1)
        if isinstance(p, ast.UnaryOp) and isinstance(p.op, ast.Not):
            return "member"
        if isinstance(p, ast.BoolOp):
            return self.exposure(p, depth + 1)
        if isinstance(p, ast.BinOp):
            return "member" if self.is_set_expr(p) else "escape"
        if isinstance(p, ast.Expr):
            return "member"
        if isinstance(p, ast.AugAssign):
            return "member" if p.value is n else "escape"
        if isinstance(p, (ast.Assign, ast.AnnAssign)) and p.value is n:
            tgts = p.targets if isinstance(p, ast.Assign) else [p.target]
            e = "member"
            for t in tgts:
                e = worst(e, self.bound_exposure(t, p))
            return e
        if isinstance(p, ast.arguments):
            # default value of a parameter: the uses of that parameter in the function
            fn = self.parent.get(id(p))
            pos = p.posonlyargs + p.args
            name = None
            if n in p.defaults:
                name = pos[len(pos) - len(p.defaults) + p.defaults.index(n)].arg
            elif n in p.kw_defaults:
                name = p.kwonlyargs[p.kw_defaults.index(n)].arg
            if name is None or isinstance(fn, ast.Lambda):
                return "escape"
            return self.name_uses(fn, name, skip=None)
        return "escape"

    def bound_exposure(self, target, stmt):
        _, fn, cls = self.scope_of(stmt)
        if isinstance(target, ast.Name):
            scope = fn if fn is not None else self.tree
            if fn is None:
                return "escape"          # module / class level name: visible to everybody
            return self.name_uses(scope, target.id, skip=target)
        if isinstance(target, ast.Attribute) and isinstance(target.value, ast.Name) and target.value.id == "self" and cls is not None:
            e = "member"
            for n in ast.walk(cls):
                if isinstance(n, ast.Attribute) and n.attr == target.attr and isinstance(n.value, ast.Name) and n.value.id == "self" \
                        and isinstance(n.ctx, ast.Load):
                    e = worst(e, self.exposure(n))
            return e
        return "escape"

    def name_uses(self, scope, name, skip):
        e = "member"
        for n in ast.walk(scope):
            if isinstance(n, ast.Name) and n.id == name and isinstance(n.ctx, ast.Load) and n is not skip:
                e = worst(e, self.exposure(n, 3))
        return e

    # ---- the scan
    def run(self):
        for n in ast.walk(self.tree):
            q = self.scope_of(n)[0]
            par = self.parent.get(id(n))
            if self.is_set_expr(n) and not (isinstance(par, ast.BinOp) and self.is_set_expr(par)):
                kind = "set"
                self.out.append((q, kind, self.exposure(n), n.lineno))
            elif isinstance(n, ast.Call):
                f = n.func
                nm = f.attr if isinstance(f, ast.Attribute) else f.id if isinstance(f, ast.Name) else None
                d = self.dotted(f) or ""
                root, leaf = d.split(".")[0], d.split(".")[-1]
                if nm in DIR_CALLS:
                    self.out.append((q, "dirlist:" + nm, self.exposure(n), n.lineno))
                elif isinstance(f, ast.Name) and f.id in ("id", "hash"):
                    self.out.append((q, "identity:" + f.id, "value", n.lineno))
                elif any(root == m and (a is None or leaf == a) for m, a in ENTROPY) and d != root:
                    self.out.append((q, "entropy:" + d, "value", n.lineno))
                for kw in n.keywords:
                    if kw.arg == "key" and isinstance(kw.value, ast.Name) and kw.value.id in ("id", "hash"):
                        self.out.append((q, "identity:key=" + kw.value.id, "value", n.lineno))
        return self.out


SCAN_SELFTEST_SRC = """
import os, random, time
def f(xs, ys):
    a = set(xs)
    if "x" in a: pass
    b = set(ys)
    for y in b: print(y)
    c = list(set(xs))
    d = sorted(set(xs))
    e = max(set(xs), key=len)
    g = {x for x in set(xs)}
    h = set(xs) & set(ys)
    k = ",".join({1, 2})
    for n in os.listdir("."): pass
    t = time.time()
    r = random.random()
    s = sorted(xs, key=id)
    z = frozenset(xs)
    return g, h, helper(z)
class C:
    def __init__(self):
        self.seen = set()
        self.todo = set()
    def m(self, x):
        if x in self.seen: return
        self.seen.add(x)
        while self.todo: x = self.todo.pop()
def p(x, acc=set()):
    acc.add(x)
    return len(acc)
"""
SCAN_SELFTEST_EXPECTED = [
    ("m:C.__init__", "set", "iter", 23), ("m:C.__init__", "set", "member", 22), ("m:f", "dirlist:listdir", "iter", 14),
    ("m:f", "entropy:random.random", "value", 16), ("m:f", "entropy:time.time", "value", 15), ("m:f", "identity:key=id", "value", 17),
    ("m:f", "set", "escape", 11), ("m:f", "set", "escape", 12), ("m:f", "set", "escape", 18), ("m:f", "set", "iter", 6),
    ("m:f", "set", "iter", 8), ("m:f", "set", "iter", 10), ("m:f", "set", "iter", 13), ("m:f", "set", "member", 4),
    ("m:f", "set", "member", 9), ("m:f", "set", "member", 11), ("m:p", "set", "member", 28)]


def scan_selftest():
    """fail closed when the scanner itself no longer classifies a fixed snippet as reviewed (e.g. another ast on a new Python)"""
    got = sorted(OrderScan("m", ast.parse(SCAN_SELFTEST_SRC)).run())
    if got != sorted(SCAN_SELFTEST_EXPECTED):
        raise Refuse(f"c13 order-source scanner self-test: {got} != {sorted(SCAN_SELFTEST_EXPECTED)}")


def order_sources(mods):
    scan_selftest()
    out = []
    for mod in mods:
        try:
            src = inspect.getsource(mod)
        except (OSError, TypeError):
            continue              # a package __init__ without source
        try:
            tree = ast.parse(src)
        except SyntaxError as e:
            raise Refuse(f"cannot parse {mod.__name__}: {e}")
        out += OrderScan(mod.__name__, tree).run()
    return sorted(out)


def coq_triple(a, b, c):
    return f"({coq_str(a)}, {coq_str(b)}, {coq_str(c)})"


def tables_c13(out, notes):
    mods = load_modules()
    defaults, globs, cattrs, fields = inventory(mods)
    uses, ctx = handler_uses(mods)
    if not any(g[1] == "logging_context_handler" for g in globs):
        raise Refuse("rpft.logger.logger.logging_context_handler not found among the module globals")
    out.append("Definition c13_mutable_defaults : list (str * str * str) := "
               + coq_list(coq_triple(q, p, k) for (q, p, k, _) in defaults) + ".")
    out.append("Definition c13_default_values : list (list (str * str)) := "
               + coq_list(coq_list(f"({coq_str(a)}, {coq_str(b)})" for a, b in v) for (_, _, _, v) in defaults) + ".")
    out.append("Definition c13_mutable_globals : list (str * str * str) := "
               + coq_list(coq_triple(*g) for g in globs) + ".")
    out.append("Definition c13_class_attrs : list (str * str * str) := "
               + coq_list(coq_triple(*g) for g in cattrs) + ".")
    out.append("Definition c13_field_defaults : list (str * str * str) := "
               + coq_list(coq_triple(*g) for g in fields) + ".")
    out.append("Definition c13_handler_uses : list (str * str) := "
               + coq_list(f"({coq_str(q)}, {coq_str(a)})" for q, a in uses) + ".")
    out.append("Definition c13_ctx_uses : list (str * bool) := "
               + coq_list(f"({coq_str(q)}, {coq_bool(w)})" for q, w in ctx) + ".")
    out.append("Definition c13_exit_restores : list (str * bool) := "
               + coq_list(f"({coq_str(n)}, {coq_bool(b)})" for n, b in exit_behaviour()) + ".")
    osrc = order_sources(mods)
    out.append("Definition c13_order_sources : list (str * str * str) := "
               + coq_list(coq_triple(q, k, e) for (q, k, e, _) in osrc) + ".")
    for q, k, e, ln in osrc:
        notes.append(f"c13 order source: {q} {k} {e} (line {ln})")
    notes.append(f"c13: {len(mods)} modules imported; {len(defaults)} mutable defaults, {len(globs)} distinct mutable "
                 f"module globals, {len(cattrs)} class attributes, {len(fields)} pydantic field defaults; "
                 f"{len(uses)} handler uses, {len(ctx)} logging_context constructions")
    for q, p, k, _ in defaults:
        notes.append(f"c13 default: {q} {p} {k}")
    for g in globs:
        notes.append("c13 global: " + " ".join(g))
    for u in uses:
        notes.append("c13 handler use: " + " ".join(u))


GENERATORS = [tables_c13]
