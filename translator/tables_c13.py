"""C13 tables: the INVENTORY of hidden state the code really has, regenerated from the
current source by import + introspection (inspect.signature over every function of every
rpft module, module globals, class attributes, pydantic field defaults), and the use sites
of the logging-context stack (ast).  A new mutable default / global / raw push changes a
Coq constant, and `inventory_ok` / `handler_discipline_ok` (vm_compute) stop checking.
"""
import ast
import enum
import importlib
import inspect
import os
import pkgutil
import shutil
import sys
import tempfile
import types
import warnings

from gen_tables import Refuse, coq_str, coq_list, coq_bool

IMMUTABLE = (type(None), bool, int, float, complex, str, bytes, frozenset, range, type,
             types.FunctionType, types.BuiltinFunctionType, types.ModuleType, enum.Enum,
             types.MethodType)


def immutable(v):
    if isinstance(v, tuple):
        return all(immutable(x) for x in v)
    return isinstance(v, IMMUTABLE)


def kind(v):
    if type(v) in (list, dict, set):
        return type(v).__name__
    return "obj:" + type(v).__qualname__


def abstract_value(v):
    """contents of a mutable default as an association list of strings (the model's oval)"""
    if isinstance(v, dict):
        return [(str(k), str(x)) for k, x in v.items()]
    if isinstance(v, (list, set, tuple)):
        return [(str(x), "") for x in (sorted(v, key=str) if isinstance(v, set) else v)]
    d = getattr(v, "__dict__", None)
    if isinstance(d, dict):
        out = []
        for k, x in sorted(d.items()):
            if isinstance(x, (dict, list, set)):
                out += [(f"{k}.{a}", b) for a, b in abstract_value(x)]
            else:
                out.append((str(k), str(x)))
        return out
    return [("?", repr(v))]


def load_modules():
    """every module of the rpft package.  rpft.cli opens errors.log in the cwd at import:
    import it from a scratch cwd."""
    warnings.simplefilter("ignore")
    import rpft

    src = os.environ.get("RPFT_SRC", "/repo/src")
    if not os.path.abspath(rpft.__path__[0]).startswith(os.path.abspath(src)):
        raise Refuse(f"rpft imported from {rpft.__path__[0]}, not from {src}")
    here = os.getcwd()
    scratch = tempfile.mkdtemp(prefix="c13tr")
    mods = []
    try:
        os.chdir(scratch)
        for m in sorted(pkgutil.walk_packages(rpft.__path__, "rpft."), key=lambda m: m.name):
            try:
                mods.append(importlib.import_module(m.name))
            except Exception as e:
                raise Refuse(f"cannot import {m.name}: {type(e).__name__}: {e}")
    finally:
        os.chdir(here)
        import logging
        for h in list(logging.getLogger("main").handlers):
            if isinstance(h, logging.FileHandler):
                h.close()
        shutil.rmtree(scratch, ignore_errors=True)
    return mods


def classes_of(mod):
    out = []

    def walk(cls):
        out.append(cls)
        for v in vars(cls).values():
            if isinstance(v, type) and v.__module__ == mod.__name__ and v.__qualname__.startswith(cls.__qualname__ + "."):
                walk(v)

    for v in vars(mod).values():
        if isinstance(v, type) and v.__module__ == mod.__name__ and "." not in v.__qualname__:
            walk(v)
    return out


def functions_of(mod):
    seen = set()
    for v in vars(mod).values():
        if isinstance(v, types.FunctionType) and v.__module__ == mod.__name__ and id(v) not in seen:
            seen.add(id(v))
            yield v
    for cls in classes_of(mod):
        for v in vars(cls).values():
            fs = []
            if isinstance(v, (staticmethod, classmethod)):
                fs = [v.__func__]
            elif isinstance(v, types.FunctionType):
                fs = [v]
            elif isinstance(v, property):
                fs = [g for g in (v.fget, v.fset, v.fdel) if g]
            for f in fs:
                if isinstance(f, types.FunctionType) and id(f) not in seen:
                    seen.add(id(f))
                    yield f


def inventory(mods):
    """-> (defaults, globals, class_attrs, field_defaults); each a sorted list of tuples."""
    import logging

    defaults, globs, cattrs, fields = [], {}, [], []
    for mod in mods:
        for f in functions_of(mod):
            try:
                sig = inspect.signature(f)
            except (TypeError, ValueError) as e:
                raise Refuse(f"no signature for {f.__qualname__}: {e}")
            for p in sig.parameters.values():
                if p.default is not inspect.Parameter.empty and not immutable(p.default):
                    defaults.append((mod.__name__ + ":" + f.__qualname__, p.name, kind(p.default), abstract_value(p.default)))
        # module globals: distinct mutable objects, named canonically
        try:
            tree = ast.parse(inspect.getsource(mod))
            assigned = set()
            for node in tree.body:
                tg = []
                if isinstance(node, ast.Assign):
                    tg = node.targets
                elif isinstance(node, (ast.AnnAssign, ast.AugAssign)):
                    tg = [node.target]
                for t in tg:
                    for n in ast.walk(t):
                        if isinstance(n, ast.Name):
                            assigned.add(n.id)
        except (OSError, TypeError):
            assigned = set()   # package __init__ without source etc.
        for n, v in vars(mod).items():
            if n.startswith("__") or immutable(v):
                continue
            if getattr(type(v), "__module__", "").startswith("typing"):
                continue
            if isinstance(v, logging.Logger):
                globs.setdefault(id(v), []).append((0, "logging", "getLogger(" + v.name + ")", "obj:Logger"))
            else:
                globs.setdefault(id(v), []).append((0 if n in assigned else 1, mod.__name__, n, kind(v)))
        for cls in classes_of(mod):
            for an, av in vars(cls).items():
                if an.startswith("__") or an.startswith("_abc_"):
                    continue
                if isinstance(av, (staticmethod, classmethod, property, types.FunctionType)) or immutable(av):
                    continue
                cattrs.append((mod.__name__ + ":" + cls.__qualname__, an, kind(av)))
            flds = vars(cls).get("__fields__")
            if isinstance(flds, dict):   # pydantic.v1 models: the stored default object of a field
                for fn, fv in flds.items():
                    d = getattr(fv, "default", None)
                    if not immutable(d):
                        fields.append((mod.__name__ + ":" + cls.__qualname__, fn, kind(d)))
    glist = sorted(set(min(names)[1:] for names in globs.values()))
    return sorted(defaults), glist, sorted(set(cattrs)), sorted(set(fields))


def handler_uses(mods):
    """Where the process-global logging context stack is touched, from the ast:
    (enclosing function, attribute used on logging_context_handler) and, for every
    construction `logging_context(...)`, whether it is the context expression of a `with`."""
    uses, ctx = [], []
    for mod in mods:
        try:
            tree = ast.parse(inspect.getsource(mod))
        except (OSError, TypeError):
            continue
        # names bound to the handler / the context manager in this module
        hnames = {n for n, v in vars(mod).items() if v is handler_object()}
        cnames = {n for n, v in vars(mod).items() if v is ctx_class()}
        mnames = {n for n, v in vars(mod).items() if isinstance(v, types.ModuleType) and v.__name__ == "rpft.logger.logger"}
        with_items = set()
        for node in ast.walk(tree):
            if isinstance(node, (ast.With, ast.AsyncWith)):
                for it in node.items:
                    with_items.add(id(it.context_expr))

        def is_handler(e):
            return (isinstance(e, ast.Name) and e.id in hnames) or \
                (isinstance(e, ast.Attribute) and e.attr == "logging_context_handler"
                 and isinstance(e.value, ast.Name) and e.value.id in mnames)

        def is_ctx(e):
            return (isinstance(e, ast.Name) and e.id in cnames) or \
                (isinstance(e, ast.Attribute) and e.attr == "logging_context"
                 and isinstance(e.value, ast.Name) and e.value.id in mnames)

        def visit(node, qual):
            for child in ast.iter_child_nodes(node):
                q = qual
                if isinstance(child, (ast.FunctionDef, ast.AsyncFunctionDef, ast.ClassDef)):
                    q = (qual + "." if qual else "") + child.name
                if isinstance(child, ast.Attribute) and is_handler(child.value):
                    uses.append((mod.__name__ + ":" + (qual or "<module>"), child.attr))
                elif is_handler(child) and not (isinstance(node, ast.Attribute)):
                    # the handler object itself used as a value (passed on, rebound, aliased)
                    if not (isinstance(node, ast.Assign) and child in node.targets):
                        uses.append((mod.__name__ + ":" + (qual or "<module>"), "<value>"))
                if isinstance(child, ast.Call) and is_ctx(child.func):
                    ctx.append((mod.__name__ + ":" + (qual or "<module>"), id(child) in with_items))
                elif is_ctx(child) and not isinstance(node, ast.Call):
                    if not isinstance(node, (ast.ImportFrom, ast.ClassDef)):
                        ctx.append((mod.__name__ + ":" + (qual or "<module>"), False))
                visit(child, q)

        visit(tree, "")
    return sorted(set(uses)), sorted(ctx)


def handler_object():
    import rpft.logger.logger as L
    return L.logging_context_handler


def ctx_class():
    import rpft.logger.logger as L
    return L.logging_context


def exit_behaviour():
    """Effective behaviour of the context manager: after __enter__, does __exit__ restore
    both stacks and let the exception propagate, for each way of leaving the block?"""
    import rpft.logger.logger as L

    h = L.logging_context_handler
    out = []
    for name, exc in (("none", None), ("Exception", ValueError("x")), ("SystemExit", SystemExit(1)),
                      ("KeyboardInterrupt", KeyboardInterrupt()), ("RecursionError", RecursionError())):
        before = (list(h.processing_stack), list(h.context_variables))
        cm = L.logging_context("c13-probe", probe=1)
        cm.__enter__()
        pushed = (h.processing_stack[-1:] == ["c13-probe"] and len(h.processing_stack) == len(before[0]) + 1
                  and len(h.context_variables) == len(before[1]) + 1)
        r = cm.__exit__(type(exc) if exc else None, exc, None)
        restored = (list(h.processing_stack), list(h.context_variables)) == before
        out.append((name, bool(pushed and restored and not r)))
        # leave the handler as we found it whatever the code did
        h.processing_stack[:] = before[0]
        h.context_variables[:] = before[1]
    return out


def coq_triple(a, b, c):
    return f"({coq_str(a)}, {coq_str(b)}, {coq_str(c)})"


def tables_c13(out, notes):
    mods = load_modules()
    defaults, globs, cattrs, fields = inventory(mods)
    uses, ctx = handler_uses(mods)
    if not any(g[1] == "logging_context_handler" for g in globs):
        raise Refuse("rpft.logger.logger.logging_context_handler not found among the module globals")
    out.append("Definition c13_mutable_defaults : list (str * str * str) := "
               + coq_list(coq_triple(q, p, k) for (q, p, k, _) in defaults) + ".")
    out.append("Definition c13_default_values : list (list (str * str)) := "
               + coq_list(coq_list(f"({coq_str(a)}, {coq_str(b)})" for a, b in v) for (_, _, _, v) in defaults) + ".")
    out.append("Definition c13_mutable_globals : list (str * str * str) := "
               + coq_list(coq_triple(*g) for g in globs) + ".")
    out.append("Definition c13_class_attrs : list (str * str * str) := "
               + coq_list(coq_triple(*g) for g in cattrs) + ".")
    out.append("Definition c13_field_defaults : list (str * str * str) := "
               + coq_list(coq_triple(*g) for g in fields) + ".")
    out.append("Definition c13_handler_uses : list (str * str) := "
               + coq_list(f"({coq_str(q)}, {coq_str(a)})" for q, a in uses) + ".")
    out.append("Definition c13_ctx_uses : list (str * bool) := "
               + coq_list(f"({coq_str(q)}, {coq_bool(w)})" for q, w in ctx) + ".")
    out.append("Definition c13_exit_restores : list (str * bool) := "
               + coq_list(f"({coq_str(n)}, {coq_bool(b)})" for n, b in exit_behaviour()) + ".")
    notes.append(f"c13: {len(mods)} modules imported; {len(defaults)} mutable defaults, {len(globs)} distinct mutable "
                 f"module globals, {len(cattrs)} class attributes, {len(fields)} pydantic field defaults; "
                 f"{len(uses)} handler uses, {len(ctx)} logging_context constructions")
    for q, p, k, _ in defaults:
        notes.append(f"c13 default: {q} {p} {k}")
    for g in globs:
        notes.append("c13 global: " + " ".join(g))
    for u in uses:
        notes.append("c13 handler use: " + " ".join(u))


GENERATORS = [tables_c13]
