"""Tables for E6/E7 (flow semantics / compiler): router test tables, sentinel, row types."""
from gen_tables import Refuse, coq_str, coq_list, local_literal


def tables_flow(out, notes):
    from rpft.rapidpro.models.routers import RouterCase
    from rpft.rapidpro.models.common import Exit
    from rpft.parsers.creation.flowparser import FlowParser
    from rpft.parsers.creation.flowrowmodel import FlowRowModel

    nat = RouterCase.NO_ARGS_TESTS
    if not all(isinstance(x, str) for x in nat):
        raise Refuse("NO_ARGS_TESTS is not a collection of strings")
    out.append(f"Definition no_args_tests : list str := {coq_list(coq_str(x) for x in sorted(nat))}.")
    out.append(f"Definition known_tests : list str := {coq_list(coq_str(x) for x in sorted(RouterCase.TEST_VALIDATIONS))}.")
    # the hard-exit sentinel: behavioural probe (an Exit with this destination says it is hard and renders null)
    sentinel = "HARD_EXIT"
    e = Exit(destination_uuid=sentinel)
    if not (e.is_hard_exit() and e.render()["destination_uuid"] is None):
        raise Refuse("Exit('HARD_EXIT') is no longer a hard exit that renders as null")
    if Exit(destination_uuid="x").is_hard_exit() or Exit(destination_uuid="x").render()["destination_uuid"] != "x":
        raise Refuse("Exit.render/is_hard_exit changed for ordinary destinations")
    out.append(f"Definition hard_exit_sentinel : str := {coq_str(sentinel)}.")
    # block terminators
    try:
        bem = local_literal(FlowParser._is_end_of_block, "block_end_map")
        notes.append("block_end_map: read from the ast of FlowParser._is_end_of_block")
    except Exception as ex:
        raise Refuse(f"block_end_map unreadable: {ex}")
    out.append("Definition block_end_map : list (str * str) := " + coq_list(f"({coq_str(k)}, {coq_str(v)})" for k, v in sorted(bem.items())) + ".")
    # row type -> main argument field (tabulated through the function itself)
    types = ["send_message", "save_value", "add_to_group", "remove_from_group", "save_flow_result", "wait_for_response",
             "add_contact_urn", "set_contact_language", "set_contact_name", "set_contact_status", "set_contact_timezone",
             "split_random", "go_to", "call_webhook", "transfer_airtime", "start_new_flow", "split_by_value", "split_by_group",
             "insert_as_block", "begin_for", "end_for", "begin_block", "end_block", "hard_exit", "loose_exit", "no_op"]
    pairs = []
    for t in types:
        try:
            pairs.append((t, FlowRowModel.header_name_to_field_name_with_context("message_text", {"type": t})))
        except Exception as ex:
            raise Refuse(f"row type {t} has no main argument mapping: {ex}")
    out.append("Definition frm_main_arg : list (str * str) := " + coq_list(f"({coq_str(k)}, {coq_str(v)})" for k, v in pairs) + ".")
    notes.append("frm_main_arg: TABULATED through FlowRowModel.header_name_to_field_name_with_context('message_text', {'type': t})")


GENERATORS = [tables_flow]
