"""C15: the invocation environments of `rpft create_flows` — everything outside the workbook that
can decide what happens to a CRITICAL log record.  Shared by translator/tables_c15.py (table
`c15_log_configs`, regenerated on every run) and harness/c15.py (the fault-injection stream is run
on the real command under the same configurations).  Nothing here is specific to one variable or
option: the surface is DISCOVERED from the tree at hand on every run.

  discover(src)            static scan of every module of the package for reads of the process
                           environment (os.environ[...], .get/.pop/.setdefault, `in os.environ`,
                           os.getenv, aliases of os/environ/getenv, names built from module
                           constants) + one probe of the default invocation that traces the
                           environment reads made from frames of the package (computed names
                           included) and introspects the live argparse parser of the
                           create_flows subcommand (option strings, nargs, choices, ...) and the
                           log files the default configuration opens.
  enumerate_configs(disc)  the deterministic matrix: default; every discovered variable x
                           plausible values ("-", "", a file, a new file, a directory, a path in
                           a missing directory, "stderr", level names, ... + the string constants
                           the CLI/logger modules compare things with); the working directory
                           (log file pre-existing / a directory in its place / a dangling symlink /
                           a directory nobody can write to); every option of the subcommand the
                           harness has no special knowledge of x plausible values (flags alone);
                           the known free-valued options (--tags with none and with some values,
                           --datamodels).
  probe_config(...)        runs translator/c15_probe.py under one configuration.
"""
import ast
import concurrent.futures
import json
import os
import shutil
import subprocess
import sys
import tempfile

HERE = os.path.dirname(os.path.abspath(__file__))
PROBE = os.path.join(HERE, "c15_probe.py")
KNOWN_DESTS = ("input", "output", "format", "datamodels", "tags")
PLAUSIBLE = ["-", "", "1", "0", "{file}", "{newfile}", "{dir}", "{nodir}", "stderr", "/dev/stderr", "/dev/null", "DEBUG",
             "CRITICAL"]
CWD_KINDS = ["log-exists", "log-is-directory", "log-dangling-symlink", "unwritable"]
PROBE_SENTINEL = "C15-PROBE-SENTINEL\n"
NEVER = 1000


# ---------------------------------------------------------------------------- static scan
def _parents(tree):
    par = {}
    for n in ast.walk(tree):
        for c in ast.iter_child_nodes(n):
            par[c] = n
    return par


def _scan_tree(tree, rel, names, dynamic, opaque):
    os_names, environ_names, getenv_names, consts = set(), set(), set(), {}
    for n in ast.walk(tree):
        if isinstance(n, ast.Import):
            for a in n.names:
                if a.name == "os":
                    os_names.add(a.asname or "os")
        elif isinstance(n, ast.ImportFrom) and n.module == "os":
            for a in n.names:
                if a.name in ("environ", "environb"):
                    environ_names.add(a.asname or a.name)
                elif a.name in ("getenv", "getenvb"):
                    getenv_names.add(a.asname or a.name)
    for n in tree.body:
        if isinstance(n, ast.Assign) and len(n.targets) == 1 and isinstance(n.targets[0], ast.Name) \
                and isinstance(n.value, ast.Constant) and isinstance(n.value.value, str):
            consts[n.targets[0].id] = n.value.value

    def resolve(e):
        if isinstance(e, ast.Constant) and isinstance(e.value, (str, bytes)):
            return e.value if isinstance(e.value, str) else e.value.decode("utf-8", "replace")
        if isinstance(e, ast.Name) and e.id in consts:
            return consts[e.id]
        if isinstance(e, ast.BinOp) and isinstance(e.op, ast.Add):
            a, b = resolve(e.left), resolve(e.right)
            return a + b if a is not None and b is not None else None
        if isinstance(e, ast.JoinedStr):
            parts = []
            for v in e.values:
                if isinstance(v, ast.Constant):
                    parts.append(str(v.value))
                elif isinstance(v, ast.FormattedValue) and v.format_spec is None and v.conversion == -1:
                    r = resolve(v.value)
                    if r is None:
                        return None
                    parts.append(r)
                else:
                    return None
            return "".join(parts)
        return None

    def record(e, node):
        where = f"{rel}:{getattr(node, 'lineno', 0)}"
        r = resolve(e) if e is not None else None
        if r is None:
            dynamic.append(where)
        else:
            names.setdefault(r, []).append(where)

    def is_environ(n):
        if isinstance(n, ast.Attribute) and n.attr in ("environ", "environb") and isinstance(n.value, ast.Name) \
                and n.value.id in os_names:
            return True
        return isinstance(n, ast.Name) and n.id in environ_names

    par = _parents(tree)
    for n in ast.walk(tree):
        if isinstance(n, ast.Call):
            f = n.func
            if (isinstance(f, ast.Attribute) and f.attr in ("getenv", "getenvb") and isinstance(f.value, ast.Name)
                    and f.value.id in os_names) or (isinstance(f, ast.Name) and f.id in getenv_names):
                record(n.args[0] if n.args else None, n)
        if is_environ(n):
            p = par.get(n)
            if isinstance(p, (ast.Import, ast.ImportFrom, ast.alias)):
                continue
            if isinstance(p, ast.Attribute) and p.value is n:
                g = par.get(p)
                if isinstance(g, ast.Call) and g.func is p and p.attr in ("get", "pop", "setdefault", "__getitem__", "__contains__"):
                    record(g.args[0] if g.args else None, g)
                    continue
                opaque.append(f"{rel}:{n.lineno} (os.environ.{p.attr})")
            elif isinstance(p, ast.Subscript) and p.value is n:
                if isinstance(p.ctx, ast.Load):
                    record(p.slice, p)
            elif isinstance(p, ast.Compare) and n in p.comparators and all(isinstance(o, (ast.In, ast.NotIn)) for o in p.ops):
                record(p.left, p)
            else:
                opaque.append(f"{rel}:{n.lineno} (os.environ used as a whole)")


def scan_env(src):
    """-> (names: {variable: [file:line ...]}, dynamic: [file:line of reads whose name is computed],
    opaque: [file:line of uses of the environment as a whole])"""
    names, dynamic, opaque = {}, [], []
    pkg = os.path.join(src, "rpft")
    for dirpath, dirs, files in os.walk(pkg):
        dirs.sort()
        for fn in sorted(files):
            if not fn.endswith(".py"):
                continue
            path = os.path.join(dirpath, fn)
            rel = os.path.relpath(path, src)
            try:
                tree = ast.parse(open(path, encoding="utf-8").read())
            except Exception as e:
                opaque.append(f"{rel}: cannot be parsed ({type(e).__name__})")
                continue
            _scan_tree(tree, rel, names, dynamic, opaque)
    return names, dynamic, opaque


def harvest_values(src, rel_files):
    """string constants the given modules compare something with (==, !=, in (...), match/case) or
    use as keys of dict literals: candidates for meaningful values of a variable or option"""
    found = set()
    for rel in sorted(set(rel_files)):
        path = os.path.join(src, rel)
        try:
            tree = ast.parse(open(path, encoding="utf-8").read())
        except Exception:
            continue
        for n in ast.walk(tree):
            cands = []
            if isinstance(n, ast.Compare):
                for c in [n.left] + list(n.comparators):
                    if isinstance(c, (ast.Tuple, ast.List, ast.Set)):
                        cands += list(c.elts)
                    else:
                        cands.append(c)
            elif isinstance(n, ast.Dict):
                cands += [k for k in n.keys if k is not None]
            elif hasattr(ast, "MatchValue") and isinstance(n, ast.MatchValue):
                cands.append(n.value)
            for c in cands:
                if isinstance(c, ast.Constant) and isinstance(c.value, str) and len(c.value) <= 20 and "\n" not in c.value:
                    found.add(c.value)
    return sorted(found)[:16]


# ---------------------------------------------------------------------------- running a probe
def base_env(src, drop=()):
    env = dict(os.environ)
    for k in drop:
        env.pop(k, None)
    env["PYTHONPATH"] = src
    env["PYTHONDONTWRITEBYTECODE"] = "1"
    env.setdefault("PYTHONHASHSEED", "0")
    env["RPFT_SRC"] = src
    return env


_unwritable = []


def unwritable_dir():
    """a directory in which even root cannot create a file (None when there is none here)"""
    if not _unwritable:
        found = None
        for d in ("/sys", "/proc/sys"):
            try:
                p = os.path.join(d, "c15_probe_errors.log")
                open(p, "w").close()
                os.remove(p)
            except OSError:
                if os.path.isdir(d):
                    found = d
                    break
        _unwritable.append(found)
    return _unwritable[0]


def _subst(val, root):
    return (val.replace("{file}", os.path.join(root, "given_file.log"))
               .replace("{newfile}", os.path.join(root, "new_target.log"))
               .replace("{dir}", os.path.join(root, "given_dir"))
               .replace("{nodir}", os.path.join(root, "no_such_dir", "target.log")))


def materialize(cfg, root, log_files):
    """prepares `root` for the configuration -> dict(env, gargs, sargs, targs, cwd, logs) or None when
    the configuration cannot be set up on this machine.  `logs`: files to be read as 'the log'."""
    with open(os.path.join(root, "given_file.log"), "w") as f:
        f.write("")
    os.makedirs(os.path.join(root, "given_dir"), exist_ok=True)
    sub = lambda xs: [_subst(x, root) for x in xs]
    env = {k: _subst(v, root) for k, v in cfg.get("env", {}).items()}
    names = list(log_files) or ["errors.log"]
    cwd = root
    kind = cfg.get("cwd", "scratch")
    if kind == "log-exists":
        for n in names:
            with open(os.path.join(root, n), "w") as f:
                f.write("C15-OLD-LOG-CONTENT\n")
    elif kind == "log-is-directory":
        for n in names:
            os.makedirs(os.path.join(root, n), exist_ok=True)
    elif kind == "log-dangling-symlink":
        for n in names:
            os.symlink(os.path.join(root, "no_such_dir", n), os.path.join(root, n))
    elif kind == "unwritable":
        cwd = unwritable_dir()
        if cwd is None:
            return None
    logs = [os.path.join(root, n) for n in names] + [os.path.join(root, "given_file.log"), os.path.join(root, "new_target.log")]
    return dict(env=env, gargs=sub(cfg.get("gargs", [])), sargs=sub(cfg.get("sargs", [])), targs=sub(cfg.get("targs", [])),
                cwd=cwd, logs=logs)


def opt_for(disc, dest, default, prefer_long=False):
    for o in (disc or {}).get("options", []):
        if o["dest"] == dest and o["option_strings"]:
            ss = o["option_strings"]
            if prefer_long:
                ss = sorted(ss, key=lambda s: not s.startswith("--"))
            return ss[0]
    return default


def build_argv(disc, m, fmt, out, inputs, sub=None, long_opts=False, eq_form=False, datamodels=None, tags=None):
    """arguments of the rpft command for a materialized configuration"""
    subs = (disc or {}).get("subcommands") or ["create_flows"]
    sub = sub or ("create_flows" if "create_flows" in subs else subs[0])
    f_opt = opt_for(disc, "format", "-f", long_opts)
    o_opt = opt_for(disc, "output", "-o", long_opts)
    argv = list(m["gargs"]) + [sub]

    def add(opt, val):
        if eq_form and opt.startswith("--"):
            argv.append(f"{opt}={val}")
        else:
            argv.extend([opt, val])

    add(f_opt, fmt)
    add(o_opt, out)
    if datamodels is not None:
        add(opt_for(disc, "datamodels", "--datamodels"), datamodels)
    argv += list(m["sargs"])
    argv += list(inputs)
    if tags is not None:
        argv += [opt_for(disc, "tags", "--tags")] + list(tags)
    argv += list(m["targs"])
    return argv


def probe_config(cfg, disc, src, py=None, introspect=False, timeout=300):
    py = py or sys.executable
    root = tempfile.mkdtemp(prefix="c15cfg")
    try:
        m = materialize(cfg, root, (disc or {}).get("log_files", []))
        if m is None:
            return dict(unavailable=True, name=cfg["name"])
        wb = os.path.join(root, "wb")
        os.makedirs(wb)
        out = os.path.join(root, "out.json")
        with open(out, "w") as f:
            f.write(PROBE_SENTINEL)
        argv = build_argv(disc, m, "csv", out, [wb])
        res_path = os.path.join(root, "probe_result.json")
        env = base_env(src, drop=(disc or {}).get("env_vars", []))
        env.update(m["env"])
        cmd = [py, PROBE, res_path, src] + (["--introspect"] if introspect else []) + ["--"] + argv
        try:
            p = subprocess.run(cmd, cwd=m["cwd"], env=env, stdout=subprocess.PIPE, stderr=subprocess.PIPE, timeout=timeout, text=True,
                               errors="replace")
            rc, err = p.returncode, p.stderr
        except subprocess.TimeoutExpired:
            rc, err = -999, "timeout"
        if os.path.exists(res_path):
            res = json.load(open(res_path))
        else:
            res = dict(reached=False, status=rc if rc != 0 else 1, error="probe died: " + err[-300:], env_reads=[], log=None,
                       options=None, out_untouched=None, died=True)
        res["name"] = cfg["name"]
        # scratch paths out of everything that may end up in Gen/Tables.v (which must not change from run to run)
        if res.get("error"):
            res["error"] = res["error"].replace(root, "{root}")
        err = err.replace(root, "{root}")
        res["stderr_tail"] = err[-400:]
        res["usage_error"] = (not res["reached"]) and res.get("status") == 2 and "usage:" in err
        return res
    finally:
        shutil.rmtree(root, ignore_errors=True)


def start_code(res):
    """0 = the command reaches the library call; 1 = it ends before, with a non-zero status, the output path untouched;
    2 = it ends before with status 0, output untouched (nothing was asked of it); 3 = anything else"""
    if res.get("reached"):
        return 0
    if res.get("out_untouched") and res.get("status") not in (0, None):
        return 1
    if res.get("out_untouched") and res.get("status") == 0:
        return 2
    return 3


def signature(res):
    lg = res.get("log") or {}
    return (start_code(res), lg.get("level"), tuple((h["cls"], h["threshold"], h["exit"]) for h in lg.get("handlers", [])),
            tuple(lg.get("observed") or ()))


# ---------------------------------------------------------------------------- discovery and the matrix
def discover(src, py=None):
    names, dynamic, opaque = scan_env(src)
    boot = probe_config(dict(name="default"), None, src, py, introspect=True)
    opts = boot.get("options") or dict(subcommands=[], options=[], error=boot.get("error") or "no introspection")
    traced = {}
    by_site = {}
    for key, rel, line in boot.get("env_reads", []):
        by_site.setdefault((rel, line), set()).add(key)
    for (rel, line), keys in by_site.items():
        if len(keys) > 12:
            opaque.append(f"{rel}:{line} (reads {len(keys)} variables at run time: the environment as a whole)")
            continue
        for k in keys:
            traced.setdefault(k, []).append(f"{rel}:{line} (traced)")
    env_vars = sorted(set(names) | set(traced))
    readers = sorted({w.split(":")[0] for v in list(names.values()) + list(traced.values()) for w in v})
    cli_files = [os.path.join("rpft", "cli.py"), os.path.join("rpft", "logger", "logger.py")]
    harvested = harvest_values(src, cli_files + readers)
    values = list(PLAUSIBLE) + [v for v in harvested if v not in PLAUSIBLE]
    log_files = []
    for h in ((boot.get("log") or {}).get("handlers") or []):
        if h["target"].startswith("file:") and h["target"][5:]:
            log_files.append(h["target"][5:])
    return dict(env_vars=env_vars, env_where={k: sorted(set(names.get(k, []) + traced.get(k, []))) for k in env_vars},
                env_dynamic=sorted(set(dynamic)), env_opaque=sorted(set(opaque)), values=values, harvested=harvested,
                subcommands=opts.get("subcommands") or [], options=opts.get("options") or [], parser_error=opts.get("error"),
                log_files=sorted(set(log_files)), boot=boot)


def option_values(o, values):
    """(values worth trying for an option the harness knows nothing about, is it a flag)"""
    if o["nargs"] == 0 or o["action"] in ("_StoreTrueAction", "_StoreFalseAction", "_StoreConstAction", "_CountAction",
                                          "_AppendConstAction", "BooleanOptionalAction", "_VersionAction"):
        return [], True
    if o.get("choices"):
        return list(o["choices"]), False
    if o.get("type") in ("int", "float"):
        return ["0", "1", "10", "50", "60"], False
    return list(values), False


def enumerate_configs(disc):
    cfgs = [dict(name="default")]
    for var in disc["env_vars"]:
        for val in disc["values"]:
            cfgs.append(dict(name=f"env:{var}={val}", env={var: val}))
    for kind in CWD_KINDS:
        cfgs.append(dict(name=f"cwd:{kind}", cwd=kind))
    unhandled = []
    for o in disc["options"]:
        if o["position"] == "sub" and o["dest"] in KNOWN_DESTS:
            continue
        if not o["option_strings"]:
            unhandled.append(f"positional {o['dest']}")
            continue
        vals, flag = option_values(o, disc["values"])
        slot = "gargs" if o["position"] == "global" else ("targs" if o["nargs"] in ("*", "+") or isinstance(o["nargs"], int) and o["nargs"] > 1
                                                          else "sargs")
        for si, s in enumerate(o["option_strings"]):
            if flag:
                cfgs.append({"name": f"opt:{s}", slot: [s]})
                continue
            for val in (vals if si == 0 else vals[:1]):
                n = o["nargs"] if isinstance(o["nargs"], int) and o["nargs"] > 1 else 1
                cfgs.append({"name": f"opt:{s}={val}", slot: [s] + [val] * n})
            if o["nargs"] in ("*", "?"):
                cfgs.append({"name": f"opt:{s} (no value)", "targs" if slot != "gargs" else slot: [s]})
    t = opt_for(disc, "tags", None)
    if t:
        cfgs.append(dict(name=f"opt:{t} (no value)", targs=[t]))
        cfgs.append(dict(name=f"opt:{t} 1 c15tag 2 other", targs=[t, "1", "c15tag", "2", "other"]))
    d = opt_for(disc, "datamodels", None)
    if d:
        cfgs.append(dict(name=f"opt:{d} c15models", sargs=[d, "c15models"], uses_datamodels=True))
    seen, out = set(), []
    for c in cfgs:
        if c["name"] not in seen:
            seen.add(c["name"])
            out.append(c)
    disc["unhandled_options"] = unhandled
    return out


def probe_all(cfgs, disc, src, py=None, workers=8):
    with concurrent.futures.ThreadPoolExecutor(max_workers=workers) as ex:
        return list(ex.map(lambda c: probe_config(c, disc, src, py), cfgs))
