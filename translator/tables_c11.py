"""C11 tables: the operation words of ContentIndexParser._process_data_sheet and the
'descending' word of _data_sheets_sort, as *effective values*: candidate words are
harvested from the string constants of contentindexparser.py (ast) plus a fixed list, and
each candidate is classified by what the real parser does with it on a three-row sheet
(tabulation).  A behaviour-preserving rewrite (dict dispatch, match statement, constants
moved) yields the same table; a changed word changes a Coq constant.  Fail-closed."""
import ast
import csv
import inspect
import logging
import os
import shutil
import sys
import tempfile

from gen_tables import Refuse, coq_str, coq_bool, coq_list

MODELS = """from rpft.parsers.creation.datarowmodel import DataRowModel
class TblRowM(DataRowModel):
    x: int = 0
"""
HDR = ["type", "sheet_name", "new_name", "data_model", "operation.type", "operation.expression", "operation.order"]


class _Stop(logging.Handler):
    def emit(self, record):
        if record.levelno >= logging.CRITICAL:
            raise SystemExit(1)


def _candidates():
    import rpft.parsers.creation.contentindexparser as cip

    words = {"concat", "filter", "sort", "descending", "ascending", "desc", "reverse", "reversed"}
    try:
        tree = ast.parse(inspect.getsource(cip))
        for node in ast.walk(tree):
            if isinstance(node, ast.Constant) and isinstance(node.value, str):
                words.add(node.value)
    except Exception:
        pass
    ok = []
    for w in sorted(words):
        if 0 < len(w) <= 24 and all(c.isalnum() or c == "_" for c in w) and w.isascii():
            ok.append(w)
    return ok


def _probe(base, op, expr, order):
    """ids of the sheet registered under 'n' by one index row over sheet t, or None on any error"""
    from rpft.converters import get_content_index_parser

    d = tempfile.mkdtemp(prefix="c11tbl", dir=base)
    with open(os.path.join(d, "content_index.csv"), "w", newline="") as f:
        w = csv.writer(f)
        w.writerow(HDR)
        w.writerow(["data_sheet", "t", "n", "TblRowM", op, expr, order])
    with open(os.path.join(d, "t.csv"), "w", newline="") as f:
        w = csv.writer(f)
        w.writerows([["ID", "x"], ["r1", "2"], ["r2", "1"], ["r3", "3"]])
    try:
        p = get_content_index_parser([d], "csv", "c11tbl_models", [])
        return list(p.get_data_sheet_rows("n").keys())
    except BaseException:
        return None


def tables_dataops(out, notes):
    from rpft.parsers.creation.contentindexrowmodel import Operation

    fields = [(n, f.default) for n, f in Operation.__fields__.items()]
    if [n for n, _ in fields] != ["type", "expression", "order"] or any(not isinstance(d, str) for _, d in fields):
        raise Refuse(f"Operation model is not (type, expression, order) with string defaults: {fields!r}")
    out.append("Definition dop_operation_fields : list (str * str) := "
               + coq_list(f"({coq_str(n)}, {coq_str(d)})" for n, d in fields) + ".")

    base = tempfile.mkdtemp(prefix="c11tblbase")
    lg = logging.getLogger("main")
    h = _Stop()
    lg.addHandler(h)
    old_disable = logging.root.manager.disable
    logging.disable(logging.ERROR)     # keep warnings of the probes off stderr; CRITICAL still reaches _Stop
    try:
        with open(os.path.join(base, "c11tbl_models.py"), "w") as f:
            f.write(MODELS)
        sys.path.insert(0, base)
        cands = _candidates()
        kinds = {"concat": [], "filter": [], "sort": []}
        for w in cands:
            ids = _probe(base, w, "x > 1", "")
            if ids == ["r1", "r2", "r3"]:
                kinds["concat"].append(w)
            elif ids == ["r1", "r3"]:
                kinds["filter"].append(w)
            elif ids == ["r2", "r1", "r3"]:
                kinds["sort"].append(w)
        for k, ws in kinds.items():
            if len(ws) != 1:
                raise Refuse(f"data-sheet operation '{k}': expected exactly one operation word, tabulation found {ws!r}")
        sort_w = kinds["sort"][0]
        if _probe(base, sort_w, "x", "") != ["r2", "r1", "r3"]:
            raise Refuse("sort with an empty order is not ascending")
        desc = [w for w in cands if w == w.lower() and _probe(base, sort_w, "x", w) == ["r3", "r1", "r2"]]
        if len(desc) != 1:
            raise Refuse(f"expected exactly one (lower-case) word that makes sort descending, found {desc!r}")
        variants = [desc[0].upper(), desc[0].capitalize()]
        rev = [_probe(base, sort_w, "x", v) == ["r3", "r1", "r2"] for v in variants]
        if all(rev):
            ci = True
        elif not any(rev):
            ci = False
        else:
            raise Refuse(f"case handling of the order word is neither exact nor case-insensitive: {variants!r} -> {rev!r}")
    finally:
        lg.removeHandler(h)
        logging.disable(old_disable)
        if base in sys.path:
            sys.path.remove(base)
        shutil.rmtree(base, ignore_errors=True)
    out.append(f"Definition dop_word_concat : str := {coq_str(kinds['concat'][0])}.")
    out.append(f"Definition dop_word_filter : str := {coq_str(kinds['filter'][0])}.")
    out.append(f"Definition dop_word_sort : str := {coq_str(kinds['sort'][0])}.")
    out.append(f"Definition dop_word_desc : str := {coq_str(desc[0])}.")
    out.append(f"Definition dop_desc_case_insensitive : bool := {coq_bool(ci)}.")
    notes.append(f"dop_word_*: TABULATED by running ContentIndexParser on {len(cands)} candidate words "
                 "(string constants of contentindexparser.py + fixed list)")


GENERATORS = [tables_dataops]
