"""C14 tables: the effective csv dialect tablib hands to csv.reader/csv.writer, the csv
field size limit of the running interpreter, and how sheets.load_csv opens its file
(newline translation), found by probing the function itself.  Fail-closed."""
import csv
import os
import shutil
import tempfile

from gen_tables import Refuse, coq_char, coq_str, coq_bool


def tables_c14(out, notes):
    from tablib.formats._csv import CSVFormat

    delim = CSVFormat.DEFAULT_DELIMITER
    try:
        d = csv.reader([], delimiter=delim).dialect
    except Exception as e:
        raise Refuse(f"cannot build the csv dialect tablib uses: {e}")
    if not (isinstance(d.delimiter, str) and len(d.delimiter) == 1):
        raise Refuse(f"csv delimiter is not one character: {d.delimiter!r}")
    if not (isinstance(d.quotechar, str) and len(d.quotechar) == 1):
        raise Refuse(f"csv quotechar is not one character: {d.quotechar!r}")
    out.append(f"Definition csv_delimiter : char := {coq_char(d.delimiter)}.")
    out.append(f"Definition csv_quotechar : char := {coq_char(d.quotechar)}.")
    out.append(f"Definition csv_lineterminator : str := {coq_str(d.lineterminator)}.")
    out.append(f"Definition csv_doublequote : bool := {coq_bool(bool(d.doublequote))}.")
    out.append(f"Definition csv_quote_minimal : bool := {coq_bool(d.quoting == csv.QUOTE_MINIMAL)}.")
    out.append(f"Definition csv_no_escapechar : bool := {coq_bool(d.escapechar is None)}.")
    out.append(f"Definition csv_skipinitialspace : bool := {coq_bool(bool(d.skipinitialspace))}.")
    out.append(f"Definition csv_strict : bool := {coq_bool(bool(d.strict))}.")
    lim = csv.field_size_limit()
    if not isinstance(lim, int) or lim < 0:
        raise Refuse(f"csv.field_size_limit() = {lim!r}")
    out.append(f"Definition csv_field_limit : N := {lim}%N.")

    # how does load_csv hand the file to the reader?  Probe the function itself.
    from rpft.parsers import sheets

    tmp = tempfile.mkdtemp(prefix="c14tab")
    try:
        p = os.path.join(tmp, "probe.csv")
        with open(p, "wb") as f:
            f.write('h,é世\r\n"a\rb","c\r\nd"\r\n'.encode("utf-8"))
        try:
            t = sheets.load_csv(p)
            hdr, cells = list(t.headers), list(t[0])
        except Exception as e:
            raise Refuse(f"load_csv failed on the probe file: {type(e).__name__}: {e}")
    finally:
        shutil.rmtree(tmp, ignore_errors=True)
    if hdr != ["h", "é世"]:
        raise Refuse(f"load_csv does not decode UTF-8 headers: {hdr!r}")
    if cells == ["a\nb", "c\nd"]:
        translated = True
    elif cells == ["a\rb", "c\r\nd"]:
        translated = False
    else:
        raise Refuse(f"load_csv newline handling is neither newline=None nor newline='': {cells!r}")
    out.append(f"Definition load_csv_translated : bool := {coq_bool(translated)}.")
    flags = probe_reader_flags(sheets)
    for name in ("csv_reader_drops_empty_rows", "json_reader_drops_empty_rows", "json_reader_table_form", "to_json_table_form"):
        out.append(f"Definition {name} : bool := {coq_bool(flags[name])}.")
    notes.append("csv_reader_drops_empty_rows / json_reader_drops_empty_rows / json_reader_table_form / to_json_table_form = "
                 + " / ".join(str(flags[n]) for n in ("csv_reader_drops_empty_rows", "json_reader_drops_empty_rows",
                                                       "json_reader_table_form", "to_json_table_form"))
                 + ": PROBED on CSVSheetReader, JSONSheetReader and converters.to_json (rows of empty cells in first / middle / "
                 "last position and alone, widths 1-3; the object form {headers, rows} with and without rows; a sheet with "
                 "headers and no rows through to_json); a reader that drops some all-empty rows and keeps others is refused")
    notes.append("load_csv_translated: TABULATED by running sheets.load_csv on a probe file with CR / CRLF inside quoted cells")
    notes.append("csv_*: dialect attributes of csv.reader([], delimiter=tablib CSVFormat.DEFAULT_DELIMITER).dialect; csv.field_size_limit()")


def _view(t):
    return (list(t.headers) if t.headers else None, [list(t[i]) for i in range(t.height)])


def _kept_or_dropped(what, got, tables):
    """got: {name: view}; tables: {name: (headers, rows)}.  'kept' = every table as given, 'dropped' = every table
    without its all-empty rows; anything else is outside the model"""
    kept = {n: (h, [list(r) for r in rows]) for n, (h, rows) in tables.items()}
    dropped = {n: (h, [list(r) for r in rows if any(c != "" for c in r)]) for n, (h, rows) in tables.items()}
    if kept == dropped:
        raise Refuse(f"{what}: the probe has no all-empty row")
    if got == kept:
        return False
    if got == dropped:
        return True
    raise Refuse(f"{what} neither keeps nor omits the rows without content: {got!r}")


PROBE_TABLES = {
    "p1": (["a", "b"], [["", ""], ["x", ""], ["", ""], ["", "y"], ["", ""]]),
    "p2": (["a"], [["z"], [""]]),
    "p3": (["a", "b", "c"], [["", "", ""]]),
    "p4": (["h é"], [["0"], [" "], [""], ["None"]]),
}


def probe_reader_flags(sheets):
    import csv as _csv
    import io
    import json

    import tablib
    from rpft import converters

    tmp = tempfile.mkdtemp(prefix="c14flags")
    try:
        # ---- CSVSheetReader
        d = os.path.join(tmp, "csv")
        os.makedirs(d)
        for n, (h, rows) in PROBE_TABLES.items():
            s = io.StringIO(newline="")
            w = _csv.writer(s)
            for r in [h] + rows:
                w.writerow(r)
            with open(os.path.join(d, n + ".csv"), "w", newline="", encoding="utf-8") as f:
                f.write(s.getvalue())
        try:
            got = {n: _view(sh.table) for n, sh in sheets.CSVSheetReader(d).sheets.items()}
        except Exception as e:
            raise Refuse(f"CSVSheetReader failed on the probe folder: {type(e).__name__}: {e}")
        csv_drop = _kept_or_dropped("CSVSheetReader", got, PROBE_TABLES)

        # ---- JSONSheetReader, list-of-objects and list-of-lists forms
        def read_json(book_sheets):
            p = os.path.join(tmp, "probe.json")
            with open(p, "w", encoding="utf-8") as f:
                json.dump({"meta": {"version": "0.1.0"}, "sheets": book_sheets}, f, ensure_ascii=False)
            return {n: _view(sh.table) for n, sh in sheets.JSONSheetReader(p).sheets.items()}

        try:
            got = read_json({n: [dict(zip(h, r)) for r in rows] for n, (h, rows) in PROBE_TABLES.items()})
        except Exception as e:
            raise Refuse(f"JSONSheetReader failed on the probe file: {type(e).__name__}: {e}")
        json_drop = _kept_or_dropped("JSONSheetReader", got, PROBE_TABLES)
        lists = {"l1": (None, [["", ""], ["x", ""]]), "l2": (None, [["q"], [""], [""]])}
        try:
            got = read_json({n: rows for n, (_, rows) in lists.items()})
        except Exception as e:
            raise Refuse(f"JSONSheetReader failed on list-of-lists sheets: {type(e).__name__}: {e}")
        if _kept_or_dropped("JSONSheetReader (list of lists)", got, lists) != json_drop:
            raise Refuse("JSONSheetReader treats rows without content differently in the list-of-objects and list-of-lists forms")

        # ---- JSONSheetReader, object form {"headers": [...], "rows": [[...]]}
        verdicts = set()
        forms = dict(PROBE_TABLES)
        forms["h1"] = (["a", "b"], [])
        forms["h2"] = (["only"], [])
        for n, (h, rows) in forms.items():
            try:
                got = read_json({n: {"headers": h, "rows": rows}})
            except Exception:
                verdicts.add(False)
                continue
            want_rows = [list(r) for r in rows if any(c != "" for c in r)] if json_drop else [list(r) for r in rows]
            if got != {n: (h, want_rows)}:
                raise Refuse(f"JSONSheetReader reads the object form of {n} as {got!r}")
            verdicts.add(True)
        if len(verdicts) != 1:
            raise Refuse("JSONSheetReader accepts the object form {headers, rows} for some sheets only")
        json_table = verdicts.pop()

        # ---- converters.to_json
        class Reader(sheets.AbstractSheetReader):
            def __init__(self, sh):
                self._sheets = sh

        def ds(h, rows):
            t = tablib.Dataset()
            if h:
                t.headers = list(h)
            for r in rows:
                t.append(list(r))
            return t

        book = dict(PROBE_TABLES)
        book["h1"] = (["a", "b"], [])
        book["h2"] = (["only"], [])
        book["e"] = (None, [])
        book["l"] = (None, [["x", "y"]])
        try:
            txt = converters.to_json(Reader({n: sheets.Sheet(reader=None, name=n, table=ds(h, rows)) for n, (h, rows) in book.items()}))
            parsed = json.loads(txt)["sheets"]
        except Exception as e:
            raise Refuse(f"converters.to_json failed on the probe workbook: {type(e).__name__}: {e}")
        for n, (h, rows) in book.items():
            if h and rows and parsed.get(n) != [dict(zip(h, r)) for r in rows]:
                raise Refuse(f"to_json writes sheet {n} as {parsed.get(n)!r}")
        if parsed.get("e") != [] or parsed.get("l") != [["x", "y"]]:
            raise Refuse(f"to_json writes header-less sheets as {parsed.get('e')!r} / {parsed.get('l')!r}")
        hv = set()
        for n in ("h1", "h2"):
            if parsed.get(n) == []:
                hv.add(False)
            elif parsed.get(n) == {"headers": book[n][0], "rows": []}:
                hv.add(True)
            else:
                raise Refuse(f"to_json writes the header-only sheet {n} as {parsed.get(n)!r}")
        if len(hv) != 1:
            raise Refuse("to_json writes some header-only sheets in the object form and others not")
        tojson_table = hv.pop()
    finally:
        shutil.rmtree(tmp, ignore_errors=True)
    return dict(csv_reader_drops_empty_rows=csv_drop, json_reader_drops_empty_rows=json_drop,
                json_reader_table_form=json_table, to_json_table_form=tojson_table)


GENERATORS = [tables_c14]
