"""C14 tables: the effective csv dialect tablib hands to csv.reader/csv.writer, the csv
field size limit of the running interpreter, and how sheets.load_csv opens its file
(newline translation), found by probing the function itself.  Fail-closed."""
import csv
import os
import shutil
import tempfile

from gen_tables import Refuse, coq_char, coq_str, coq_bool


def tables_c14(out, notes):
    from tablib.formats._csv import CSVFormat

    delim = CSVFormat.DEFAULT_DELIMITER
    try:
        d = csv.reader([], delimiter=delim).dialect
    except Exception as e:
        raise Refuse(f"cannot build the csv dialect tablib uses: {e}")
    if not (isinstance(d.delimiter, str) and len(d.delimiter) == 1):
        raise Refuse(f"csv delimiter is not one character: {d.delimiter!r}")
    if not (isinstance(d.quotechar, str) and len(d.quotechar) == 1):
        raise Refuse(f"csv quotechar is not one character: {d.quotechar!r}")
    out.append(f"Definition csv_delimiter : char := {coq_char(d.delimiter)}.")
    out.append(f"Definition csv_quotechar : char := {coq_char(d.quotechar)}.")
    out.append(f"Definition csv_lineterminator : str := {coq_str(d.lineterminator)}.")
    out.append(f"Definition csv_doublequote : bool := {coq_bool(bool(d.doublequote))}.")
    out.append(f"Definition csv_quote_minimal : bool := {coq_bool(d.quoting == csv.QUOTE_MINIMAL)}.")
    out.append(f"Definition csv_no_escapechar : bool := {coq_bool(d.escapechar is None)}.")
    out.append(f"Definition csv_skipinitialspace : bool := {coq_bool(bool(d.skipinitialspace))}.")
    out.append(f"Definition csv_strict : bool := {coq_bool(bool(d.strict))}.")
    lim = csv.field_size_limit()
    if not isinstance(lim, int) or lim < 0:
        raise Refuse(f"csv.field_size_limit() = {lim!r}")
    out.append(f"Definition csv_field_limit : N := {lim}%N.")

    # how does load_csv hand the file to the reader?  Probe the function itself.
    from rpft.parsers import sheets

    tmp = tempfile.mkdtemp(prefix="c14tab")
    try:
        p = os.path.join(tmp, "probe.csv")
        with open(p, "wb") as f:
            f.write('h,é世\r\n"a\rb","c\r\nd"\r\n'.encode("utf-8"))
        try:
            t = sheets.load_csv(p)
            hdr, cells = list(t.headers), list(t[0])
        except Exception as e:
            raise Refuse(f"load_csv failed on the probe file: {type(e).__name__}: {e}")
    finally:
        shutil.rmtree(tmp, ignore_errors=True)
    if hdr != ["h", "é世"]:
        raise Refuse(f"load_csv does not decode UTF-8 headers: {hdr!r}")
    if cells == ["a\nb", "c\nd"]:
        translated = True
    elif cells == ["a\rb", "c\r\nd"]:
        translated = False
    else:
        raise Refuse(f"load_csv newline handling is neither newline=None nor newline='': {cells!r}")
    out.append(f"Definition load_csv_translated : bool := {coq_bool(translated)}.")
    notes.append("load_csv_translated: TABULATED by running sheets.load_csv on a probe file with CR / CRLF inside quoted cells")
    notes.append("csv_*: dialect attributes of csv.reader([], delimiter=tablib CSVFormat.DEFAULT_DELIMITER).dialect; csv.field_size_limit()")


GENERATORS = [tables_c14]
