"""Tables of engine E2 (row codec), regenerated from /repo's effective values:

  * RowParser's three separator constants;
  * flow_row_model_sexp: FlowRowModel (with Edge, Condition, Webhook, WhatsAppTemplating) from
    pydantic `__fields__` (name, outer type, default, in order), the renaming functions
    header_name_to_field_name / field_name_to_header_name of every model TABULATED over
    their candidate domains, and header_name_to_field_name_with_context tabulated over every
    string constant of its source x every candidate row type;
  * the target/excluded header sets FlowContainer.to_row_data_sheet really passes.

The model is emitted as an S-expression (the wire encoding of harness/rowlib.py) because
Gen/Tables.v may only depend on Base/Sexp.v; Row/FlowRow.v decodes it by computation.
Fail-closed: anything outside the universe raises Refuse.
"""
import ast
import inspect
import os
import sys
import textwrap

HERE = os.path.dirname(os.path.abspath(__file__))
sys.path.insert(0, os.path.join(HERE, "..", "harness"))

import rowlib  # noqa: E402


def _refuse(msg):
    main = sys.modules.get("__main__")
    Refuse = getattr(main, "Refuse", None)
    if Refuse is None:
        from gen_tables import Refuse
    raise Refuse(msg)


def _coq_str(s):
    return "[" + "; ".join(str(ord(c)) for c in s) + "]%N"


def _string_constants(fn):
    try:
        tree = ast.parse(textwrap.dedent(inspect.getsource(fn)))
    except Exception:
        return []
    out = []
    for node in ast.walk(tree):
        if isinstance(node, ast.Constant) and isinstance(node.value, str) and node.value not in out:
            out.append(node.value)
    return out


def ctx_table(cls, desc, probe_strip=True):
    """probe_strip=False (harness only, after the probe has refused): the tables without the verdict on stripping
    (sw_strip = None), so that the oracle can still run on a tree the translator refuses.
    Tabulate cls.header_name_to_field_name_with_context.  Candidate headers: every string
    constant of the function's source, every field name and header name of the model, the
    documented short headers.  A header on which the function raises KeyError with an empty
    row is the row-dependent one; the KeyError names the column it reads; that column is then
    tabulated over every candidate string."""
    fn = cls.header_name_to_field_name_with_context
    consts = _string_constants(fn)
    names = [f[0] for f in desc[2]]
    cands = []
    for c in consts + names + [desc[4].get(n, n) for n in names] + [
            "from", "condition", "condition_value", "condition_var", "condition_variable", "condition_type",
            "condition_name", "message_text", "_nodeId", "_ui_type", "_ui_position", "type", "row_id"]:
        if c not in cands:
            cands.append(c)
    basic, switch = {}, []
    sw_column = None
    for h in cands:
        try:
            r = fn(h, {})
        except KeyError as e:
            if len(e.args) != 1 or not isinstance(e.args[0], str):
                _refuse(f"{cls.__name__}.header_name_to_field_name_with_context({h!r}, {{}}) raised {e!r}")
            if sw_column not in (None, e.args[0]):
                _refuse("header_name_to_field_name_with_context reads more than one column")
            sw_column = e.args[0]
            switch.append(h)
            continue
        except Exception as e:
            _refuse(f"{cls.__name__}.header_name_to_field_name_with_context({h!r}, {{}}) raised {e!r}")
        if not isinstance(r, str):
            _refuse(f"header_name_to_field_name_with_context({h!r}) = {r!r}")
        if r != h:
            basic[h] = r
    if not switch:
        return dict(basic=basic, sw_header="", sw_column="", sw_table={}, sw_strip=False), cands
    if len(switch) != 1:
        _refuse(f"more than one row-dependent header: {switch!r}")
    sw_header = switch[0]
    table = {}
    for c in cands:
        try:
            r = fn(sw_header, {sw_column: c})
        except KeyError:
            continue
        except Exception as e:
            _refuse(f"header_name_to_field_name_with_context({sw_header!r}, {{{sw_column!r}: {c!r}}}) raised {e!r}")
        if not isinstance(r, str):
            _refuse(f"header_name_to_field_name_with_context -> {r!r}")
        table[c] = r
    if not table:
        _refuse("row-dependent header has an empty table (no candidate row type accepted)")
    # the basic table must not depend on the row: re-tabulate with a row that has the column
    some = next(iter(table))
    for h in cands:
        if h == sw_header:
            continue
        r = fn(h, {sw_column: some})
        if r != basic.get(h, h):
            _refuse(f"header {h!r} is re-keyed differently depending on the row")
    sw_strip = _probe_strip(cls, fn, sw_header, sw_column, table) if probe_strip else None
    return dict(basic=basic, sw_header=sw_header, sw_column=sw_column, sw_table=table, sw_strip=sw_strip), cands


# str.strip() whitespace (Base/PyStr.v: is_ws)
PY_WS = [chr(c) for c in list(range(0x9, 0xE)) + list(range(0x1C, 0x21)) + [0x85, 0xA0, 0x1680] + list(range(0x2000, 0x200B))
         + [0x2028, 0x2029, 0x202F, 0x205F, 0x3000]]


def _probe_strip(cls, fn, sw_header, sw_column, table):
    """Is the row-type cell looked up RAW or STRIPPED (as RowParser reads the cell itself)?  Probed on the function:
    every str.strip() whitespace character before / after / around every row type of the table.  All probes must
    agree (all found under the unpadded key: stripped; all KeyError: raw); any other normalisation (case, inner
    blanks, non-whitespace padding accepted) is outside the model."""
    assert all(c.strip() == "" for c in PY_WS) and len(PY_WS) == 29
    verdicts = set()
    keys = list(table)
    pads = [(w, "") for w in PY_WS] + [("", w) for w in PY_WS] + [(w, w) for w in PY_WS] + [(" \n\t", "\r  "), ("\u3000 ", "\x1f\x85")]
    for i, (pre, post) in enumerate(pads):
        for rt in (keys if i < 4 else [keys[i % len(keys)]]):
            if rt.strip() != rt or rt == "":
                _refuse(f"row type {rt!r} of the table is blank or carries whitespace itself")
            try:
                r = fn(sw_header, {sw_column: pre + rt + post})
            except KeyError:
                verdicts.add("raw")
                continue
            except Exception as e:
                _refuse(f"header_name_to_field_name_with_context on a padded {sw_column!r} cell raised {e!r}")
            if r != table[rt]:
                _refuse(f"padded row type {pre + rt + post!r} re-keys {sw_header!r} to {r!r}, unpadded to {table[rt]!r}")
            verdicts.add("stripped")
    if len(verdicts) != 1:
        _refuse(f"{cls.__name__}.header_name_to_field_name_with_context strips some whitespace paddings of the "
                f"{sw_column!r} cell and not others")
    # nothing else is normalised away
    for rt in keys:
        for bad in ("x" + rt, rt + "x", rt.upper() if rt.upper() != rt else rt + "_", rt[:1] + " " + rt[1:], "\u200b" + rt):
            if bad in table:
                continue
            try:
                r = fn(sw_header, {sw_column: bad})
            except KeyError:
                continue
            except Exception as e:
                _refuse(f"header_name_to_field_name_with_context({sw_header!r}, {{{sw_column!r}: {bad!r}}}) raised {e!r}")
            _refuse(f"row type {bad!r} is accepted (-> {r!r}): the lookup normalises more than str.strip()")
    return verdicts == {"stripped"}


def tables_row(out, notes):
    parse_sexp = _parse_sexp
    from rpft.parsers.common.rowparser import RowParser
    from rpft.parsers.creation.flowrowmodel import FlowRowModel

    for coq, attr in (("hdr_sep", "HEADER_FIELD_SEPARATOR"), ("ann_sep", "TYPE_ANNOTATION_SEPARATOR"),
                      ("dflt_sep", "DEFAULT_VALUE_SEPARATOR")):
        v = getattr(RowParser, attr, None)
        if not (isinstance(v, str) and len(v) == 1):
            _refuse(f"RowParser.{attr} is not a one-character string: {v!r}")
        out.append(f"Definition {coq} : char := {ord(v)}%N.")

    try:
        desc = rowlib.from_pydantic(FlowRowModel)
    except rowlib.Unsupported as e:
        _refuse(f"FlowRowModel: {e}")
    ctx, cands = ctx_table(FlowRowModel, desc)
    text = rowlib.e_rowmodel(desc, ctx)
    out.append("Definition flow_row_model_sexp : sexp :=")
    out.append("  (" + rowlib.sexp_to_coq(parse_sexp(text)) + ")%N.")
    notes.append("flow_row_model_sexp: fields from pydantic __fields__; header_name_to_field_name tabulated per model over "
                 "field names/header names/underscore variants; header_name_to_field_name_with_context TABULATED over "
                 f"{len(cands)} candidate strings (string constants of its source + field/header names)")
    notes.append("flow row model: " + ", ".join(f"{n}:{_short(t)}" for (n, t, _) in desc[2]))
    notes.append("ctx basic: " + repr(ctx["basic"]))
    notes.append("ctx switch: " + repr((ctx["sw_header"], ctx["sw_column"], ctx["sw_table"])))
    notes.append(f"ctx sw_strip={ctx['sw_strip']}: PROBED — every str.strip() whitespace character before/after/around "
                 "the row-type cell (all looked up under the unpadded key: True; all KeyError: False; mixed: refused)")

    # what to_row_data_sheet passes (effective values of the two local sets)
    try:
        from rpft.rapidpro.models.containers import FlowContainer
        fc = FlowContainer("x")
        sheets = {s: fc.to_row_data_sheet(strip_uuids=s) for s in (False, True)}
        tg = {s: sorted(sheets[s].target_headers) for s in sheets}
        ex = {s: sorted(sheets[s].excluded_headers) for s in sheets}
        if sheets[False].row_parser.model is not FlowRowModel:
            _refuse("to_row_data_sheet no longer exports FlowRowModel rows")
    except Exception as e:
        if type(e).__name__ == "Refuse":
            raise
        _refuse(f"cannot evaluate FlowContainer.to_row_data_sheet on an empty flow: {e!r}")
    if tg[False] != tg[True]:
        _refuse("target headers depend on strip_uuids")
    for l in (tg[False], ex[False], ex[True]):
        if not all(isinstance(h, str) for h in l):
            _refuse(f"header set {l!r}")
    out.append("Definition flow_export_targets : list str := [" + "; ".join(_coq_str(h) for h in tg[False]) + "].")
    out.append("Definition flow_excluded_plain : list str := [" + "; ".join(_coq_str(h) for h in ex[False]) + "].")
    out.append("Definition flow_excluded_strip : list str := [" + "; ".join(_coq_str(h) for h in ex[True]) + "].")
    notes.append(f"flow_export_targets={tg[False]!r} flow_excluded_strip={ex[True]!r}: effective values of "
                 "FlowContainer('x').to_row_data_sheet(strip_uuids=...)")


def _short(t):
    if t[0] == "list":
        return "List[" + _short(t[1]) + "]"
    if t[0] == "model":
        return t[1]
    return t[0]


# a tiny S-expression reader (the harness has one in common.py, which imports too much here)
import re  # noqa: E402


def _parse_sexp(s):
    toks = re.findall(r"\(|\)|\d+", s)
    pos = [0]

    def item():
        t = toks[pos[0]]
        pos[0] += 1
        if t == "(":
            acc = []
            while toks[pos[0]] != ")":
                acc.append(item())
            pos[0] += 1
            return acc
        return int(t)

    return item()


GENERATORS = [tables_row]
