"""C19 tables: what campaign / trigger sheets are validated against and filled with, read
from the CURRENT /repo tree (effective values):

 * the enum lists of the pydantic validators of CampaignEventRowModel / TriggerRowModel
   (function-local literals: read from the validator's ast, cross-checked against the
   behaviour of the model class on every one-character candidate; when the ast has another
   shape the validator is tabulated over all one- and two-character candidates);
   `None` = the validator rejected no candidate (there is nothing "invalid" any more);
 * field lists (name, kind, required, default) of the two row models (pydantic __fields__);
 * constants of CampaignParser / CampaignEvent / Trigger / generate_field_key that are
   literals inside functions, obtained behaviourally by calling the real constructors:
   the delivery hour of an event without one, the language key of the message dict, the
   default base language, which event types need a message / render a flow / render a base
   language, which trigger types need a keyword and which match type they default to,
   the maximal length of a derived contact-field key.

Fail-closed: anything that can be neither read nor tabulated raises Refuse.
"""
import ast
import inspect
import textwrap

from gen_tables import Refuse, coq_str, coq_list, coq_bool

ONE = [chr(c) for c in range(32, 127)]
LETTERS = [chr(c) for c in range(65, 91)] + [chr(c) for c in range(97, 123)] + list("0123456789 _-?")
TWO = [a + b for a in LETTERS for b in LETTERS]


def coq_z(z):
    if z == 0:
        return "Z0"
    return f"(Zneg {-z}%positive)" if z < 0 else f"(Zpos {z}%positive)"


def _opt_list(xs):
    if xs is None:
        return "None"
    return "Some " + coq_list(coq_str(x) for x in xs)


def _validator_fn(model, field):
    """The python function behind the pydantic-v1 validator of `field`, or None."""
    vals = getattr(model, "__validators__", {}).get(field) or []
    for v in vals:
        fn = getattr(v, "func", None)
        if fn is not None:
            return fn
    return None


def _ast_not_in_lists(fn):
    """All literal lists `x not in [..]` / `x in [..]` of the function, with the literal
    equality guards of the same boolean expression (for `values["type"] == "K" and ...`)."""
    src = textwrap.dedent(inspect.getsource(fn))
    tree = ast.parse(src)
    found = []
    for node in ast.walk(tree):
        if isinstance(node, ast.If):
            test = node.test
            guards, lists = [], []
            parts = test.values if isinstance(test, ast.BoolOp) and isinstance(test.op, ast.And) else [test]
            okshape = True
            for p in parts:
                if isinstance(p, ast.Compare) and len(p.ops) == 1 and isinstance(p.ops[0], ast.NotIn):
                    try:
                        lists.append(list(ast.literal_eval(p.comparators[0])))
                    except Exception:
                        okshape = False
                elif isinstance(p, ast.Compare) and len(p.ops) == 1 and isinstance(p.ops[0], ast.Eq):
                    try:
                        guards.append(ast.literal_eval(p.comparators[0]))
                    except Exception:
                        okshape = False
                else:
                    okshape = False
            raises = any(isinstance(s, ast.Raise) for s in node.body)
            if okshape and raises and len(lists) == 1:
                found.append((guards, lists[0]))
            elif raises:
                found.append(None)
    return found


def _accepts(model, base, field, value):
    """Does constructing `model` with base + {field: value} pass validation of `field`?
    (other errors than one located at `field` do not count; a non-validation exception
    counts as a rejection — under the CLI it is a traceback)."""
    from pydantic.v1 import ValidationError

    kw = dict(base)
    kw[field] = value
    try:
        model(**kw)
        return True
    except ValidationError as e:
        return not any(field in err.get("loc", ()) for err in e.errors())
    except Exception:
        return False


def _enum(model, base, field, notes, label, guard=None):
    """Accepted values of `field` as an ordered list, or None when nothing is rejected."""
    lit = None
    fn = _validator_fn(model, field)
    how = ""
    if fn is not None:
        try:
            found = _ast_not_in_lists(fn)
            if len(found) == 1 and found[0] is not None:
                g, l = found[0]
                if all(isinstance(x, str) for x in l) and (guard is None and g == [] or guard is not None and g == [guard[1]]):
                    lit = l
        except Exception:
            lit = None
    one = [v for v in [""] + ONE if _accepts(model, base, field, v)]
    if lit is not None:
        # the literal must describe the behaviour on every one-character candidate
        if sorted(set(x for x in lit if len(x) <= 1)) == sorted(one):
            notes.append(f"{label}: read from the ast of {fn.__qualname__}, confirmed on {len(ONE) + 1} one-character candidates")
            return list(lit)
        how = " (ast literal disagrees with behaviour)"
    two = [v for v in TWO if _accepts(model, base, field, v)]
    if len(one) == len(ONE) + 1 and len(two) == len(TWO):
        notes.append(f"{label}: TABULATED{how}: no candidate is rejected -> None")
        return None
    if len(one) + len(two) > 64:
        raise Refuse(f"{label}: validator accepts {len(one) + len(two)} of the candidates; not an enum list the model covers")
    notes.append(f"{label}: TABULATED{how} over {len(ONE) + 1 + len(TWO)} one/two-character candidates")
    return one + two


def tables_c19(out, notes):
    from rpft.parsers.creation.campaigneventrowmodel import CampaignEventRowModel as CM
    from rpft.parsers.creation.triggerrowmodel import TriggerRowModel as TM
    from rpft.parsers.creation.campaignparser import CampaignParser
    from rpft.rapidpro.models.campaigns import CampaignEvent
    from rpft.rapidpro.models.triggers import Trigger
    from rpft.rapidpro.models import common as rcommon
    import typing

    # ---------------------------------------------------------------- field lists
    def fields(model, label):
        rows = []
        for name, f in model.__fields__.items():
            t = f.outer_type_
            if t is str:
                kind = 0
            elif t == typing.List[str]:
                kind = 1
            else:
                raise Refuse(f"{label}.{name}: type {t!r} is not str / List[str]")
            d = f.get_default()
            if f.required:
                dflt = ""
            elif kind == 0:
                if not isinstance(d, str):
                    raise Refuse(f"{label}.{name}: default {d!r} of a str field is not a str")
                dflt = d
            else:
                if d not in ("", [], None):
                    raise Refuse(f"{label}.{name}: non-empty default {d!r} of a list field is not covered by the model")
                dflt = ""
            rows.append(f"({coq_str(name)}, ({kind}%N, ({coq_bool(bool(f.required))}, {coq_str(dflt)})))")
        return rows

    out.append("(* (field name, (kind 0=str 1=List[str], (required, default))) in declaration order *)")
    out.append(f"Definition camp_fields : list (str * (N * (bool * str))) := {coq_list(fields(CM, 'CampaignEventRowModel'))}.")
    out.append(f"Definition trig_fields : list (str * (N * (bool * str))) := {coq_list(fields(TM, 'TriggerRowModel'))}.")

    # ---------------------------------------------------------------- enum lists
    need_c = {n: "x" for n, f in CM.__fields__.items() if f.required}
    unit = _enum(CM, need_c, "unit", notes, "unit_enum")
    start = _enum(CM, need_c, "start_mode", notes, "start_mode_enum")
    etype = _enum(CM, need_c, "event_type", notes, "event_type_enum")
    need_t = {n: "x" for n, f in TM.__fields__.items() if f.required}
    ttype = _enum(TM, need_t, "type", notes, "trigger_type_enum")
    out.append(f"Definition unit_enum : option (list str) := {_opt_list(unit)}.")
    out.append(f"Definition start_mode_enum : option (list str) := {_opt_list(start)}.")
    out.append(f"Definition event_type_enum : option (list str) := {_opt_list(etype)}.")
    out.append(f"Definition trigger_type_enum : option (list str) := {_opt_list(ttype)}.")
    # match type: one list per trigger type (None = every value accepted for that type)
    types_for_mt = ttype if ttype is not None else ["K", "C", "M", "T"]
    rules = []
    for t in types_for_mt:
        base = dict(need_t)
        base["type"] = t
        l = _enum(TM, base, "match_type", notes, f"match_type_enum[{t}]", guard=("type", t))
        rules.append(f"({coq_str(t)}, {_opt_list(l)})")
    out.append(f"Definition match_type_rules : list (str * option (list str)) := {coq_list(rules)}.")
    # a trigger type outside the list with a match type written: what the row model does
    # (a KeyError in the match_type validator is a rejection as well)

    # ---------------------------------------------------------------- campaign constants (behavioural)
    row_defaults = dict(uuid="", offset="1", unit=(unit or ["D"])[0], event_type="F", delivery_hour="", message="",
                        relative_to="Created On", start_mode=(start or ["I"])[0], flow="f", base_language="")

    class R:  # a validated row, as CampaignParser sees it
        pass

    def events_of(**kw):
        r = R()
        for k, v in {**row_defaults, **kw}.items():
            setattr(r, k, v)
        try:
            return CampaignParser("c", "g", [r]).parse().events
        except BaseException as e:  # critical under a shutdown handler, or ValueError
            return None

    etypes = etype if etype is not None else ["M", "F"]
    evs = events_of()
    if not evs or len(evs) != 1 or not isinstance(evs[0].delivery_hour, int):
        raise Refuse("CampaignParser: cannot determine the delivery hour of a row without one")
    z = evs[0].delivery_hour
    out.append(f"Definition default_delivery_hour : Z := {coq_z(z)}.")
    lang_keys, dfl = set(), set()
    for t in etypes:
        e = events_of(event_type=t, message="hello")
        if e:
            if not (isinstance(e[0].message, dict) and len(e[0].message) == 1):
                raise Refuse("CampaignParser: message is not a one-entry dict")
            lang_keys.add(list(e[0].message.keys())[0])
            if list(e[0].message.values())[0] != "hello":
                raise Refuse("CampaignParser: message text is not the cell text")
            dfl.add(e[0].base_language)
    if len(lang_keys) != 1 or len(dfl) != 1 or not all(isinstance(x, str) for x in dfl):
        raise Refuse(f"CampaignParser: message language key / default base language not unique: {lang_keys} {dfl}")
    out.append(f"Definition message_lang_key : str := {coq_str(lang_keys.pop())}.")
    out.append(f"Definition default_base_language : str := {coq_str(dfl.pop())}.")
    notes.append("default_delivery_hour, message_lang_key, default_base_language: obtained by running CampaignParser on one row")

    def ctor(t, message, base_language):
        try:
            return CampaignEvent(1, "D", t, -1, "I", relative_to_label="Created On", flow_name="f",
                                 message=message, base_language=base_language)
        except ValueError:
            return None

    need_msg, rend_flow, rend_lang = [], [], []
    for t in etypes:
        full = ctor(t, {"eng": "x"}, "eng")
        if full is None:
            raise Refuse(f"CampaignEvent: event type {t!r} is rejected even with message and flow")
        if ctor(t, None, None) is None:
            need_msg.append(t)
            if ctor(t, {"eng": "x"}, None) is not None or ctor(t, None, "eng") is not None:
                raise Refuse("CampaignEvent: message/base_language requirement has another shape than 'both'")
        r = full.render()
        if "flow" in r:
            rend_flow.append(t)
        if "base_language" in r:
            rend_lang.append(t)
    out.append(f"Definition event_types_needing_message : list str := {coq_list(coq_str(t) for t in need_msg)}.")
    out.append(f"Definition event_types_rendering_flow : list str := {coq_list(coq_str(t) for t in rend_flow)}.")
    out.append(f"Definition event_types_rendering_language : list str := {coq_list(coq_str(t) for t in rend_lang)}.")
    notes.append("event_types_*: obtained by calling CampaignEvent(...) / render() for every event type of the enum")

    # ---------------------------------------------------------------- trigger constants (behavioural)
    ttypes = ttype if ttype is not None else ["K", "C", "M", "T"]
    kw_rules = []
    for t in ttypes:
        try:
            Trigger(t, [], None, "", flow_name="f", group_names=[], group_uuids=[], exclude_group_names=[], exclude_group_uuids=[])
            needs = False
        except ValueError:
            needs = True
        try:
            tr = Trigger(t, ["k"], None, "", flow_name="f", group_names=[], group_uuids=[], exclude_group_names=[], exclude_group_uuids=[])
        except ValueError:
            raise Refuse(f"Trigger: type {t!r} rejected with keyword and flow")
        mt = tr.match_type
        if mt is not None and not isinstance(mt, str):
            raise Refuse("Trigger: default match type is not a string")
        kw_rules.append(f"({coq_str(t)}, ({coq_bool(needs)}, {'None' if not mt else 'Some ' + coq_str(mt)}))")
    out.append("(* (trigger type, (a keyword is required, match type when none is written)) *)")
    out.append(f"Definition trigger_kw_rules : list (str * (bool * option str)) := {coq_list(kw_rules)}.")
    notes.append("trigger_kw_rules: obtained by calling Trigger(...) for every trigger type of the enum")

    # ---------------------------------------------------------------- derived key
    gk = rcommon.generate_field_key
    ok_len = 0
    for n in range(1, 200):
        try:
            if gk("a" * n) == "a" * n:
                ok_len = n
            else:
                raise Refuse("generate_field_key('aaa..') is not the identity")
        except Refuse:
            raise
        except Exception:
            break
    if ok_len == 0 or ok_len >= 199:
        raise Refuse("generate_field_key: cannot determine the maximal key length")
    for n in range(ok_len + 1, ok_len + 40):
        try:
            gk("a" * n)
            raise Refuse("generate_field_key: length bound is not monotone")
        except Refuse:
            raise
        except Exception:
            pass
    out.append(f"Definition field_key_max_len : nat := {ok_len}%nat.")
    notes.append("field_key_max_len: TABULATED by calling generate_field_key on 'a'*n, n = 1..")
    # which single ASCII characters make a key acceptable ("at least one letter")
    letters = []
    for c in range(32, 127):
        try:
            gk("1" + chr(c) + "1")
            letters.append(c)
        except Exception:
            pass
    out.append(f"Definition field_key_letters : list N := {coq_list(str(c) + '%N' for c in letters)}.")
    notes.append("field_key_letters: TABULATED: ASCII characters c for which generate_field_key('1'+c+'1') is accepted")


GENERATORS = [tables_c19]
