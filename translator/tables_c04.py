"""C04 tables: behaviour probes for the repaired export defects (findings.d/C04.json).  Each probe
runs the tree at hand on a tiny input and recognises exactly two behaviours - the one recorded as a
finding and the repaired one; anything else is refused (the models Exp/ToRows.v and
Exp/EdgePadding.v have a mirror for these two only).

  group_split_without_cases_exports  a split_by_group node without any case gets a row (no group named) /
                                     SwitchRouterNode.initiate_row_models raises IndexError
  split_rows_carry_save_name         split_by_value / split_by_group / split_random rows carry the router's
                                     result name in save_name / only wait_for_response rows do
  loose_exit_rows                    a case / bucket that leads nowhere is exported as a loose_exit row carrying its
                                     condition (and an unconnected No Response category gives no edge) / it is dropped
  pairs_follow_cases                 SwitchRouter.get_exit_edge_pairs gives one edge per case, in case order / one edge per
                                     category (its first case), in category order
  webhook_headers_packed             FlowContainer.to_row_data_sheet packs webhook.headers into one cell /
                                     spreads it over webhook.headers.<i>.<j> columns
  has_group_edges_by_name            a has_group condition on an edge of a row that is not a split_by_group row is compiled
                                     to the case arguments [uuid, name] / to [name] (IndexError in record_global_uuids)
  blank_edges_dropped                FlowParser ignores an all-blank edge that is not the first edge of its row for
                                     every kind of row / only for ordinary (action, router) rows
"""
from gen_tables import Refuse, coq_bool


def _rows_of(flow_dict, numbered=False):
    from rpft.rapidpro.models.containers import FlowContainer

    return FlowContainer.from_dict(flow_dict).to_rows(numbered)


def _flow(nodes):
    return {"uuid": "f-uuid", "name": "probe", "language": "eng", "type": "messaging", "nodes": nodes,
            "spec_version": "13.1.0", "revision": 0, "expire_after_minutes": 10080, "metadata": {}, "localization": {}}


def _switch(uuid, operand, cases, cats, default, wait=None, result_name=None):
    """cats: [(cat uuid, name, destination or None)]; cases: [(type, arguments, cat uuid)]"""
    r = {"type": "switch", "operand": operand, "default_category_uuid": default,
         "cases": [{"uuid": f"k{i}", "type": t, "arguments": a, "category_uuid": c} for i, (t, a, c) in enumerate(cases)],
         "categories": [{"uuid": c, "name": n, "exit_uuid": "e-" + c} for c, n, _ in cats]}
    if wait is not None:
        r["wait"] = wait
    if result_name is not None:
        r["result_name"] = result_name
    return {"uuid": uuid, "actions": [], "router": r,
            "exits": [{"uuid": "e-" + c, "destination_uuid": d} for c, _, d in cats]}


def _msg(uuid, text, dest=None):
    return {"uuid": uuid, "actions": [{"uuid": "a-" + uuid, "type": "send_msg", "text": text, "attachments": [], "quick_replies": []}],
            "exits": [{"uuid": "e-" + uuid, "destination_uuid": dest}]}


def _cond(e):
    c = e.condition
    return (e.from_, c.value, c.variable, c.type, c.name)


def tables_c04(out, notes):
    from rpft.parsers.creation.flowrowmodel import Edge
    from rpft.rapidpro.models.nodes import RandomRouterNode, SwitchRouterNode
    from rpft.rapidpro.models.routers import RouterCategory

    # ---- 1. group split without cases
    try:
        n = SwitchRouterNode("@contact.groups", uuid="n1")
        try:
            n.initiate_row_models("n1|switch.contact_groups", Edge(from_="start"))
            rm = n.get_row_models()
            ok = (len(rm) == 1 and rm[0].type == "split_by_group" and rm[0].mainarg_groups == [] and rm[0].obj_id == ""
                  and rm[0].row_id == "n1|switch.contact_groups" and [_cond(e) for e in rm[0].edges] == [("start", "", "", "", "")])
            if not ok:
                raise Refuse(f"a group split without cases is exported as {rm!r}: a behaviour the C04 model has no mirror for")
            gsplit = True
        except IndexError:
            gsplit = False
    except Refuse:
        raise
    except Exception as e:
        raise Refuse(f"cannot probe SwitchRouterNode.initiate_row_models on a group split without cases: {type(e).__name__}: {e}")
    out.append(f"Definition group_split_without_cases_exports : bool := {coq_bool(gsplit)}.")

    # ---- 2. result name of the routers that do not wait
    try:
        def save_names(result_name):
            sv = SwitchRouterNode("@fields.x", result_name=result_name, uuid="n1")
            sg = SwitchRouterNode("@contact.groups", result_name=result_name, uuid="n2")
            sg.add_choice("@contact.groups", "has_group", ["g-uuid", "g name"], "G", "dest")
            rn = RandomRouterNode(result_name=result_name, uuid="n3")
            ww = SwitchRouterNode("@input.text", result_name=result_name, wait_timeout=0, uuid="n4")
            got = []
            for node, tp in ((sv, "split_by_value"), (sg, "split_by_group"), (rn, "split_random"), (ww, "wait_for_response")):
                node.initiate_row_models("x|y", Edge(from_="start"))
                rm = node.get_row_models()
                if len(rm) != 1 or rm[0].type != tp:
                    raise Refuse(f"{type(node).__name__} exports as {rm!r}, expected one {tp} row")
                got.append(rm[0].save_name)
            return got

        with_name, without = save_names("res"), save_names(None)
    except Refuse:
        raise
    except Exception as e:
        raise Refuse(f"cannot probe the save_name of router rows: {type(e).__name__}: {e}")
    if without != ["", "", "", ""]:
        raise Refuse(f"router rows without a result name carry save_name {without!r}")
    if with_name == ["res", "res", "res", "res"]:
        keeps_name = True
    elif with_name == ["", "", "", "res"]:
        keeps_name = False
    else:
        raise Refuse(f"save_name of split_by_value/split_by_group/split_random/wait_for_response rows: {with_name!r}: "
                     "a behaviour the C04 model has no mirror for")
    out.append(f"Definition split_rows_carry_save_name : bool := {coq_bool(keeps_name)}.")

    # ---- 3. cases / buckets that lead nowhere
    try:
        sw = _flow([_switch("n1", "@input.text", [("has_any_word", ["a"], "c1"), ("has_any_word", ["b"], "c2")],
                            [("c1", "A", None), ("c2", "B", "n2"), ("c0", "Other", None), ("cn", "No Response", None)], "c0",
                            wait={"type": "msg", "timeout": {"seconds": 300, "category_uuid": "cn"}}),
                    _msg("n2", "hi")])
        rows = _rows_of(sw)
        got = [(r.row_id, r.type, [_cond(e) for e in r.edges]) for r in rows]
        full = ("@input.text", "has_any_word")
        want_rep = [("wait_for.input_text", "wait_for_response", [("start", "", "", "", "")]),
                    ("exit.wait_for.input_text", "loose_exit", [("wait_for.input_text", "a", full[0], full[1], "A")]),
                    ("msg.hi", "send_message", [("wait_for.input_text", "b", full[0], full[1], "B")])]
        want_old = [want_rep[0], want_rep[2]]
        rnd = _flow([{"uuid": "n1", "actions": [],
                      "router": {"type": "random", "categories": [{"uuid": "c1", "name": "Bucket 1", "exit_uuid": "e1"},
                                                                  {"uuid": "c2", "name": "Bucket 2", "exit_uuid": "e2"}]},
                      "exits": [{"uuid": "e1", "destination_uuid": "n2"}, {"uuid": "e2", "destination_uuid": None}]},
                     _msg("n2", "hi")])
        got_r = [(r.row_id, r.type, [_cond(e) for e in r.edges]) for r in _rows_of(rnd)]
        want_r_rep = [("random", "split_random", [("start", "", "", "", "")]),
                      ("msg.hi", "send_message", [("random", "Bucket 1", "", "", "")]),
                      ("exit.random", "loose_exit", [("random", "Bucket 2", "", "", "")])]
        want_r_old = want_r_rep[:2]
        # the kinds of node whose categories come with the row itself: never a loose_exit row
        ef = _flow([{"uuid": "n1", "actions": [{"uuid": "a1", "type": "enter_flow", "flow": {"name": "child", "uuid": "fl-uuid"}}],
                     "router": {"type": "switch", "operand": "@child.run.status", "default_category_uuid": "c2",
                                "cases": [{"uuid": "k1", "type": "has_only_text", "arguments": ["completed"], "category_uuid": "c1"},
                                          {"uuid": "k2", "type": "has_only_text", "arguments": ["expired"], "category_uuid": "c2"}],
                                "categories": [{"uuid": "c1", "name": "Complete", "exit_uuid": "e1"},
                                               {"uuid": "c2", "name": "Expired", "exit_uuid": "e2"}]},
                     "exits": [{"uuid": "e1", "destination_uuid": None}, {"uuid": "e2", "destination_uuid": None}]}])
        got_e = [r.type for r in _rows_of(ef)]
        # SwitchRouter.get_exit_edge_pairs on an unconnected No Response category
        cat = RouterCategory("No Response", None)
        from rpft.rapidpro.models.routers import SwitchRouter

        r = SwitchRouter("@input.text", wait_timeout=300, no_response_category=cat)
        nr_pairs = [_cond(e) for ex, e in r.get_exit_edge_pairs("row") if ex is cat.exit]
    except Refuse:
        raise
    except Exception as e:
        raise Refuse(f"cannot probe the export of cases that lead nowhere: {type(e).__name__}: {e}")
    if got_e != ["start_new_flow"]:
        raise Refuse(f"an enter_flow node without connected exits is exported as rows of type {got_e!r}")
    if got == want_rep and got_r == want_r_rep and nr_pairs == []:
        loose = True
    elif got == want_old and got_r == want_r_old and nr_pairs == [("row", "No Response", "", "", "")]:
        loose = False
    else:
        raise Refuse(f"cases that lead nowhere are exported as {got!r} / {got_r!r} / no-response pairs {nr_pairs!r}: "
                     "a behaviour the C04 model has no mirror for")
    out.append(f"Definition loose_exit_rows : bool := {coq_bool(loose)}.")

    # ---- 3b. several cases of one router sharing a category
    try:
        from rpft.rapidpro.models.routers import RouterCase

        cp, cu, co = RouterCategory("Positive", "d1"), RouterCategory("Unsure", "d2"), RouterCategory("Other", None)
        r = SwitchRouter("@input.text", wait_timeout=0, default_category=co, categories=[cp, cu],
                         cases=[RouterCase("has_any_word", ["yes"], cp.uuid), RouterCase("has_any_word", ["maybe"], cu.uuid),
                                RouterCase("has_any_word", ["ok"], cp.uuid), RouterCase("has_any_word", ["lost"], "no-such-category")])
        got_p = [(ex.destination_uuid, e.condition.value, e.condition.name) for ex, e in r.get_exit_edge_pairs("row")]
    except Exception as e:
        raise Refuse(f"cannot probe SwitchRouter.get_exit_edge_pairs on cases sharing a category: {type(e).__name__}: {e}")
    if got_p == [("d1", "yes", "Positive"), ("d2", "maybe", "Unsure"), ("d1", "ok", "Positive"), (None, "", "")]:
        per_case = True       # one edge per case, in case order
    elif got_p == [("d1", "yes", "Positive"), ("d2", "maybe", "Unsure"), (None, "", "")]:
        per_case = False      # one edge per category (its first case), in category order
    else:
        raise Refuse(f"get_exit_edge_pairs of a router whose cases share a category gives {got_p!r}: "
                     "a behaviour the C04 model has no mirror for")
    out.append(f"Definition pairs_follow_cases : bool := {coq_bool(per_case)}.")

    # ---- 4. webhook headers: one packed cell or spread columns
    try:
        from rpft.rapidpro.models.containers import FlowContainer

        hook = _flow([{"uuid": "n1", "actions": [{"uuid": "a1", "type": "call_webhook", "url": "http://x", "method": "GET", "body": "b",
                                                  "headers": {"k": "v", "k2": "v;2"}, "result_name": "res"}],
                       "router": {"type": "switch", "operand": "@results.res.category", "default_category_uuid": "c2",
                                  "cases": [{"uuid": "k1", "type": "has_only_text", "arguments": ["Success"], "category_uuid": "c1"}],
                                  "categories": [{"uuid": "c1", "name": "Success", "exit_uuid": "e1"},
                                                 {"uuid": "c2", "name": "Failure", "exit_uuid": "e2"}]},
                       "exits": [{"uuid": "e1", "destination_uuid": None}, {"uuid": "e2", "destination_uuid": None}]}])
        rds = FlowContainer.from_dict(hook).to_row_data_sheet()
        cells = rds.row_parser.unparse_row(rds.rows[0], rds.target_headers, rds.excluded_headers)
        hc = {k: v for k, v in cells.items() if k.startswith("webhook.headers")}
        declared = "webhook.headers" in rds.target_headers
    except Exception as e:
        raise Refuse(f"cannot probe the export of webhook headers: {type(e).__name__}: {e}")
    if hc == {"webhook.headers": "k;v|k2;v\\;2"} and declared:
        packed = True
    elif hc == {"webhook.headers.1.1": "k", "webhook.headers.1.2": "v", "webhook.headers.2.1": "k2", "webhook.headers.2.2": "v;2"} \
            and not declared:
        packed = False
    else:
        raise Refuse(f"webhook headers are exported as {hc!r} (target header declared: {declared}): "
                     "a behaviour the C04 model has no mirror for")
    out.append(f"Definition webhook_headers_packed : bool := {coq_bool(packed)}.")

    # ---- 6. all-blank edges that are not the first edge of their row (padding of a rectangular sheet)
    try:
        import tablib
        from rpft.parsers.creation.flowparser import FlowParser
        from rpft.rapidpro.models.containers import RapidProContainer

        def compile_rows(headers, rows):
            t = tablib.Dataset(headers=headers)
            for r in rows:
                t.append(r)
            flow = FlowParser(RapidProContainer(), "probe", t).parse().render()
            return flow["nodes"]

        h = ["row_id", "type", "edges.1.from", "edges.1.condition", "edges.2.from", "edges.2.condition", "message_text"]
        # ordinary row: the blank second edge of row 3 is dropped on every tree (else row 2 would be rewired to row 3's node)
        nodes = compile_rows(h, [["1", "wait_for_response", "start", "", "", "", ""],
                                 ["2", "send_message", "1", "a", "", "", "A"],
                                 ["3", "send_message", "1", "b", "", "", "B"],
                                 ["4", "go_to", "2", "", "", "", "1"]])
        by_text = {n["actions"][0]["text"]: n for n in nodes if n.get("actions")}
        first = nodes[0]["uuid"]
        a_dest, b_dest = by_text["A"]["exits"][0]["destination_uuid"], by_text["B"]["exits"][0]["destination_uuid"]
    except SystemExit:
        raise Refuse("FlowParser rejects the padded probe sheet")
    except Exception as e:
        raise Refuse(f"cannot probe FlowParser on a padded sheet: {type(e).__name__}: {e}")
    if a_dest != first:
        raise Refuse("FlowParser: the go_to row of the padded probe sheet does not connect its source row")
    if b_dest is None:
        dropped = True        # the blank second edge of the go_to row is no edge
    elif b_dest == first:
        dropped = False       # it is applied: the row before the go_to row is rewired as well
    else:
        raise Refuse(f"FlowParser: the row before a padded go_to row leads to {b_dest!r}: a behaviour the C04 model has no mirror for")
    out.append(f"Definition blank_edges_dropped : bool := {coq_bool(dropped)}.")

    # ---- 7. a has_group condition on an edge of a row that is not a split_by_group row
    def compile_container(headers, rows):
        t = tablib.Dataset(headers=headers)
        for r in rows:
            t.append(r)
        container = RapidProContainer()
        FlowParser(container, "probe", t).parse()
        return container.render()["flows"][0]["nodes"]     # render() validates: group uuids are recorded and assigned

    try:
        h7 = ["row_id", "type", "from", "condition", "condition_type", "message_text"]
        try:
            nodes7 = compile_container(h7, [["1", "wait_for_response", "start", "", "", ""],
                                            ["2", "send_message", "1", "my group", "has_group", "in"]])
            args7 = [k["arguments"] for k in nodes7[0]["router"]["cases"]]
        except IndexError:
            args7 = "IndexError"
        nodes7b = compile_container(h7, [["1", "split_by_group", "start", "", "", "my group"],
                                         ["2", "send_message", "1", "my group", "", "in"]])
        args7b = [k["arguments"] for k in nodes7b[0]["router"]["cases"]]
    except SystemExit:
        raise Refuse("FlowParser rejects the has_group probe sheet")
    except Exception as e:
        raise Refuse(f"cannot probe FlowParser on a has_group edge: {type(e).__name__}: {e}")
    if not (len(args7b) == 1 and len(args7b[0]) == 2 and args7b[0][0] and args7b[0][1] == "my group"):
        raise Refuse(f"a split_by_group edge compiles to the case arguments {args7b!r}")
    if args7 == "IndexError":
        by_name7 = False      # the case gets the single argument [name]: record_global_uuids raises IndexError
    elif isinstance(args7, list) and len(args7) == 1 and len(args7[0]) == 2 and args7[0][1] == "my group" and args7[0][0]:
        by_name7 = True       # [uuid, name], the uuid filled in from the name
    else:
        raise Refuse(f"a has_group edge of a wait_for_response row compiles to the case arguments {args7!r}: "
                     "a behaviour the C04 model has no mirror for")
    out.append(f"Definition has_group_edges_by_name : bool := {coq_bool(by_name7)}.")
    notes.append(f"C04: probes group_split_without_cases_exports={gsplit} split_rows_carry_save_name={keeps_name} "
                 f"loose_exit_rows={loose} pairs_follow_cases={per_case} webhook_headers_packed={packed} "
                 f"blank_edges_dropped={dropped} has_group_edges_by_name={by_name7}")


GENERATORS = [tables_c04]
