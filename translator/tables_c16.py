"""C16 / E3 tables: what the mini-Jinja model needs to know about the two environments
that CellParser() really constructs, beyond the class of `undefined` (gen_tables.tables_env).

* env_globals           names that are defined in every render without being in the context
                        (Environment.globals of both environments) -> not "missing" names
* py_attr_names         public attribute names of the Python types a context value can have:
                        `x.items` is a bound method, not a missing field -> outside the model
* *_probe_*             BEHAVIOURAL classification of the undefined-variable policy, taken on a
                        freshly constructed CellParser() through parse_as_string itself (so an
                        `undefined=` swapped after construction, a lenient subclass of
                        StrictUndefined, a `finalize` hook or a defaulting global are all seen):
                        ProbeError | ProbeBlank | ProbeOther
* env_repr_fails, native_repr_fails, native_result_checked
                        what the code does with the Undefined object of an unknown name that
                        nothing forces because it sits inside a list / tuple / dict: printed by
                        repr() (error or the text "Undefined"), handed back by a native template
                        (error or the object) - probed through parse_as_string, fail-closed
* falsy_include_if_skips_evaluation
                        a row whose include_if yields a falsy OBJECT that is not False ({@ none @},
                        {@ 0 @}, {@ [] @}, {@ {} @}) is excluded; are its other cells instantiated
                        first (false: SheetParser compares str(value) with "false") or not (true:
                        it reads the value as RowParser will)?  Probed through FlowParser on ordinary
                        rows and on insert_as_block rows, an unknown name in another cell; controls:
                        the row really is excluded, a truthy object does not protect it, the literal
                        FALSE does.  Mixed answers -> Refuse.
"""
from gen_tables import Refuse, coq_str, coq_list

SENTINEL = "zq_missing_name"


def tables_c16(out, notes):
    import logging

    from rpft.parsers.common.cellparser import CellParser

    cp = CellParser()
    g = sorted(set(cp.env.globals) | set(cp.native_env.globals))
    if not all(isinstance(x, str) for x in g):
        raise Refuse(f"non-string global name in {g!r}")
    out.append(f"Definition env_globals : list str := {coq_list(coq_str(x) for x in g)}.")

    types = [dict, str, list, int, bool, range, type(None), tuple]
    attrs = sorted({a for t in types for a in dir(t) if not a.startswith("_")})
    out.append(f"Definition py_attr_names : list str := {coq_list(coq_str(x) for x in attrs)}.")

    # ---- behavioural probes (CLI semantics: a CRITICAL record is an error)
    class Crit(Exception):
        pass

    class H(logging.Handler):
        def emit(self, record):
            if record.levelno >= logging.CRITICAL:
                raise Crit(record.getMessage())

    lg = logging.getLogger("main")
    h = H()
    lg.addHandler(h)
    old_level = lg.level
    lg.setLevel(logging.CRITICAL)

    def classify(template, ctx, blank_values):
        """ProbeError: the call fails; ProbeBlank: it returns one of blank_values (the
        reference was replaced by nothing); ProbeOther: anything else."""
        fresh = CellParser()
        try:
            r = fresh.parse_as_string(template, ctx)
        except (Crit, Exception, SystemExit):
            return "ProbeError"
        try:
            import jinja2

            if isinstance(r, jinja2.Undefined):
                # native template: the object itself comes back; classify by what forcing it does
                try:
                    s = str(r)
                    b = bool(r)
                    list(r)
                except Exception:
                    return "ProbeError"
                return "ProbeBlank" if (s == "" and b is False) else "ProbeOther"
            if r in blank_values:
                return "ProbeBlank"
        except Exception:
            return "ProbeOther"
        return "ProbeOther"

    try:
        ctx = {"zq_defined": "v", "zq_obj": {"k": "v"}, "zq_list": ["e"]}
        probes = [
            ("env_probe_bare", "{{ %s }}" % SENTINEL, [""]),
            ("env_probe_in_text", "a{{ %s }}b" % SENTINEL, ["ab"]),
            ("env_probe_if", "{%% if %s %%}T{%% else %%}F{%% endif %%}" % SENTINEL, ["F"]),
            ("env_probe_for", "[{%% for x in %s %%}x{%% endfor %%}]" % SENTINEL, ["[]"]),
            ("env_probe_eq", "{{ %s == 'v' }}" % SENTINEL, ["False"]),
            ("env_probe_not", "{{ not %s }}" % SENTINEL, ["True"]),
            ("env_probe_field", "a{{ zq_obj.%s }}b" % SENTINEL, ["ab"]),
            ("env_probe_index", "a{{ zq_list[7] }}b", ["ab"]),
            ("native_probe_bare", "{@ %s @}" % SENTINEL, []),
            ("native_probe_field", "{@ zq_obj.%s @}" % SENTINEL, []),
            ("native_probe_not", "{@ not %s @}" % SENTINEL, [True]),
        ]
        out.append("Inductive probe_result := ProbeError | ProbeBlank | ProbeOther.")
        for name, tmpl, blanks in probes:
            out.append(f"Definition {name} : probe_result := {classify(tmpl, ctx, blanks)}.")
        # a defined name must still render as its value (guards against a probe that errors
        # for an unrelated reason, e.g. the package not rendering at all)
        ok = CellParser().parse_as_string("a{{ zq_defined }}b", ctx) == "ab".replace("ab", "avb")
        nat = CellParser().parse_as_string("{@ zq_list @}", ctx) == ["e"]
        if not (ok and nat):
            raise Refuse("control probe failed: a defined name does not render as its value")
        out.append("Definition probe_control_ok : bool := true.")
        fin = cp.env.finalize is None and cp.native_env.finalize is None
        out.append(f"Definition env_finalize_is_none : bool := {'true' if fin else 'false'}.")

        # ---- what happens to an Undefined object that NOTHING forces (inside a container)
        # env_repr_fails / native_repr_fails: printing a list / tuple / dict that holds the
        #   Undefined object of an unknown name (str(container) shows its elements with repr()):
        #   an error (true) or the text of jinja2's repr, "Undefined" (false).  The native
        #   environment's class is probed through the `string` filter, which prints inside the
        #   engine whatever is done with the result afterwards.
        # native_result_checked: does parse_as_string fail when the result of a {@ @} template
        #   is, or holds at some depth, an Undefined object (true), or does it hand it back (false)
        # Anything else (some shapes guarded and others not, a different repr text) is not
        # something the model can follow: Refuse.
        def shape_probe(what, cases):
            seen = set()
            for tmpl, leaked in cases:
                fresh = CellParser()
                try:
                    r = fresh.parse_as_string(tmpl, ctx)
                except (Crit, Exception, SystemExit):
                    seen.add("error")
                    continue
                seen.add("leak" if leaked(r) else f"other:{tmpl!r} -> {r!r:.60}")
            if seen == {"error"}:
                return True
            if seen == {"leak"}:
                return False
            raise Refuse(f"{what}: the probes disagree or give something unexpected: {sorted(seen)}")

        S = SENTINEL
        text_cases = [("{{ [%s] }}" % S, "[Undefined]"), ("{{ (%s, 1) }}" % S, "(Undefined, 1)"),
                      ("{{ {'a': %s} }}" % S, "{'a': Undefined}"), ("{{ [1, [(%s,)]] }}" % S, "[1, [(Undefined,)]]"),
                      ("a{{ ['b', %s] }}" % S, "a['b', Undefined]"),
                      # the Undefined object of a missing FIELD / of an index out of range
                      ("{{ [zq_obj.%s] }}" % S, "[Undefined]"), ("{{ (zq_list[7],) }}", "(Undefined,)")]
        env_repr = shape_probe("env_repr_fails", [(t, (lambda r, w=w: r == w)) for t, w in text_cases])
        nat_cases = [("{@ [%s]|string @}" % S, "[Undefined]"), ("{@ (%s, 1)|string @}" % S, "(Undefined, 1)"),
                     ("{@ {'a': %s}|string @}" % S, "{'a': Undefined}"), ("{@ [zq_obj.%s]|string @}" % S, "[Undefined]")]
        nat_repr = shape_probe("native_repr_fails", [(t, (lambda r, w=w: r == w)) for t, w in nat_cases])
        # cross-check with the classes themselves
        import jinja2

        def class_repr_fails(name, env):
            try:
                r = repr(env.undefined(name=S))
            except jinja2.UndefinedError:
                return True
            except Exception as e:
                raise Refuse(f"repr of the undefined class of {name} raises {e!r}")
            if r == "Undefined":
                return False
            raise Refuse(f"repr of the undefined class of {name} is {r!r}: neither 'Undefined' nor an UndefinedError")

        for name, env, beh in (("env", cp.env, env_repr), ("native_env", cp.native_env, nat_repr)):
            c = class_repr_fails(name, env)
            if c != beh:
                raise Refuse(f"{name}: repr of the undefined class fails={c} but rendering a container says {beh}")

        def holds_undef(v):
            if isinstance(v, jinja2.Undefined):
                return True
            if isinstance(v, (list, tuple)):
                return any(holds_undef(x) for x in v)
            if isinstance(v, dict):
                return any(holds_undef(x) for x in v.values())
            return False

        obj_cases = ["{@ %s @}" % S, "{@ [%s] @}" % S, "{@ (%s, 1) @}" % S, "{@ {'a': %s} @}" % S,
                     "{@ [1, [(%s,)]] @}" % S, "{@ {'a': ['b', {'c': %s}]} @}" % S, "{@ ['b', zq_obj.%s] @}" % S,
                     "{@ (zq_list[7],) @}"]
        nat_check = shape_probe("native_result_checked", [(t, holds_undef) for t in obj_cases])
        # control: containers of DEFINED values come back as they are, whatever the flags
        for t, want in [("{@ [zq_defined, (1, {'a': zq_list})] @}", ["v", (1, {"a": ["e"]})]),
                        ("{{ [zq_defined, (1, {'a': zq_list})] }}", "['v', (1, {'a': ['e']})]"),
                        ("{{ (zq_defined,) }}", "('v',)"), ("{@ () @}", ()), ("{@ {} @}", {})]:
            try:
                got = CellParser().parse_as_string(t, ctx)
            except (Crit, Exception, SystemExit) as e:
                raise Refuse(f"control probe {t!r} fails: {e}")
            if got != want or type(got) is not type(want):
                raise Refuse(f"control probe {t!r} gives {got!r}, expected {want!r}")
        out.append(f"Definition env_repr_fails : bool := {'true' if env_repr else 'false'}.")
        out.append(f"Definition native_repr_fails : bool := {'true' if nat_repr else 'false'}.")
        out.append(f"Definition native_result_checked : bool := {'true' if nat_check else 'false'}.")
    finally:
        lg.removeHandler(h)
        lg.setLevel(old_level)
    notes.append("C16: undefined-variable probes taken through CellParser().parse_as_string with sentinel " + SENTINEL)
    tables_falsy_include_if(out, notes)


def tables_falsy_include_if(out, notes):
    import logging

    import tablib
    from rpft.parsers.creation.flowparser import FlowParser
    from rpft.rapidpro.models.containers import RapidProContainer

    class Crit(Exception):
        pass

    class H(logging.Handler):
        def emit(self, record):
            if record.levelno >= logging.CRITICAL:
                raise Crit(record.getMessage())

    class NoBlocks:
        """stands in for the ContentIndexParser of an insert_as_block row: reaching it means the row was included"""

        def get_node_group(self, *a, **k):
            raise Crit("probe: the insert row was included")

    head = "row_id,type,from,include_if,loop_variable,message_text,template_arguments\n"

    def run(rows):
        csvtext = head + ",send_message,start,,,hi,\n" + "".join(rows) + ",send_message,,,,tail,\n"
        try:
            fp = FlowParser(RapidProContainer(), "probe", tablib.import_set(csvtext, format="csv"), context={"zq_defined": "v"},
                            content_index_parser=NoBlocks())
            flow = fp.parse().render()
            return [a.get("text") for n in flow["nodes"] for a in n["actions"] if a["type"] == "send_msg"]
        except (Crit, SystemExit):
            return "stops"
        except Exception as e:
            return "stops:" + type(e).__name__

    lg = logging.getLogger("main")
    h = H()
    lg.addHandler(h)
    old_level = lg.level
    lg.setLevel(logging.CRITICAL)
    try:
        falsy = ["{@ none @}", "{@ 0 @}", "{@ [] @}", "{@ {} @}"]
        seen = set()
        for inc in falsy:
            # control: with every name defined the row is excluded (so it is a row "skipped through a false include_if")
            if run([f',send_message,,"{inc}",,m {{{{ zq_defined }}}},\n']) != ["hi", "tail"]:
                raise Refuse(f"falsy_include_if: a row with include_if {inc} is not excluded")
            r1 = run([f',send_message,,"{inc}",,m {{{{ {SENTINEL} }}}},\n'])
            r2 = run([f',insert_as_block,,"{inc}",,blk,{{{{ {SENTINEL} }}}}\n'])
            for r in (r1, r2):
                seen.add("skipped" if r == ["hi", "tail"] else "evaluated" if isinstance(r, str) and r.startswith("stops") else f"other:{r!r:.60}")
        # controls: the literal FALSE protects the row, a truthy object does not
        if run([f",send_message,,FALSE,,m {{{{ {SENTINEL} }}}},\n"]) != ["hi", "tail"]:
            raise Refuse("falsy_include_if: a row under the literal FALSE is evaluated")
        if run([f',send_message,,"{{@ 1 @}}",,m {{{{ {SENTINEL} }}}},\n']) != "stops":
            raise Refuse("falsy_include_if: an unknown name in an INCLUDED row does not stop the run")
        if seen == {"skipped"}:
            val = True
        elif seen == {"evaluated"}:
            val = False
        else:
            raise Refuse(f"falsy_include_if: the probes disagree or give something unexpected: {sorted(seen)}")
        out.append(f"Definition falsy_include_if_skips_evaluation : bool := {'true' if val else 'false'}.")
    finally:
        lg.removeHandler(h)
        lg.setLevel(old_level)
    notes.append(f"C16: rows excluded by a falsy include_if object are {'not ' if val else ''}instantiated first (probed through FlowParser)")


GENERATORS = [tables_c16]
