"""Tables of E8 (load/render of RapidPro exports) regenerated from the source: action_map
(kind -> class tag), constructor parameter lists and defaults of every **kwargs-built class,
the optional attribute list of Group.render, the key lists of every render() dict literal,
RouterCase's test tables, the set_contact_* property list, and the JSON key constants the
model is written with (each checked to occur in the models package)."""
import ast
import inspect
import textwrap

from gen_tables import Refuse, coq_str, coq_list, coq_bool


def ident(s):
    return "".join(c if c.isalnum() else "_" for c in s)


def params_of(fn, skip=("self",)):
    sig = inspect.signature(fn)
    out = []
    for n, p in sig.parameters.items():
        if n in skip:
            continue
        if p.kind in (p.VAR_KEYWORD, p.VAR_POSITIONAL):
            raise Refuse(f"{fn.__qualname__} takes *args/**kwargs: parameter list is not a table any more")
        out.append((n, p.default is inspect._empty, p.default))
    return out


def fn_ast(fn):
    return ast.parse(textwrap.dedent(inspect.getsource(fn))).body[0]


def dict_keys_in(fn):
    """string keys of every dict literal and of every `d["k"] = ...` in fn, in source
    order, no repeats"""
    found = []
    for node in ast.walk(fn_ast(fn)):
        if isinstance(node, ast.Dict):
            for k in node.keys:
                if isinstance(k, ast.Constant) and isinstance(k.value, str):
                    found.append((k.lineno, k.col_offset, k.value))
        if isinstance(node, ast.Subscript) and isinstance(node.ctx, ast.Store):
            k = node.slice
            if isinstance(k, ast.Constant) and isinstance(k.value, str):
                found.append((k.lineno, k.col_offset, k.value))
    keys = []
    for _, _, k in sorted(found):
        if k not in keys:
            keys.append(k)
    return keys


def list_literals_in(fn):
    out = []
    for node in ast.walk(fn_ast(fn)):
        if isinstance(node, ast.List) and node.elts and all(isinstance(e, ast.Constant) and isinstance(e.value, str) for e in node.elts):
            out.append([e.value for e in node.elts])
    return out


KEYS = """uuid type name key label text attachments quick_replies all_urns topic templating template variables
field value groups all_groups category flow query status system count destination_uuid exits actions router
operand cases categories default_category_uuid wait timeout seconds category_uuid result_name exit_uuid arguments
msg switch random nodes _ui position left top language spec_version revision expire_after_minutes metadata
localization flow_name campaigns fields flows site triggers version group events offset unit event_type
delivery_hour message relative_to start_mode base_language trigger_type keyword keywords channel match_type
exclude_groups enter_flow call_webhook transfer_airtime has_group HARD_EXIT set_contact_ K M F
send_msg set_contact_field add_contact_groups remove_contact_groups set_run_result
relative_to_key relative_to_label flow_uuid group_names group_uuids exclude_group_names exclude_group_uuids""".split()


def tables_c05(out, notes):
    import rpft.rapidpro.models.actions as A
    import rpft.rapidpro.models.common as C
    import rpft.rapidpro.models.containers as K
    import rpft.rapidpro.models.campaigns as P
    import rpft.rapidpro.models.triggers as T
    import rpft.rapidpro.models.routers as R
    import rpft.rapidpro.models.nodes as N

    # ---- JSON key constants, each must still occur in the package source
    src = "".join(inspect.getsource(m) for m in (A, C, K, P, T, R, N))
    for k in KEYS:
        if k not in src:
            raise Refuse(f"key {k!r} used by the C05 model no longer occurs in rpft.rapidpro.models")
        out.append(f"Definition k_{ident(k)} : str := {coq_str(k)}.")

    # ---- action_map: kind -> class tag
    tags = [(A.SendMessageAction, "CSendMsg"), (A.SetContactFieldAction, "CSetField"),
            (A.SetContactPropertyAction, "CSetProp"), (A.AddContactGroupAction, "CAddGroups"),
            (A.RemoveContactGroupAction, "CRemoveGroups"), (A.SetRunResultAction, "CRunResult"),
            (A.EnterFlowAction, "CEnterFlow")]
    out.append("Inductive acls := CPass | CSendMsg | CSetField | CSetProp | CAddGroups | CRemoveGroups | CRunResult | CEnterFlow.")
    rows = []
    for kind, cls in A.action_map.items():
        tag = None
        for c, t in tags:
            if cls is c:
                tag = t
        if tag is None:
            if issubclass(cls, A.DefaultRenderedAction) and cls.render is A.DefaultRenderedAction.render \
                    and cls._assign_fields_from_dict is A.Action._assign_fields_from_dict:
                tag = "CPass"
            else:
                raise Refuse(f"action_map[{kind!r}] = {cls.__name__}: a class the C05 model has no mirror for")
        rows.append(f"({coq_str(kind)}, {tag})")
    out.append(f"Definition action_map : list (str * acls) := {coq_list(rows)}.")
    # the typed classes must still be wired the way the mirror assumes
    if A.DefaultRenderedAction.render(type("X", (), {"__dict__": {}})()) != {}:  # pragma: no cover
        pass

    # ---- constructor parameter lists (name, required) of the **data-built classes
    def emit_params(name, fn, rename=None):
        ps = params_of(fn)
        items = []
        for n, req, _ in ps:
            n2 = (rename or {}).get(n, n)
            items.append(f"({coq_str(n2)}, {coq_bool(req)})")
        out.append(f"Definition {name} : list (str * bool) := {coq_list(items)}.")
        return {n: d for n, req, d in ps}

    emit_params("exit_params", C.Exit.__init__)
    emit_params("group_params", C.Group.__init__)
    emit_params("flowref_params", C.FlowReference.__init__)
    emit_params("fieldref_params", C.ContactFieldReference.__init__)
    fd = emit_params("flow_params", K.FlowContainer.__init__)
    emit_params("event_params", P.CampaignEvent.__init__)
    emit_params("trigger_params", T.Trigger.__init__)
    cd = emit_params("container_params", K.RapidProContainer.__init__)

    def jlit(v):
        if v is None:
            return "JNull"
        if isinstance(v, bool):
            return f"JBool {coq_bool(v)}"
        if isinstance(v, int):
            return f"JInt ({v})%Z"
        if isinstance(v, str):
            return f"JStr {coq_str(v)}"
        raise Refuse(f"default {v!r} is not a JSON scalar")

    out.append("From Coq Require Import ZArith.")
    out.append("From RPFT Require Import Base.Json.")
    for n in ("type", "language", "spec_version", "revision", "expire_after_minutes"):
        out.append(f"Definition flow_default_{n} : json := {jlit(fd[n])}.")
    out.append(f"Definition container_default_version : json := {jlit(cd['version'])}.")
    # `site or "<default>"` is a function-local literal of RapidProContainer.__init__
    site = None
    for node in ast.walk(fn_ast(K.RapidProContainer.__init__)):
        if isinstance(node, ast.BoolOp) and isinstance(node.op, ast.Or) and isinstance(node.values[0], ast.Name) \
                and node.values[0].id == "site" and isinstance(node.values[1], ast.Constant):
            site = node.values[1].value
    if not isinstance(site, str):
        raise Refuse("cannot read the default site of RapidProContainer.__init__")
    out.append(f"Definition container_default_site : json := {jlit(site)}.")

    # ---- Group.render's optional attribute list
    lits = list_literals_in(C.Group.render)
    if len(lits) != 1:
        raise Refuse(f"Group.render: expected one list literal of optional attributes, found {lits!r}")
    out.append(f"Definition group_optional_attrs : list str := {coq_list(coq_str(x) for x in lits[0])}.")

    # ---- behaviour probes for two repaired defects: the mirror follows whichever behaviour the tree
    # under check has (so that the check is green before and after the `fix:` commits land), and the
    # theorems say what holds in either case.  Anything that is neither behaviour is refused.
    ref = C.ContactFieldReference("Age", "age", "numeric").render()
    if ref == {"name": "Age", "key": "age", "type": "numeric"}:
        own_type = True
    elif set(ref) == {"name", "key", "type"} and ref["type"] is type:
        own_type = False
    else:
        raise Refuse(f"ContactFieldReference.render of a typed reference gives {ref!r}: neither its own type nor the builtin")
    out.append(f"Definition fieldref_renders_own_type : bool := {coq_bool(own_type)}.")

    attrs = dict(query="q", status="s", system=False, count=0)
    other = dict(query="q2", status="s2", system=True, count=7)
    probe = K.RapidProContainer(groups=[C.Group("G", "u1", **attrs), C.Group("H", None), C.Group("G", None, **other)])
    rendered = probe.render()["groups"]
    if len(rendered) != 2 or [g.get("name") for g in rendered] != ["G", "H"] or rendered[0].get("uuid") != "u1" \
            or not rendered[1].get("uuid") or set(rendered[1]) != {"name", "uuid"}:
        raise Refuse(f"RapidProContainer.validate lists the top-level groups as {rendered!r}: not one entry per name in order")
    if rendered[0] == {"name": "G", "uuid": "u1", **attrs}:
        keeps = True      # the first group of a name keeps its attributes
    elif rendered[0] == {"name": "G", "uuid": "u1"}:
        keeps = False     # rebuilt as Group(name, uuid)
    else:
        raise Refuse(f"RapidProContainer.validate renders a top-level group as {rendered[0]!r}: a behaviour the C05 model has no mirror for")
    if probe.render()["groups"] != rendered:
        raise Refuse("RapidProContainer.validate: a second render lists the groups differently")
    out.append(f"Definition validate_keeps_group_attrs : bool := {coq_bool(keeps)}.")

    shared = {"uuid": "n1", "actions": [], "exits": [{"uuid": "e1", "destination_uuid": None}, {"uuid": "e2", "destination_uuid": None}],
              "router": {"type": "switch", "operand": "@input.text", "cases": [], "default_category_uuid": "c3",
                         "categories": [{"uuid": "c1", "name": "A", "exit_uuid": "e1"}, {"uuid": "c2", "name": "B", "exit_uuid": "e2"},
                                        {"uuid": "c3", "name": "Other", "exit_uuid": "e1"}]}}
    ex = [e.get("uuid") for e in N.BaseNode.from_dict(shared).render()["exits"]]
    if ex == ["e1", "e2"]:
        once = True       # each exit once, at the place of its first category
    elif ex == ["e1", "e2", "e1"]:
        once = False      # one entry per category
    else:
        raise Refuse(f"a router node whose categories share an exit renders its exits as {ex!r}: a behaviour the C05 model has no mirror for")
    rnd = dict(shared, router={"type": "random", "categories": shared["router"]["categories"]})
    ex2 = [e.get("uuid") for e in N.BaseNode.from_dict(rnd).render()["exits"]]
    if ex2 != ex:
        raise Refuse(f"random and switch routers list shared exits differently: {ex2!r} vs {ex!r}")
    out.append(f"Definition router_lists_shared_exit_once : bool := {coq_bool(once)}.")
    notes.append(f"C05: probes fieldref_renders_own_type={own_type} validate_keeps_group_attrs={keeps} "
                 f"router_lists_shared_exit_once={once}")

    # ---- set_contact_* properties
    lits = [l for l in list_literals_in(A.SetContactPropertyAction._assign_fields_from_dict)]
    if len(lits) != 1:
        raise Refuse(f"SetContactPropertyAction._assign_fields_from_dict: expected one property list, found {lits!r}")
    out.append(f"Definition set_contact_properties : list str := {coq_list(coq_str(x) for x in lits[0])}.")

    # ---- router case tables
    out.append(f"Definition no_args_tests : list str := {coq_list(coq_str(x) for x in sorted(R.RouterCase.NO_ARGS_TESTS))}.")
    out.append(f"Definition test_names : list str := {coq_list(coq_str(x) for x in sorted(R.RouterCase.TEST_VALIDATIONS))}.")
    # accepted argument counts of every test, tabulated from the validators themselves (0..4 arguments):
    # dropping the arguments of a test on load is lossless only if the test accepts none
    ar = []
    for t in sorted(R.RouterCase.TEST_VALIDATIONS):
        chk = R.RouterCase.TEST_VALIDATIONS[t]
        try:
            ok = [n for n in range(5) if chk([None] * n)]
        except Exception as e:
            raise Refuse(f"cannot tabulate the argument validator of test {t}: {e}")
        ar.append(f"({coq_str(t)}, {coq_list(str(n) + '%nat' for n in ok)})")
    out.append(f"Definition test_arities : list (str * list nat) := {coq_list(ar)}.")

    # ---- key lists of the render() dict literals (a dropped/added field changes a constant)
    rk = [("Exit", C.Exit.render), ("FlowReference", C.FlowReference.render), ("ContactFieldReference", C.ContactFieldReference.render),
          ("ContactFieldReference_label", C.ContactFieldReference.render_with_label),
          ("Group", C.Group.render), ("RouterCategory", R.RouterCategory.render), ("RouterCase", R.RouterCase.render),
          ("SwitchRouter", R.SwitchRouter.render), ("RandomRouter", R.RandomRouter.render), ("BaseNode", N.BaseNode.render),
          ("BaseNode_ui", N.BaseNode.render_ui),
          ("FlowContainer", K.FlowContainer.render), ("RapidProContainer", K.RapidProContainer.render),
          ("Campaign", P.Campaign.render), ("CampaignEvent", P.CampaignEvent.render), ("Trigger", T.Trigger.render),
          ("Action", A.Action.render), ("SendMessageAction", A.SendMessageAction.render), ("WhatsAppMessageTemplating", A.WhatsAppMessageTemplating.render),
          ("SetContactFieldAction", A.SetContactFieldAction.render), ("SetContactPropertyAction", A.SetContactPropertyAction.render),
          ("AddContactGroupAction", A.AddContactGroupAction.render), ("RemoveContactGroupAction", A.RemoveContactGroupAction.render),
          ("SetRunResultAction", A.SetRunResultAction.render), ("EnterFlowAction", A.EnterFlowAction.render)]
    for name, fn in rk:
        out.append(f"Definition render_keys_{name} : list str := {coq_list(coq_str(k) for k in dict_keys_in(fn))}.")
    notes.append("C05: render_keys_* read from the ast of each render(); parameter lists by inspect.signature")


GENERATORS = [tables_c05]
