"""C10 tables: the literals the content-index fold is parameterised by, read as *effective
values* by probing the real ContentIndexParser on in-memory sheets (no file I/O):

  ci_ty_index, ci_ty_data, ci_ty_template, ci_ty_flow,
  ci_ty_campaign, ci_ty_triggers, ci_ty_ignore   row types, by observed effect
  ci_draft                                       the status value that disables a row
  ci_root_sheet                                  name of the root index sheet
  ci_name_sep                                    separator of "<name> - <row id>"

Candidates are the string constants of the module's source; each is classified by what a
one-row index of that type does to the registries.  Insensitive to renames/reformatting;
fail-closed when a class has no or several candidates."""
import ast
import inspect
import logging
import re

from gen_tables import Refuse, coq_str


class _Stop(logging.Handler):
    def emit(self, record):
        if record.levelno >= logging.CRITICAL:
            raise SystemExit(1)


def _reader(sheets, requested=None):
    import tablib
    from rpft.parsers.sheets import AbstractSheetReader, Sheet

    class R(AbstractSheetReader):
        def __init__(self):
            self.name = "probe"
            self._sheets = {}
            for name, rows in sheets.items():
                t = tablib.Dataset(headers=rows[0])
                for r in rows[1:]:
                    t.append(r)
                self._sheets[name] = Sheet(reader=self, name=name, table=t)

        def get_sheets_by_name(self, name):
            if requested is not None:
                requested.append(name)
            return super().get_sheets_by_name(name)

    return R()


HDR = ["type", "sheet_name", "new_name", "data_sheet", "data_row_id", "group", "status"]
FLOW = [["row_id", "type", "from", "message_text"], ["1", "send_message", "start", "m"]]
DATA = [["ID", "val"], ["r1", "v1"]]
CAMP = [["offset", "unit", "event_type", "delivery_hour", "message", "relative_to", "start_mode", "flow"],
        ["1", "D", "M", "", "m", "created_on", "I", ""]]
TRIG = [["type", "keywords", "flow"], ["K", "kw", "f"]]


def _row(**k):
    return [k.get(h, "") for h in HDR]


def _try(index_name, sheets):
    from rpft.parsers.creation.contentindexparser import ContentIndexParser

    req = []
    try:
        p = ContentIndexParser(_reader(sheets, req))
    except (SystemExit, Exception):
        return None, req
    return p, req


def tables_index(out, notes):
    import rpft.parsers.creation.contentindexparser as mod

    lg = logging.getLogger("main")
    stop = _Stop()
    null = logging.NullHandler()
    lg.addHandler(stop)
    lg.addHandler(null)
    old_prop = lg.propagate
    lg.propagate = False
    try:
        _tables_index(mod, out, notes)
    finally:
        lg.removeHandler(stop)
        lg.removeHandler(null)
        lg.propagate = old_prop


def _tables_index(mod, out, notes):
    consts = sorted({n.value for n in ast.walk(ast.parse(inspect.getsource(mod)))
                     if isinstance(n, ast.Constant) and isinstance(n.value, str)
                     and re.fullmatch(r"[A-Za-z_][A-Za-z0-9_ ]{1,40}", n.value)})

    # root index sheet name: the first sheet name the parser asks its reader for
    _, req = _try(None, {})
    if not req:
        raise Refuse("ContentIndexParser did not ask its reader for any sheet")
    root = req[0]
    if not isinstance(root, str) or not root:
        raise Refuse(f"root index sheet name is {root!r}")

    classes = {k: [] for k in ("index", "data", "template", "flow", "campaign", "triggers")}
    for t in consts:
        hits = set()
        # flow / template / (index: asks for the nested sheet's own references)
        p, req = _try(root, {root: [HDR, _row(type=t, sheet_name="s")], "s": FLOW})
        if p is not None:
            if p.flow_definition_rows:
                hits.add("flow")
            elif "s" in p.template_sheets:
                hits.add("template")
        p, req = _try(root, {root: [HDR, _row(type=t, sheet_name="s")], "s": [HDR, _row(type=t, sheet_name="s2")],
                             "s2": [HDR]})
        if "s2" in req:
            hits.add("index")
        p, req = _try(root, {root: [HDR, _row(type=t, sheet_name="s")], "s": DATA})
        if p is not None and p.data_sheets:
            hits.add("data")
        p, req = _try(root, {root: [HDR, _row(type=t, sheet_name="s", group="g")], "s": CAMP})
        if p is not None and p.campaign_parsers:
            hits.add("campaign")
        p, req = _try(root, {root: [HDR, _row(type=t, sheet_name="s")], "s": TRIG})
        if p is not None and p.trigger_parsers:
            hits.add("triggers")
        if len(hits) > 1:
            raise Refuse(f"row type {t!r} has several effects: {sorted(hits)}")
        for h in hits:
            classes[h].append(t)
    for k, v in classes.items():
        if len(v) != 1:
            raise Refuse(f"content index: expected exactly one row type with effect '{k}', found {v!r}")
    ty_flow = classes["flow"][0]

    # ignore: removes a flow definition made by the previous row
    ign = []
    for t in consts:
        p, _ = _try(root, {root: [HDR, _row(type=ty_flow, sheet_name="s"), _row(type=t, sheet_name="s")], "s": FLOW})
        if p is not None and not p.flow_definition_rows:
            ign.append(t)
    if len(ign) != 1:
        raise Refuse(f"content index: expected exactly one ignoring row type, found {ign!r}")

    # draft: a status value under which a create_flow row has no effect
    drafts = []
    for s in consts:
        p, _ = _try(root, {root: [HDR, _row(type=ty_flow, sheet_name="s", status=s)], "s": FLOW})
        if p is not None and not p.flow_definition_rows:
            drafts.append(s)
    if len(drafts) != 1:
        raise Refuse(f"content index: expected exactly one disabling status value, found {drafts!r}")

    # flow name separator: name of a flow instantiated for a data row
    from rpft.parsers.creation.contentindexparser import ContentIndexParser

    p, _ = _try(root, {root: [HDR, _row(type=classes["data"][0], sheet_name="d"),
                              _row(type=ty_flow, sheet_name="s", data_sheet="d", data_row_id="r1")],
                       "s": FLOW, "d": DATA})
    try:
        names = [f["name"] for f in p.parse_all().render()["flows"]]
    except (SystemExit, Exception) as e:
        raise Refuse(f"cannot instantiate a flow for a data row: {e!r}")
    if len(names) != 1 or not (names[0].startswith("s") and names[0].endswith("r1")):
        raise Refuse(f"unexpected flow name for (sheet s, row r1): {names!r}")
    sep = names[0][1:-2]

    out.append(f"Definition ci_root_sheet : str := {coq_str(root)}.")
    for k, coqname in (("index", "ci_ty_index"), ("data", "ci_ty_data"), ("template", "ci_ty_template"),
                       ("flow", "ci_ty_flow"), ("campaign", "ci_ty_campaign"), ("triggers", "ci_ty_triggers")):
        out.append(f"Definition {coqname} : str := {coq_str(classes[k][0])}.")
    out.append(f"Definition ci_ty_ignore : str := {coq_str(ign[0])}.")
    out.append(f"Definition ci_draft : str := {coq_str(drafts[0])}.")
    out.append(f"Definition ci_name_sep : str := {coq_str(sep)}.")
    notes.append("C10 row types/draft/root index/name separator: TABULATED by probing ContentIndexParser over the "
                 f"{len(consts)} string constants of contentindexparser.py")


GENERATORS = [tables_index]
