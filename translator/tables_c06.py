"""C06 tables: which action types / router test types carry group or flow references, as
the *record* and *assign* hooks of the current /repo tree actually behave (probed on
instances built through Action.from_dict / SwitchRouter; no source text is read).

Emitted constants (all prefixed uuid_ to stay clear of other properties' tables):
  uuid_action_record : list (str * N)   action type -> 0 none | 1 groups | 2 flow   (record hook)
  uuid_action_assign : list (str * N)   same for the assign hook
  uuid_case_record   : list str         router test types whose cases are recorded as group refs
  uuid_case_assign   : list str         ... assigned
  uuid_case_uuid_idx / uuid_case_name_idx : N   positions inside case.arguments
  uuid_event_flow_rendered : list str   campaign event types whose flow reference is rendered
"""
import contextlib
import io

from gen_tables import Refuse, coq_str, coq_list


class _SpyDict:
    """Stands in for UUIDDict: notes what a hook records / asks for."""

    def __init__(self):
        self.rec_groups = []
        self.rec_flows = []
        self.asked_groups = []
        self.asked_flows = []

    def record_group_uuid(self, name, uuid):
        self.rec_groups.append((name, uuid))

    def record_flow_uuid(self, name, uuid):
        self.rec_flows.append((name, uuid))

    def get_group_uuid(self, name):
        self.asked_groups.append(name)
        return "ASSIGNED-G"

    def get_flow_uuid(self, name):
        self.asked_flows.append(name)
        return "ASSIGNED-F"

    def contains_flow(self, name):
        return True


def _classify(groups, flows, what):
    if groups and flows:
        raise Refuse(f"{what}: hook touches both groups and flows ({groups!r}, {flows!r})")
    if groups:
        return 1
    if flows:
        return 2
    return 0


def tables_uuid(out, notes):
    from rpft.rapidpro.models.actions import Action, action_map
    from rpft.rapidpro.models.routers import RouterCase, SwitchRouter
    from rpft.rapidpro.models.campaigns import CampaignEvent

    rec_rows, asg_rows = [], []
    for ty in sorted(action_map):
        data = {
            "type": ty,
            "uuid": "a-uuid",
            "groups": [{"name": "PROBE-G", "uuid": None}],
            "flow": {"name": "PROBE-F", "uuid": None},
            # fields other action classes insist on when loaded from a dict
            "field": {"name": "probe", "key": "probe"},
            "name": "probe",
            "value": "probe",
            "text": "probe",
        }
        if ty.startswith("set_contact_") and ty != "set_contact_field":
            data[ty[len("set_contact_"):]] = "probe"
        try:
            act = Action.from_dict(data)
        except Exception as e:
            raise Refuse(f"cannot build an action of type {ty!r} from a dict: {type(e).__name__}: {e}")
        spy = _SpyDict()
        try:
            act.record_global_uuids(spy)
        except Exception as e:
            raise Refuse(f"record hook of action type {ty!r} raised {type(e).__name__}: {e}")
        if spy.rec_groups not in ([], [("PROBE-G", None)]) or spy.rec_flows not in ([], [("PROBE-F", None)]):
            raise Refuse(f"record hook of action type {ty!r} records something unexpected: {spy.rec_groups!r} {spy.rec_flows!r}")
        rec_rows.append((ty, _classify(spy.rec_groups, spy.rec_flows, f"record hook of {ty}")))
        spy = _SpyDict()
        try:
            act.assign_global_uuids(spy)
        except Exception as e:
            raise Refuse(f"assign hook of action type {ty!r} raised {type(e).__name__}: {e}")
        k = _classify(spy.asked_groups, spy.asked_flows, f"assign hook of {ty}")
        # the value asked for must land in the object that is rendered
        if k == 1 and [g.uuid for g in act.groups] != ["ASSIGNED-G"]:
            raise Refuse(f"assign hook of {ty!r} asks for a group uuid but does not store it")
        if k == 2 and act.flow.uuid != "ASSIGNED-F":
            raise Refuse(f"assign hook of {ty!r} asks for a flow uuid but does not store it")
        asg_rows.append((ty, k))

    def row(r):
        return f"({coq_str(r[0])}, {r[1]}%N)"

    out.append(f"Definition uuid_action_record : list (str * N) := {coq_list(row(r) for r in rec_rows)}.")
    out.append(f"Definition uuid_action_assign : list (str * N) := {coq_list(row(r) for r in asg_rows)}.")

    # router cases: which test types are group references, and where uuid / name sit
    rec_types, asg_types = [], []
    idx = set()
    for ty in sorted(RouterCase.TEST_VALIDATIONS):
        if ty in RouterCase.NO_ARGS_TESTS:
            continue
        router = SwitchRouter("@contact.groups")
        with contextlib.redirect_stdout(io.StringIO()):   # RouterCase prints arity warnings
            case = RouterCase(ty, ["ARG0", "ARG1"], "cat-uuid")
        router.cases.append(case)
        spy = _SpyDict()
        try:
            router.record_global_uuids(spy)
        except Exception as e:
            raise Refuse(f"router record hook raised on a {ty!r} case: {type(e).__name__}: {e}")
        if spy.rec_flows:
            raise Refuse(f"router record hook records a flow for a {ty!r} case")
        if spy.rec_groups:
            if spy.rec_groups == [("ARG1", "ARG0")]:
                idx.add((0, 1))
            elif spy.rec_groups == [("ARG0", "ARG1")]:
                idx.add((1, 0))
            else:
                raise Refuse(f"router record hook on a {ty!r} case records {spy.rec_groups!r}")
            rec_types.append(ty)
        spy = _SpyDict()
        try:
            router.assign_global_uuids(spy)
        except Exception as e:
            raise Refuse(f"router assign hook raised on a {ty!r} case: {type(e).__name__}: {e}")
        if spy.asked_flows:
            raise Refuse(f"router assign hook asks for a flow for a {ty!r} case")
        if spy.asked_groups:
            if spy.asked_groups == ["ARG1"] and case.arguments == ["ASSIGNED-G", "ARG1"]:
                idx.add((0, 1))
            elif spy.asked_groups == ["ARG0"] and case.arguments == ["ARG0", "ASSIGNED-G"]:
                idx.add((1, 0))
            else:
                raise Refuse(f"router assign hook on a {ty!r} case: asked {spy.asked_groups!r}, arguments now {case.arguments!r}")
            asg_types.append(ty)
    if len(idx) > 1:
        raise Refuse(f"record and assign hooks of router cases disagree on argument positions: {sorted(idx)!r}")
    ui, ni = next(iter(idx)) if idx else (0, 1)
    out.append(f"Definition uuid_case_record : list str := {coq_list(coq_str(t) for t in rec_types)}.")
    out.append(f"Definition uuid_case_assign : list str := {coq_list(coq_str(t) for t in asg_types)}.")
    out.append(f"Definition uuid_case_uuid_idx : N := {ui}%N.")
    out.append(f"Definition uuid_case_name_idx : N := {ni}%N.")

    # campaign events: for which event types is the flow reference part of the rendering
    rendered = []
    for ety in ["F", "M"]:
        try:
            ev = CampaignEvent(1, "H", ety, -1, "I", relative_to_label="Created On", message={"eng": "m"},
                               base_language="eng", flow_name="PROBE-F", flow_uuid="PROBE-U")
            if ev.render().get("flow") == {"name": "PROBE-F", "uuid": "PROBE-U"}:
                rendered.append(ety)
        except Exception as e:
            raise Refuse(f"cannot render a campaign event of type {ety!r}: {type(e).__name__}: {e}")
    out.append(f"Definition uuid_event_flow_rendered : list str := {coq_list(coq_str(t) for t in rendered)}.")
    notes.append("uuid_* tables: probed behaviourally (spy dictionary handed to the record/assign hooks of "
                 f"{len(rec_rows)} action types and {len(rec_types)}/{len(asg_types)} group test types)")


GENERATORS = [tables_uuid]
