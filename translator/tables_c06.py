"""C06 tables: which action types / router test types carry group or flow references, as
the *record* and *assign* hooks of the current /repo tree actually behave (probed on
instances built through Action.from_dict / SwitchRouter; no source text is read).

Emitted constants (all prefixed uuid_ to stay clear of other properties' tables):
  uuid_action_record : list (str * N)   action type -> 0 none | 1 groups | 2 flow   (record hook)
  uuid_action_assign : list (str * N)   same for the assign hook
  uuid_case_record   : list str         router test types whose cases are recorded as group refs
  uuid_case_assign   : list str         ... assigned
  uuid_case_uuid_idx / uuid_case_name_idx : N   positions inside case.arguments
  uuid_event_flow_rendered : list str   campaign event types whose flow reference is rendered
  uuid_row_hooks : list (str * (N * (str * (bool * bool))))
        flow-sheet row type -> (shape, (type of the action / router test it creates, (records, carries))):
        shape 0 no reference | 1 group action | 2 enter-flow action | 3 router whose cases are group tests;
        records = a truthy obj_id is handed to record_group_uuid / record_flow_uuid of the FlowParser's container;
        carries = the obj_id is put on the Group / FlowReference object the row creates
  uuid_case_operand_free : bool   the record/assign hooks of router cases behave the same whatever the operand / wait of
        the router (group split, wait for response, field / result / expression split, enter-flow router)
  uuid_edge_group_test : str   the router test type that an edge with condition_type=has_group becomes, whatever the type of
        the row it leaves (wait_for_response, split_by_value, action rows, no_op, split_by_group); "" if that is not uniform
  uuid_block_shared : bool   does a template pulled in with insert_as_block record into the container of the
        flow that inserts it (true) or into a container of its own that is thrown away (false)
"""
import contextlib
import io

from gen_tables import Refuse, coq_str, coq_list


class _SpyDict:
    """Stands in for UUIDDict: notes what a hook records / asks for."""

    def __init__(self):
        self.rec_groups = []
        self.rec_flows = []
        self.asked_groups = []
        self.asked_flows = []

    def record_group_uuid(self, name, uuid):
        self.rec_groups.append((name, uuid))

    def record_flow_uuid(self, name, uuid):
        self.rec_flows.append((name, uuid))

    def get_group_uuid(self, name):
        self.asked_groups.append(name)
        return "ASSIGNED-G"

    def get_flow_uuid(self, name):
        self.asked_flows.append(name)
        return "ASSIGNED-F"

    def contains_flow(self, name):
        return True


def _classify(groups, flows, what):
    if groups and flows:
        raise Refuse(f"{what}: hook touches both groups and flows ({groups!r}, {flows!r})")
    if groups:
        return 1
    if flows:
        return 2
    return 0


CASE_PROBE_OPERANDS = [("@contact.groups", None), ("@input.text", 0), ("@input.text", 300), ("@fields.probe", None),
                       ("@results.probe", None), ("@child.run.status", None), ("@(urn_parts(contact.urn).scheme)", None)]


def tables_uuid(out, notes):
    from rpft.rapidpro.models.actions import Action, action_map
    from rpft.rapidpro.models.routers import RouterCase, SwitchRouter
    from rpft.rapidpro.models.campaigns import CampaignEvent

    rec_rows, asg_rows = [], []
    for ty in sorted(action_map):
        data = {
            "type": ty,
            "uuid": "a-uuid",
            "groups": [{"name": "PROBE-G", "uuid": None}],
            "flow": {"name": "PROBE-F", "uuid": None},
            # fields other action classes insist on when loaded from a dict
            "field": {"name": "probe", "key": "probe"},
            "name": "probe",
            "value": "probe",
            "text": "probe",
        }
        if ty.startswith("set_contact_") and ty != "set_contact_field":
            data[ty[len("set_contact_"):]] = "probe"
        try:
            act = Action.from_dict(data)
        except Exception as e:
            raise Refuse(f"cannot build an action of type {ty!r} from a dict: {type(e).__name__}: {e}")
        spy = _SpyDict()
        try:
            act.record_global_uuids(spy)
        except Exception as e:
            raise Refuse(f"record hook of action type {ty!r} raised {type(e).__name__}: {e}")
        if spy.rec_groups not in ([], [("PROBE-G", None)]) or spy.rec_flows not in ([], [("PROBE-F", None)]):
            raise Refuse(f"record hook of action type {ty!r} records something unexpected: {spy.rec_groups!r} {spy.rec_flows!r}")
        rec_rows.append((ty, _classify(spy.rec_groups, spy.rec_flows, f"record hook of {ty}")))
        spy = _SpyDict()
        try:
            act.assign_global_uuids(spy)
        except Exception as e:
            raise Refuse(f"assign hook of action type {ty!r} raised {type(e).__name__}: {e}")
        k = _classify(spy.asked_groups, spy.asked_flows, f"assign hook of {ty}")
        # the value asked for must land in the object that is rendered
        if k == 1 and [g.uuid for g in act.groups] != ["ASSIGNED-G"]:
            raise Refuse(f"assign hook of {ty!r} asks for a group uuid but does not store it")
        if k == 2 and act.flow.uuid != "ASSIGNED-F":
            raise Refuse(f"assign hook of {ty!r} asks for a flow uuid but does not store it")
        asg_rows.append((ty, k))

    def row(r):
        return f"({coq_str(r[0])}, {r[1]}%N)"

    out.append(f"Definition uuid_action_record : list (str * N) := {coq_list(row(r) for r in rec_rows)}.")
    out.append(f"Definition uuid_action_assign : list (str * N) := {coq_list(row(r) for r in asg_rows)}.")

    # router cases: which test types are group references, and where uuid / name sit
    rec_types, asg_types = [], []
    idx = set()
    # The model's case hooks (Uuid/Container.v case_refs / assign_case) look at the test type only, never at the
    # operand of the router: a has_group test is legal on any switch router (wait_for_response, split_by_value, a
    # no_op decision, the router of an enter-flow node).  Probed under several operands; the tables are those of the
    # group split, uuid_case_operand_free says whether every other operand gives the same (part of C06_tables_ok).
    per_operand = {}
    for operand, wait in CASE_PROBE_OPERANDS[1:]:
        rt, at = [], []
        for ty in sorted(RouterCase.TEST_VALIDATIONS):
            if ty in RouterCase.NO_ARGS_TESTS:
                continue
            try:
                router = SwitchRouter(operand, wait_timeout=wait)
                with contextlib.redirect_stdout(io.StringIO()):
                    case = RouterCase(ty, ["ARG0", "ARG1"], "cat-uuid")
                router.cases.append(case)
                spy = _SpyDict()
                router.record_global_uuids(spy)
                if spy.rec_groups or spy.rec_flows:
                    rt.append((ty, tuple(spy.rec_groups), tuple(spy.rec_flows)))
                spy = _SpyDict()
                router.assign_global_uuids(spy)
                if spy.asked_groups or spy.asked_flows:
                    at.append((ty, tuple(spy.asked_groups), tuple(spy.asked_flows), tuple(case.arguments)))
            except Exception as e:
                rt.append((ty, "raised", type(e).__name__))
        per_operand[f"{operand} wait={wait}"] = (rt, at)
    reference = ([], [])
    for ty in sorted(RouterCase.TEST_VALIDATIONS):
        if ty in RouterCase.NO_ARGS_TESTS:
            continue
        router = SwitchRouter("@contact.groups")
        with contextlib.redirect_stdout(io.StringIO()):   # RouterCase prints arity warnings
            case = RouterCase(ty, ["ARG0", "ARG1"], "cat-uuid")
        router.cases.append(case)
        spy = _SpyDict()
        try:
            router.record_global_uuids(spy)
        except Exception as e:
            raise Refuse(f"router record hook raised on a {ty!r} case: {type(e).__name__}: {e}")
        if spy.rec_flows:
            raise Refuse(f"router record hook records a flow for a {ty!r} case")
        if spy.rec_groups:
            if spy.rec_groups == [("ARG1", "ARG0")]:
                idx.add((0, 1))
            elif spy.rec_groups == [("ARG0", "ARG1")]:
                idx.add((1, 0))
            else:
                raise Refuse(f"router record hook on a {ty!r} case records {spy.rec_groups!r}")
            rec_types.append(ty)
            reference[0].append((ty, tuple(spy.rec_groups), ()))
        spy = _SpyDict()
        try:
            router.assign_global_uuids(spy)
        except Exception as e:
            raise Refuse(f"router assign hook raised on a {ty!r} case: {type(e).__name__}: {e}")
        if spy.asked_flows:
            raise Refuse(f"router assign hook asks for a flow for a {ty!r} case")
        if spy.asked_groups:
            if spy.asked_groups == ["ARG1"] and case.arguments == ["ASSIGNED-G", "ARG1"]:
                idx.add((0, 1))
            elif spy.asked_groups == ["ARG0"] and case.arguments == ["ARG0", "ASSIGNED-G"]:
                idx.add((1, 0))
            else:
                raise Refuse(f"router assign hook on a {ty!r} case: asked {spy.asked_groups!r}, arguments now {case.arguments!r}")
            asg_types.append(ty)
            reference[1].append((ty, tuple(spy.asked_groups), (), tuple(case.arguments)))
    operand_free = all(v == reference for v in per_operand.values())
    if not operand_free:
        notes.append("uuid_case_operand_free = false: the record/assign hooks of router cases depend on the operand: "
                     + "; ".join(f"{op}: {v!r}" for op, v in per_operand.items() if v != reference)[:600])
    out.append(f"Definition uuid_case_operand_free : bool := {'true' if operand_free else 'false'}.")
    if len(idx) > 1:
        raise Refuse(f"record and assign hooks of router cases disagree on argument positions: {sorted(idx)!r}")
    ui, ni = next(iter(idx)) if idx else (0, 1)
    out.append(f"Definition uuid_case_record : list str := {coq_list(coq_str(t) for t in rec_types)}.")
    out.append(f"Definition uuid_case_assign : list str := {coq_list(coq_str(t) for t in asg_types)}.")
    out.append(f"Definition uuid_case_uuid_idx : N := {ui}%N.")
    out.append(f"Definition uuid_case_name_idx : N := {ni}%N.")

    # campaign events: for which event types is the flow reference part of the rendering
    rendered = []
    for ety in ["F", "M"]:
        try:
            ev = CampaignEvent(1, "H", ety, -1, "I", relative_to_label="Created On", message={"eng": "m"},
                               base_language="eng", flow_name="PROBE-F", flow_uuid="PROBE-U")
            if ev.render().get("flow") == {"name": "PROBE-F", "uuid": "PROBE-U"}:
                rendered.append(ety)
        except Exception as e:
            raise Refuse(f"cannot render a campaign event of type {ety!r}: {type(e).__name__}: {e}")
    out.append(f"Definition uuid_event_flow_rendered : list str := {coq_list(coq_str(t) for t in rendered)}.")
    notes.append("uuid_* tables: probed behaviourally (spy dictionary handed to the record/assign hooks of "
                 f"{len(rec_rows)} action types and {len(rec_types)}/{len(asg_types)} group test types)")


# ---------------------------------------------------------------------------------------------------
# sheet level: what FlowParser does with the obj_id of a row, probed on one-row sheets

ROW_TYPES = ["send_message", "save_value", "add_to_group", "remove_from_group", "save_flow_result", "add_contact_urn",
             "set_contact_language", "set_contact_name", "set_contact_status", "set_contact_timezone",
             "wait_for_response", "split_by_value", "split_by_group", "split_random", "start_new_flow"]
REF_ROW_SHAPES = {"add_to_group": 1, "remove_from_group": 1, "start_new_flow": 2, "split_by_group": 3}


def _dataset(headers, rows):
    import tablib
    t = tablib.Dataset()
    t.headers = headers
    for r in rows:
        t.append([r.get(h, "") for h in headers])
    return t


def _spy_container():
    from rpft.rapidpro.models.containers import RapidProContainer

    class Spy(RapidProContainer):
        def __init__(self):
            super().__init__()
            self.rec = []

        def record_group_uuid(self, name, uuid):
            self.rec.append(("G", name, uuid))
            super().record_group_uuid(name, uuid)

        def record_flow_uuid(self, name, uuid):
            self.rec.append(("F", name, uuid))
            super().record_flow_uuid(name, uuid)
    return Spy()


def _probe_row(ty, obj_id):
    """-> (records, occurrences) of a sheet whose first row is of type ty with main argument PROBE-N"""
    import logging
    from rpft.parsers.creation.flowparser import FlowParser
    headers = ["row_id", "type", "from", "condition", "message_text", "save_name", "obj_id"]
    rows = [{"row_id": "1", "type": ty, "from": "start", "message_text": "PROBE-N", "save_name": "probe", "obj_id": obj_id},
            {"row_id": "2", "type": "send_message", "from": "1", "condition": "PROBE-N", "message_text": "x"}]
    spy = _spy_container()
    logging.disable(logging.CRITICAL)
    try:
        flow = FlowParser(spy, "probe", _dataset(headers, rows)).parse(add_to_container=False)
        doc = flow.render()
    finally:
        logging.disable(logging.NOTSET)
    occ = []
    for n in doc["nodes"]:
        for a in n.get("actions", []):
            for g in a.get("groups", []) if isinstance(a.get("groups"), list) else []:
                occ.append((1, a["type"], g.get("name"), g.get("uuid")))
            if isinstance(a.get("flow"), dict):
                occ.append((2, a["type"], a["flow"].get("name"), a["flow"].get("uuid")))
        for k in (n.get("router") or {}).get("cases", []):
            args = k.get("arguments") or []
            if "PROBE-N" in args and len(args) == 2:
                other = [x for x in args if x != "PROBE-N"]
                occ.append((3, k["type"], "PROBE-N", other[0] if other else None))
    return spy.rec, occ


EDGE_PROBE_ROWS = [("wait_for_response", "", ""), ("split_by_value", "@fields.probe", ""), ("send_message", "hello", ""),
                   ("send_message", "hello", "@fields.probe"), ("add_to_group", "PROBE-N2", ""), ("no_op", "", "@fields.probe"),
                   ("split_by_group", "PROBE-G", "")]


def _probe_edge(ty, main, var):
    """type of the router test that an edge with condition_type=has_group, condition=PROBE-G creates when it leaves a
    row of type ty, provided the test is written [None, "PROBE-G"] (a reference without uuid); else None"""
    import logging
    from rpft.parsers.creation.flowparser import FlowParser
    headers = ["row_id", "type", "from", "condition", "condition_var", "condition_type", "message_text", "save_name"]
    rows = [{"row_id": "1", "type": ty, "from": "start", "message_text": main, "save_name": "probe" if ty == "wait_for_response" else ""},
            {"row_id": "2", "type": "send_message", "from": "1", "condition": "PROBE-G", "condition_var": var,
             "condition_type": "has_group", "message_text": "x"}]
    spy = _spy_container()
    logging.disable(logging.CRITICAL)
    try:
        doc = FlowParser(spy, "probe", _dataset(headers, rows)).parse(add_to_container=False).render()
    finally:
        logging.disable(logging.NOTSET)
    found = [k for n in doc["nodes"] for k in (n.get("router") or {}).get("cases", []) if "PROBE-G" in (k.get("arguments") or [])]
    if len(found) != 1 or found[0]["arguments"] != [None, "PROBE-G"] or any(r[1] == "PROBE-G" for r in spy.rec):
        return None
    return found[0]["type"]


def tables_uuid_sheet(out, notes):
    # a has_group condition may hang off ANY row: which router test it becomes
    edge_types = set()
    for ty, main, var in EDGE_PROBE_ROWS:
        try:
            edge_types.add(_probe_edge(ty, main, var))
        except BaseException as e:
            notes.append(f"uuid_edge_group_test: a has_group edge leaving a {ty} row does not compile: {type(e).__name__}: {e}"[:300])
            edge_types.add(None)
    edge_test = next(iter(edge_types)) if len(edge_types) == 1 and None not in edge_types else ""
    # "" (no such test type) makes C06_sheet_tables_ok false: the model (Uuid/Sheet.v node_of) gives every row the
    # group tests of the edges that leave it, with this type and no uuid
    out.append(f"Definition uuid_edge_group_test : str := {coq_str(edge_test)}.")
    from rpft.rapidpro.models.routers import RouterCase  # noqa: F401  (import check)
    rows = []
    for ty in ROW_TYPES:
        try:
            rec, occ = _probe_row(ty, "PROBE-U")
            rec0, occ0 = _probe_row(ty, "")
        except BaseException as e:
            if ty in REF_ROW_SHAPES:
                raise Refuse(f"a one-row sheet of type {ty!r} does not parse: {type(e).__name__}: {e}")
            rows.append((ty, 0, "", False, False))
            continue
        refs = [o for o in occ if o[2] == "PROBE-N" and (o[0] != 3 or o[1] not in ("has_any_word",))]
        # a conditional edge from a plain row creates a has_any_word router case on PROBE-N: not a reference
        refs = [o for o in refs if not (o[0] == 3 and o[1] == "has_any_word")]
        shapes = sorted(set(o[0] for o in refs))
        if len(shapes) > 1:
            raise Refuse(f"row type {ty!r} creates references of several shapes: {refs!r}")
        shape = shapes[0] if shapes else 0
        if ty in REF_ROW_SHAPES and shape != REF_ROW_SHAPES[ty]:
            raise Refuse(f"row type {ty!r}: expected a reference of shape {REF_ROW_SHAPES[ty]}, found {refs!r}")
        if rec0:
            raise Refuse(f"row type {ty!r} records {rec0!r} for a row WITHOUT obj_id (the model records truthy obj_ids only)")
        if any(o[3] for o in occ0 if o[2] == "PROBE-N" and o[0] in (1, 2)):
            raise Refuse(f"row type {ty!r} without obj_id creates a reference that already has a uuid: {occ0!r}")
        if shape == 0:
            if rec:
                raise Refuse(f"row type {ty!r} creates no reference but records {rec!r}")
            rows.append((ty, 0, "", False, False))
            continue
        kind = "F" if shape == 2 else "G"
        if rec not in ([], [(kind, "PROBE-N", "PROBE-U")]):
            raise Refuse(f"row type {ty!r} records something unexpected: {rec!r}")
        atypes = sorted(set(o[1] for o in refs))
        if len(atypes) != 1:
            raise Refuse(f"row type {ty!r} creates references in several action/test types: {atypes!r}")
        uu = set(o[3] for o in refs)
        if uu - {None, "PROBE-U"} or len(uu) != 1:
            raise Refuse(f"row type {ty!r}: unexpected uuids on the created references: {refs!r}")
        carries = uu == {"PROBE-U"}
        if shape == 3 and carries:
            raise Refuse("split_by_group puts the obj_id on the has_group case: not covered by the model (Uuid/Sheet.v)")
        rows.append((ty, shape, atypes[0], bool(rec), carries))

    def row(r):
        return f"({coq_str(r[0])}, ({r[1]}%N, ({coq_str(r[2])}, ({'true' if r[3] else 'false'}, {'true' if r[4] else 'false'}))))"
    out.append("Definition uuid_row_hooks : list (str * (N * (str * (bool * bool)))) := " + coq_list(row(r) for r in rows) + ".")

    # insert_as_block: into which container does the nested FlowParser record?
    import logging
    from rpft.parsers.creation.contentindexparser import ContentIndexParser
    from rpft.parsers.creation.tagmatcher import TagMatcher
    from rpft.parsers.sheets import Sheet

    class Mem:
        name = "probe"

        def __init__(self, sheets):
            self._s = {n: Sheet(reader=self, name=n, table=t) for n, t in sheets.items()}

        def get_sheets_by_name(self, name):
            return [self._s[name]] if name in self._s else []
    fh = ["row_id", "type", "from", "condition", "message_text", "obj_id"]
    sheets = {
        "content_index": _dataset(["type", "sheet_name"], [{"type": "template_definition", "sheet_name": "blk"},
                                                            {"type": "create_flow", "sheet_name": "main"}]),
        "blk": _dataset(fh, [{"row_id": "1", "type": "split_by_group", "from": "start", "message_text": "PROBE-N", "obj_id": "PROBE-U"},
                             {"row_id": "2", "type": "send_message", "from": "1", "condition": "PROBE-N", "message_text": "x"}]),
        "main": _dataset(fh, [{"row_id": "1", "type": "send_message", "from": "start", "message_text": "x"},
                              {"row_id": "2", "type": "insert_as_block", "from": "1", "message_text": "blk"}]),
    }
    logging.disable(logging.CRITICAL)
    try:
        cont = ContentIndexParser(Mem(sheets), None, TagMatcher([])).parse_all()
        gd = cont.uuid_dict.group_dict
    except BaseException as e:
        raise Refuse(f"probe workbook with an insert_as_block row does not compile: {type(e).__name__}: {e}")
    finally:
        logging.disable(logging.NOTSET)
    if not isinstance(gd, dict) or gd.get("PROBE-N") not in (None, "PROBE-U"):
        raise Refuse(f"probe of insert_as_block: unexpected group dictionary {gd!r}")
    shared = gd.get("PROBE-N") == "PROBE-U"
    hooks = dict((r[0], r) for r in rows)
    if not hooks["split_by_group"][3]:
        raise Refuse("split_by_group does not record its obj_id: the insert_as_block probe is not conclusive")
    out.append(f"Definition uuid_block_shared : bool := {'true' if shared else 'false'}.")
    notes.append(f"uuid_row_hooks / uuid_block_shared: probed on one-row sheets run through FlowParser with a spy container "
                 f"({sum(1 for r in rows if r[1])} of {len(rows)} row types create references; insert_as_block "
                 f"{'shares' if shared else 'does not share'} the container)")


GENERATORS = [tables_uuid, tables_uuid_sheet]
