"""C15 tables: what decides whether `rpft create_flows` stops on a detected fault.

* c15_site_levels        for every detection site that is a LOGGER call: the numeric logging
                         level of that call, read from the ast of the LIVE function object
                         (inspect.getsource of what `import rpft...` resolves to).  A site is
                         found by (function, enclosing `except <Exc>` handler) or by a keyword
                         of its message; a renamed function is searched by keyword in the whole
                         module; ambiguity or absence => Refuse.  Level 0 = the handler logs
                         nothing (swallowed); 100 = there is no handler any more (the exception
                         propagates, which stops the command as well).
* c15_shutdown_threshold the lowest level at which ShutdownHandler.emit terminates the
  c15_shutdown_exit      process, and the exit status it uses — BEHAVIOURAL probe of the class
                         that rpft.logger.logger.initialize_main_logger installs.
* c15_raise_sites        for every detection site that is an exception: does the constructor /
                         function still raise on the canonical faulty argument (probe).
* c15_max_*              the limits, found by probing the constructors (longest accepted value).
* c15_cli_*              BEHAVIOURAL probe of rpft.cli.main() (argv: create_flows ...) with the library call
                         replaced: on failure (exception, SystemExit) is the output path left
                         untouched and does the failure propagate; on success is the file the
                         json.dump(indent=4) of what the library returned.
Fail-closed: anything unexpected raises Refuse.
"""
import ast
import inspect
import io
import json
import logging
import os
import shutil
import sys
import tempfile
import textwrap
import types

from gen_tables import Refuse, coq_bool

LEVELS = {"critical": 50, "fatal": 50, "error": 40, "exception": 40, "warning": 30, "warn": 30, "info": 20, "debug": 10}

# code (Io/CliFlow.v cls_code), module, preferred function qualname, handler exception or None, message keyword or None
# ORDINALS: position of the call among the logger calls of its function (fallback when the message was reworded)
SITES = [
    (1, "rpft.parsers.creation.contentindexparser", "ContentIndexParser.__init__", None, "No content index"),
    (2, "rpft.parsers.creation.contentindexparser", "ContentIndexParser._process_content_index_table", None, "exactly one sheet_name"),
    (4, "rpft.parsers.creation.contentindexparser", "ContentIndexParser._process_data_sheet", None, "new_name has to be"),
    (5, "rpft.parsers.creation.contentindexparser", "ContentIndexParser._process_data_sheet", None, "Unknown operation"),
    (6, "rpft.parsers.creation.contentindexparser", "ContentIndexParser._get_new_data_sheet", "AttributeError", "Undefined data_model_name"),
    (7, "rpft.parsers.creation.contentindexparser", "ContentIndexParser._data_sheets_concat", None, "Cannot concatenate"),
    (10, "rpft.parsers.creation.contentindexparser", "ContentIndexParser.parse_all_flows", None, "data_sheet must"),
    (11, "rpft.parsers.creation.contentindexparser", "ContentIndexParser.get_node_group", None, "insert_as_block"),
    (12, "rpft.parsers.creation.contentindexparser", "ContentIndexParser.map_template_arguments_to_context", None, "doubly defined"),
    (13, "rpft.parsers.creation.contentindexparser", "ContentIndexParser.map_template_arguments_to_context", None, "not provided"),
    (20, "rpft.parsers.creation.flowparser", "FlowParser._is_end_of_block", None, "unterminated"),
    (21, "rpft.parsers.creation.flowparser", "FlowParser._is_end_of_block", None, "Wrong block terminator"),
    (22, "rpft.parsers.creation.flowparser", "FlowParser._parse_block", None, "loop_variable"),
    (30, "rpft.parsers.creation.flowparser", "FlowParser._get_node_group_from_edge", None, "which does not exist"),
    (31, "rpft.parsers.creation.flowparser", "FlowParser._parse_goto_row", None, "number of destinations"),
    (33, "rpft.parsers.creation.flowparser", "NoOpNodeGroup.entry_node", None, "no_op row"),
    (35, "rpft.parsers.creation.flowparser", "FlowParser._parse_row", "RapidProActionError", None),
    (38, "rpft.parsers.creation.flowparser", "FlowParser._add_row_edge", "RapidProRouterError", None),
    (39, "rpft.parsers.creation.flowparser", "FlowParser._get_row_node", "ValueError", "webhook.headers"),
    (41, "rpft.parsers.creation.flowparser", "NodeGroup.add_exit", None, "conditional edges"),
    (42, "rpft.parsers.creation.flowparser", "NodeGroup.add_exit", None, "no loose exit"),
    (43, "rpft.parsers.creation.flowparser", "NoOpNodeGroup.add_exit", None, "must have a variable"),
    (44, "rpft.parsers.creation.flowparser", "RowNodeGroup.add_exit", "ValueError", None),
    (52, "rpft.parsers.creation.triggerparser", "TriggerParser.parse", "ValueError", None),
    (53, "rpft.parsers.creation.campaignparser", "CampaignParser.parse", "ValueError", None),
]
ORDINALS = {2: 0, 4: 2, 5: 3, 10: 1, 12: 1, 13: 2, 20: 0, 21: 1, 41: 0, 42: 1}
# sites that share the handler of another site
ALIASES = {36: 35, 37: 35}


def _const_text(node):
    """the constant parts of a message expression (str, f-string, concatenation, call args)"""
    parts = []
    for n in ast.walk(node):
        if isinstance(n, ast.Constant) and isinstance(n.value, str):
            parts.append(n.value)
    return " ".join(parts)


class _Scan(ast.NodeVisitor):
    """collects every logger call of a module with its enclosing function and handlers"""

    def __init__(self, logger_names):
        self.logger_names = logger_names
        self.stack = []       # qualname parts
        self.handlers = []    # enclosing except handler exception names
        self.calls = []       # dict(func, handlers, level, text)
        self.try_handlers = []  # (func, exception names of every handler) for "is there a handler"

    def visit_ClassDef(self, node):
        self.stack.append(node.name)
        self.generic_visit(node)
        self.stack.pop()

    def visit_FunctionDef(self, node):
        self.stack.append(node.name)
        self.generic_visit(node)
        self.stack.pop()

    visit_AsyncFunctionDef = visit_FunctionDef

    def visit_Try(self, node):
        for stmt in node.body:
            self.visit(stmt)
        for h in node.handlers:
            names = []
            t = h.type
            if t is None:
                names = ["BaseException"]
            else:
                for n in ([t] if not isinstance(t, ast.Tuple) else t.elts):
                    names.append(n.attr if isinstance(n, ast.Attribute) else getattr(n, "id", "?"))
            self.try_handlers.append((".".join(self.stack), tuple(names)))
            self.handlers.append(tuple(names))
            for stmt in h.body:
                self.visit(stmt)
            self.handlers.pop()
        for stmt in node.orelse + node.finalbody:
            self.visit(stmt)

    def visit_Call(self, node):
        f = node.func
        if isinstance(f, ast.Attribute) and isinstance(f.value, ast.Name) and f.value.id in self.logger_names:
            lvl = None
            if f.attr in LEVELS:
                lvl = LEVELS[f.attr]
            elif f.attr == "log" and node.args and isinstance(node.args[0], ast.Constant) and isinstance(node.args[0].value, int):
                lvl = node.args[0].value
            elif f.attr == "log" and node.args and isinstance(node.args[0], ast.Attribute) and f"{node.args[0].attr}".lower() in LEVELS:
                lvl = LEVELS[node.args[0].attr.lower()]
            if lvl is not None:
                self.calls.append(dict(func=".".join(self.stack), handlers=tuple(self.handlers), level=lvl,
                                       text=_const_text(node)))
        self.generic_visit(node)


def _scan_module(modname):
    import importlib

    mod = importlib.import_module(modname)
    try:
        src = inspect.getsource(mod)
    except Exception as e:
        raise Refuse(f"no source for {modname}: {e}")
    names = {k for k, v in vars(mod).items() if isinstance(v, logging.Logger)}
    if not names:
        raise Refuse(f"{modname}: no module-level logger")
    sc = _Scan(names)
    sc.visit(ast.parse(src))
    return mod, sc


def _resolve_site(code, modname, func, handler, keyword, cache):
    if modname not in cache:
        cache[modname] = _scan_module(modname)
    mod, sc = cache[modname]
    in_func = [c for c in sc.calls if c["func"] == func]
    func_exists = _has_attr_path(mod, func)
    if handler:
        hs = [c for c in in_func if any(handler in h for h in c["handlers"])]
        if keyword:
            k = [c for c in hs if keyword.lower() in c["text"].lower()]
            hs = k or hs
        if len(hs) >= 1:
            return min(c["level"] for c in hs) if len({c["level"] for c in hs}) > 1 else hs[0]["level"]
        # no logger call inside such a handler: swallowed (handler exists) or propagating (no handler)
        has_handler = any(f == func and handler in names for f, names in sc.try_handlers)
        if func_exists:
            if has_handler:
                return 0
            # a broader handler (Exception / BaseException) in the function?
            broad = [names for f, names in sc.try_handlers if f == func and ({"Exception", "BaseException"} & set(names))]
            if broad:
                bc = [c for c in in_func if any(({"Exception", "BaseException"} & set(h)) for h in c["handlers"])]
                return max([c["level"] for c in bc], default=0)
            return 100
        if keyword:
            anyw = [c for c in sc.calls if keyword.lower() in c["text"].lower()]
            if len(anyw) == 1:
                return anyw[0]["level"]
        raise Refuse(f"C15 site {code}: function {modname}.{func} not found")
    k = [c for c in in_func if keyword and keyword.lower() in c["text"].lower()]
    if len(k) >= 1:
        return min(c["level"] for c in k)
    anyw = [c for c in sc.calls if keyword and keyword.lower() in c["text"].lower()]
    if len(anyw) == 1:
        return anyw[0]["level"]
    if func_exists and len(in_func) == 1:
        return in_func[0]["level"]
    if func_exists and not anyw and code in ORDINALS and len(in_func) > ORDINALS[code]:
        return in_func[ORDINALS[code]]["level"]      # reworded message: same position in the function
    if func_exists and len(in_func) == 0 and not anyw:
        return 0      # the function no longer logs anything at this site
    raise Refuse(f"C15 site {code}: cannot identify the logger call in {modname}.{func} "
                 f"(keyword {keyword!r}: {len(k)} in function, {len(anyw)} in module, {len(in_func)} calls in function)")


def _has_attr_path(mod, path):
    o = mod
    for p in path.split("."):
        if not hasattr(o, p):
            return False
        o = getattr(o, p)
    return True


def _raises(fn, exc_types=Exception):
    try:
        fn()
    except SystemExit:
        return True
    except exc_types:
        return True
    except BaseException:
        return True
    return False


def _limit(make, guess):
    """largest n such that make(n) does not raise, when make(guess) succeeds and make(guess+1) raises;
    otherwise search 1..4096"""
    if not _raises(lambda: make(guess)) and _raises(lambda: make(guess + 1)):
        return guess
    ok = None
    for n in range(0, 4097):
        if _raises(lambda: make(n)):
            if ok is None:
                raise Refuse("limit probe: the constructor rejects the empty value")
            return ok
        ok = n
    raise Refuse("limit probe: no limit found up to 4096")


def tables_c15(out, notes):
    cache = {}
    pairs = []
    for code, modname, func, handler, keyword in SITES:
        pairs.append((code, _resolve_site(code, modname, func, handler, keyword, cache)))
    for a, b in ALIASES.items():
        pairs.append((a, dict(pairs)[b]))
    pairs.sort()
    out.append("Definition c15_site_levels : list (N * N) := ["
               + "; ".join(f"({a}%N, {b}%N)" for a, b in pairs) + "].")

    # ---------------------------------------------------------------- ShutdownHandler (behavioural)
    from rpft.logger import logger as rlog

    tmp = tempfile.mkdtemp(prefix="c15tab")
    old_cwd = os.getcwd()
    old_stderr = sys.stderr
    main_before = logging.getLogger("main")
    saved_handlers, saved_filters, saved_level = list(main_before.handlers), list(main_before.filters), main_before.level
    try:
        os.chdir(tmp)
        probe_logger = logging.getLogger("c15_probe_logger")
        probe_logger.propagate = False
        probe_logger.setLevel(1)
        # what does initialize_main_logger install?  build the same handler class on a scratch file
        main_logger = rlog.initialize_main_logger(os.path.join(tmp, "probe_errors.log"))
        hs = [h for h in main_logger.handlers if isinstance(h, logging.FileHandler)
              and getattr(h, "baseFilename", "").endswith("probe_errors.log")]
        if len(hs) != 1:
            raise Refuse(f"initialize_main_logger installs {len(hs)} file handlers on the probe file")
        handler = hs[0]
        main_logger.removeHandler(handler)      # probe it on a private logger
        probe_logger.addHandler(handler)
        for flt in list(main_logger.filters):
            probe_logger.addFilter(flt)
        threshold, exit_code = None, None
        for lvl in (10, 20, 30, 40, 50):
            sys.stderr = io.StringIO()
            try:
                probe_logger.log(lvl, "probe")
                stopped = None
            except SystemExit as e:
                stopped = e.code
            finally:
                sys.stderr = old_stderr
            if stopped is not None and threshold is None:
                threshold, exit_code = lvl, stopped
            if stopped is None and threshold is not None:
                raise Refuse("ShutdownHandler stops at a level but not at a higher one")
        handler.close()
        if threshold is None:
            threshold, exit_code = 1000, 0          # never stops
        if not isinstance(exit_code, int):
            exit_code = 1 if exit_code else 0       # sys.exit("text") -> status 1
        out.append(f"Definition c15_shutdown_threshold : N := {threshold}%N.")
        out.append(f"Definition c15_shutdown_exit : N := {exit_code}%N.")

        # ---------------------------------------------------------------- raise sites (behavioural)
        from rpft.parsers.creation.flowrowmodel import list_of_pairs_to_dict
        from rpft.rapidpro.models import actions, common, containers, nodes, routers, triggers

        raise_sites = {}
        d = containers.UUIDDict()

        def conflict():
            d.record_group_uuid("g", "u1")
            d.record_group_uuid("g", "u2")

        raise_sites[50] = _raises(conflict)

        def trig():
            t = triggers.Trigger("K", ["kw"], flow_name="c15_no_such_flow")
            t.record_global_uuids(containers.UUIDDict(), require_existing=True)

        raise_sites[51] = _raises(trig)
        raise_sites[35] = _raises(lambda: actions.SendMessageAction(text=""))
        raise_sites[45] = _raises(lambda: routers.RouterCase("c15_no_such_test", ["x"], "cat"))
        raise_sites[44] = _raises(lambda: nodes.EnterFlowNode("f").update_default_exit("u"))
        raise_sites[40] = (_raises(lambda: nodes.EnterFlowNode("")) and _raises(lambda: nodes.SwitchRouterNode(""))
                           and _raises(lambda: nodes.CallWebhookNode(result_name="", url="http://x"))
                           and _raises(lambda: nodes.CallWebhookNode(result_name="r", url="")))
        raise_sites[39] = (_raises(lambda: list_of_pairs_to_dict(["a"])) and _raises(lambda: list_of_pairs_to_dict([["a", "b", "c"]]))
                           and _raises(lambda: list_of_pairs_to_dict(["a", "b"]))
                           and not _raises(lambda: list_of_pairs_to_dict([""])) and not _raises(lambda: list_of_pairs_to_dict([["a", "b"]])))
        raise_sites[34] = _raises(lambda: [][0])
        from rpft.rapidpro.models import campaigns

        raise_sites[52] = (_raises(lambda: triggers.Trigger("K", [], flow_name="f"))
                           and _raises(lambda: triggers.Trigger("K", [""], flow_name="f"))
                           and _raises(lambda: triggers.Trigger("C", [], flow_name=""))
                           and _raises(lambda: triggers.Trigger("C", [], flow_name="f", group_names=[""], group_uuids=[]))
                           and not _raises(lambda: triggers.Trigger("K", ["k"], flow_name="f", group_names=["g"], group_uuids=[])))
        raise_sites[53] = (_raises(lambda: campaigns.CampaignEvent(1, "D", "M", -1, "I", relative_to_label="Created On",
                                                                   flow_name=None, message=None, base_language=None))
                           and not _raises(lambda: campaigns.CampaignEvent(1, "D", "M", -1, "I", relative_to_label="Created On",
                                                                           flow_name=None, message={"eng": "m"}, base_language="eng")))
        max_value_a = _limit(lambda n: actions.SetContactFieldAction("field", "x" * n), 640)
        max_value_b = _limit(lambda n: actions.SetRunResultAction("res", "x" * n), 640)
        if max_value_a != max_value_b:
            raise Refuse(f"value limits differ: contact field {max_value_a}, run result {max_value_b}")
        raise_sites[36] = True
        max_cat = _limit(lambda n: routers.RouterCategory("x" * n), 115)
        raise_sites[38] = True
        max_key = _limit(lambda n: common.generate_field_key("x" * n) if n else None, 36)
        raise_sites[37] = _raises(lambda: common.generate_field_key("123"))
        out.append(f"Definition c15_max_value_len : N := {max_value_a}%N.")
        out.append(f"Definition c15_max_category_len : N := {max_cat}%N.")
        out.append(f"Definition c15_max_field_key_len : N := {max_key}%N.")

        # parser-level KeyError / ParserError sites, on a real (tiny) CSV workbook
        from rpft import converters

        wb = os.path.join(tmp, "wb")
        os.makedirs(wb)
        with open(os.path.join(wb, "content_index.csv"), "w", newline="") as f:
            f.write("type,sheet_name\r\ndata_sheet,d\r\ntemplate_definition,t\r\n")
        with open(os.path.join(wb, "d.csv"), "w", newline="") as f:
            f.write("ID,v\r\nr1,x\r\n")
        with open(os.path.join(wb, "t.csv"), "w", newline="") as f:
            f.write("row_id,type,from,message_text\r\n1,send_message,start,hi\r\n")
        silent = logging.getLogger("main")
        old_handlers = list(silent.handlers)
        for h in old_handlers:
            silent.removeHandler(h)
        silent.addHandler(logging.NullHandler())
        try:
            parser = converters.get_content_index_parser([wb], "csv", None, [])
            raise_sites[8] = (_raises(lambda: parser.get_data_sheet_row("c15_nope", "r1"))
                              and _raises(lambda: parser.get_data_sheet_row("d", "c15_nope"))
                              and _raises(lambda: parser.get_data_sheet_rows("c15_nope"))
                              and not _raises(lambda: parser.get_data_sheet_row("d", "r1")))
            raise_sites[9] = _raises(lambda: parser.get_template_sheet("c15_nope")) and not _raises(lambda: parser.get_template_sheet("t"))
            raise_sites[3] = _raises(lambda: parser._get_sheet_or_die("c15_nope")) and not _raises(lambda: parser._get_sheet_or_die("t"))
            from rpft.parsers.creation.flowparser import FlowParser

            fp = FlowParser(containers.RapidProContainer(), "f", table=parser.get_template_sheet("t").table)
            raise_sites[32] = _raises(lambda: fp.row_id_to_nodegroup["c15_nope"])
        finally:
            for h in list(silent.handlers):
                silent.removeHandler(h)
            for h in old_handlers:
                silent.addHandler(h)
        out.append("Definition c15_raise_sites : list (N * N) := ["
                   + "; ".join(f"({a}%N, {1 if raise_sites[a] else 0}%N)" for a in sorted(raise_sites)) + "].")

        # ---------------------------------------------------------------- the command (behavioural)
        import rpft.cli as cli

        class Boom(Exception):
            pass

        outp = os.path.join(tmp, "out.json")
        sentinel = "SENTINEL-C15"

        def run_with(fake):
            with open(outp, "w") as f:
                f.write(sentinel)
            real = cli.converters.create_flows
            cli.converters.create_flows = fake
            old_argv = sys.argv
            sys.argv = ["rpft", "create_flows", "-f", "csv", "-o", outp, wb]
            sys.stderr = io.StringIO()
            old_stdout = sys.stdout
            sys.stdout = io.StringIO()
            try:
                try:
                    cli.main()          # the command as `python -m rpft.cli` / the `rpft` script run it
                    how = "returned"
                except Boom:
                    how = "exception"
                except SystemExit as e:
                    how = "exit" if e.code not in (0, None) else "exit0"
                except BaseException as e:
                    how = "other:" + type(e).__name__
            finally:
                cli.converters.create_flows = real
                sys.stderr = old_stderr
                sys.stdout = old_stdout
                sys.argv = old_argv
            content = open(outp).read() if os.path.exists(outp) else None
            return how, content

        def fake_raise(*a, **k):
            if len(a) > 1 and a[1]:
                raise Refuse("rpft.cli.create_flows passes an output path to the library function")
            raise Boom()

        def fake_exit(*a, **k):
            raise SystemExit(1)

        payload = {"flows": [{"name": "é", "n": 1}], "version": "13"}

        def fake_ok(*a, **k):
            return payload

        how1, c1 = run_with(fake_raise)
        how2, c2 = run_with(fake_exit)
        how3, c3 = run_with(fake_ok)
        untouched = (c1 == sentinel and c2 == sentinel)
        propagates = (how1 == "exception" and how2 == "exit")
        complete = (how3 == "returned" and c3 == json.dumps(payload, indent=4))
        out.append(f"Definition c15_cli_error_untouched : bool := {coq_bool(untouched)}.")
        out.append(f"Definition c15_cli_error_propagates : bool := {coq_bool(propagates)}.")
        out.append(f"Definition c15_cli_ok_dumps_indent4 : bool := {coq_bool(complete)}.")
        notes.append(f"C15: {len(pairs)} logger sites, shutdown threshold {threshold}, "
                     f"cli probes: {how1}/{how2}/{how3}")
    finally:
        sys.stderr = old_stderr
        os.chdir(old_cwd)
        # importing rpft.cli / calling initialize_main_logger installs terminating handlers on
        # logger "main": put the logger back as it was for the generators that run after this one
        lg = logging.getLogger("main")
        for h in list(lg.handlers):
            if h not in saved_handlers:
                lg.removeHandler(h)
                try:
                    h.close()
                except Exception:
                    pass
        for flt in list(lg.filters):
            if flt not in saved_filters:
                lg.removeFilter(flt)
        lg.setLevel(saved_level)
        shutil.rmtree(tmp, ignore_errors=True)


GENERATORS = [tables_c15]


# ---------------------------------------------------------------------------- which handlers see CRITICAL records
def tables_c15_configs(out, notes):
    """c15_log_configs: for every invocation environment of `rpft create_flows` that translator/c15_configs.py
    discovers in the tree at hand (environment variables the package reads x plausible values, working
    directories, options), what the logging configuration is when the library starts to work:
        (id, (start, (effective level of logger "main", [(lowest level at which the handler ends the process,
                                                            exit status)] in call order,
                      (lowest level at which logger.log ends the process, exit status))))
    start: 0 = the command reaches the library call; 1 = it ends before (non-zero status, output untouched);
    2 = ends before with status 0, output untouched; 3 = anything else.  1000 = never.  For start <> 0 the
    last pair is (1000, status the command ended with).
    Configurations the argument parser rejects (usage error) are not reachable and are left out."""
    import hashlib

    import c15_configs as C
    from gen_tables import SRC

    disc = C.discover(SRC, sys.executable)
    if disc.get("parser_error"):
        raise Refuse(f"C15 configurations: the create_flows subcommand cannot be introspected: {disc['parser_error']}")
    cfgs = C.enumerate_configs(disc)
    results = C.probe_all(cfgs, disc, SRC, sys.executable)
    rows, names = [], []
    for i, (c, r) in enumerate(zip(cfgs, results)):
        if r.get("unavailable") or r.get("usage_error"):
            notes.append(f"C15 config {i} {c['name']}: " + ("cannot be set up on this machine" if r.get("unavailable") else "rejected by the argument parser"))
            continue
        if r.get("died") and "timeout" in (r.get("error") or ""):
            raise Refuse(f"C15 configurations: the probe of {c['name']} timed out")
        st = C.start_code(r)
        lg = r.get("log") or {}
        hs = [(h["threshold"], h["exit"]) for h in lg.get("handlers", [])] if st == 0 else []
        level = lg.get("level", 0) if st == 0 else 0
        # a configuration that never gets to the library call: the status it ended with, in place of the exit status
        pre = r.get("status")
        obs = tuple(lg.get("observed") or (C.NEVER, 0)) if st == 0 else (C.NEVER, pre if isinstance(pre, int) and pre >= 0 else 1)
        rows.append((i, st, level, hs, obs))
        what = ", ".join(f"{h['cls']}[{h['target']}] stops at {h['threshold']}" for h in lg.get("handlers", [])) if st == 0 \
            else f"ends before the library call: status {r.get('status')} ({(r.get('error') or '')[:80]})"
        names.append(f"C15 config {i} {c['name']}: {what}")
    if not rows or rows[0][0] != 0 or rows[0][1] != 0:
        raise Refuse("C15 configurations: the default invocation does not reach the library call; nothing can be measured "
                     f"({results[0].get('error')}, status {results[0].get('status')}, {results[0].get('stderr_tail', '')[-200:]})")
    digest = int(hashlib.sha256("\n".join(c["name"] for c in cfgs).encode()).hexdigest()[:12], 16)

    def row(r):
        i, st, level, hs, obs = r
        hl = "[" + "; ".join(f"({t}%N, {e}%N)" for t, e in hs) + "]"
        return f"({i}%N, ({st}%N, ({level}%N, ({hl}, ({obs[0]}%N, {obs[1]}%N)))))"

    out.append("Definition c15_log_configs : list (N * (N * (N * (list (N * N) * (N * N))))) := [\n  "
               + ";\n  ".join(row(r) for r in rows) + "].")
    out.append(f"Definition c15_log_configs_digest : N := {digest}%N.")
    notes.append(f"C15: {len(rows)} invocation environments probed; environment variables read by the package: "
                 f"{disc['env_vars']} (computed names at {disc['env_dynamic']}, environment used as a whole at {disc['env_opaque']}); "
                 f"options of create_flows: {[o['option_strings'] or o['dest'] for o in disc['options']]}; log files: {disc['log_files']}")
    notes.extend(names)


GENERATORS.append(tables_c15_configs)
