"""How FlowParser reads the edges of a row (shared by every model of the flow compiler: Io/CliFlow.v, Comp/Compile.v).

* padding_edges_dropped_at_read   BEHAVIOURAL probe through FlowParser: a sheet is rectangular, so a row with fewer edges
                                  than the widest row carries blank edge cells, which the row parser turns into trivial
                                  edges (blank `from`, blank condition).  true: every row type ignores trivial edges other
                                  than the first (dropped when the row is read: the tree after the repair of
                                  `padded-edge-columns`); false: only rows that create a node do (a no_op / go_to / exit /
                                  block row applies them to the preceding row).  A third behaviour => Refuse.
                                  On either tree the FIRST edge of a row is kept even when trivial (a blank `from` means
                                  "from the previous row"): checked on a second sheet, for a row that creates a node and for
                                  a no_op row; a tree that drops it => Refuse (the models keep the first edge).
"""
from gen_tables import Refuse, coq_bool

HEADER = "row_id,type,edges.1.from,edges.2.from,message_text\n"
# row 3 is a no_op taking row 1's exit, with a blank padding cell in edges.2.from; row 4 continues from it.
# The padding edge, if applied, also takes the exit of the row before the no_op (row 2).
SHEET = HEADER + "1,send_message,start,,one\n2,send_message,1,,two\n3,no_op,1,,\n4,send_message,3,,four\n"


# rows 2 and 3 have a blank first `from`: row 2 (node) continues row 1, row 3 (no_op) takes the exit of row 2,
# row 4 continues the no_op.
SHEET_FIRST = HEADER + "1,send_message,start,,one\n2,send_message,,,two\n3,no_op,,,\n4,send_message,3,,four\n"


def tables_flowread(out, notes):
    import logging

    import tablib
    from rpft.parsers.creation.flowparser import FlowParser
    from rpft.rapidpro.models.containers import RapidProContainer

    class Crit(Exception):
        pass

    class H(logging.Handler):
        def emit(self, record):
            if record.levelno >= logging.CRITICAL:
                raise Crit(record.getMessage())

    lg = logging.getLogger("main")
    h = H()
    lg.addHandler(h)
    old_level = lg.level
    lg.setLevel(logging.CRITICAL)
    try:
        try:
            flow = FlowParser(RapidProContainer(), "probe", tablib.import_set(SHEET, format="csv")).parse().render()
            flow1 = FlowParser(RapidProContainer(), "probe1", tablib.import_set(SHEET_FIRST, format="csv")).parse().render()
        except (Crit, SystemExit, Exception) as e:
            raise Refuse(f"flowread probe: the probe sheet does not compile: {type(e).__name__}: {e}")
    finally:
        lg.removeHandler(h)
        lg.setLevel(old_level)
    by_text = {n["actions"][0]["text"]: n for n in flow["nodes"] if n.get("actions")}
    if set(by_text) != {"one", "two", "four"}:
        raise Refuse(f"flowread probe: unexpected nodes {sorted(by_text)}")
    d1 = by_text["one"]["exits"][0].get("destination_uuid")
    d2 = by_text["two"]["exits"][0].get("destination_uuid")
    four = by_text["four"]["uuid"]
    if d1 != four:
        raise Refuse(f"flowread probe: the no_op row does not forward row 1 to row 4 ({d1})")
    if d2 is None:
        dropped = True
    elif d2 == four:
        dropped = False
    else:
        raise Refuse(f"flowread probe: third behaviour, row 2 leads to {d2}")
    # the first edge is kept even when trivial
    t1 = {n["actions"][0]["text"]: n for n in flow1["nodes"] if n.get("actions")}
    if set(t1) != {"one", "two", "four"}:
        raise Refuse(f"flowread probe: unexpected nodes {sorted(t1)} in the first-edge sheet")
    if t1["one"]["exits"][0].get("destination_uuid") != t1["two"]["uuid"]:
        raise Refuse("flowread probe: a trivial FIRST edge of a node row is not applied (row 1 does not lead to row 2)")
    if t1["two"]["exits"][0].get("destination_uuid") != t1["four"]["uuid"]:
        raise Refuse("flowread probe: a trivial FIRST edge of a no_op row is not applied (row 2 does not lead to row 4)")
    out.append(f"Definition padding_edges_dropped_at_read : bool := {coq_bool(dropped)}.")
    notes.append(f"flow compiler: padding edges (trivial edges other than the first) dropped at read for every row type: {dropped}")


GENERATORS = [tables_flowread]
