"""C03 / E7 tables: how the loop mechanics of FlowParser._parse_block treat the templating
context, classified BEHAVIOURALLY on the code that is really installed (small probe sheets run
through FlowParser with a spy on SheetParser.parse_next_row that snapshots the context each
row is read with):

* loop_scope_policy   ScopeRestore: after end_for a binding that the loop (or index) variable
                      shadowed has its outer value again;  ScopePop: it is gone (dict.pop)
* empty_loop_policy   EmptySkip: the body of a begin_for over zero elements is read with
                      omit_templating (skipped);  EmptyFallThrough: it is not consumed by the
                      loop at all (its rows are read by the enclosing block)
* remove_tolerant     SheetParser.remove_from_context on an absent key: true = no-op,
                      false = KeyError

The models (Comp/Blocks.v, Tmpl/RowLoop.v) take these as parameters, so they follow the code
before and after the repairs; anything that is neither behaviour -> Refuse (fail closed)."""
from gen_tables import Refuse, coq_bool

HEADER = "row_id,type,from,loop_variable,message_text\n"


def tables_c03(out, notes):
    import logging

    import tablib
    from rpft.parsers.common.sheetparser import SheetParser
    from rpft.parsers.creation.flowparser import FlowParser
    from rpft.rapidpro.models.containers import RapidProContainer

    class Crit(Exception):
        pass

    class H(logging.Handler):
        def emit(self, record):
            if record.levelno >= logging.CRITICAL:
                raise Crit(record.getMessage())

    def trace(csvtext, context):
        """-> (status, [(row index, templated, context snapshot)], final context, messages)"""
        reads = []
        orig = SheetParser.parse_next_row

        def spy(sp, omit_templating=False, return_index=False):
            import copy

            it = copy.copy(sp.iterator)
            try:
                _, idx = next(it)
                reads.append((idx - 2, not omit_templating, dict(sp.context)))
            except StopIteration:
                pass
            return orig(sp, omit_templating=omit_templating, return_index=return_index)

        SheetParser.parse_next_row = spy
        fp = None
        try:
            fp = FlowParser(RapidProContainer(), "probe", tablib.import_set(csvtext, format="csv"), context=dict(context))
            flow = fp.parse().render()
            msgs = [a.get("text") for n in flow["nodes"] for a in n["actions"] if a["type"] == "send_msg"]
            status = "ok"
        except Crit as e:
            status, msgs = "critical: " + str(e), None
        except SystemExit:
            status, msgs = "exit", None
        except Exception as e:
            status, msgs = type(e).__name__ + ": " + str(e), None
        finally:
            SheetParser.parse_next_row = orig
        final = dict(fp.sheet_parser.context) if fp is not None else None
        return status, reads, final, msgs

    lg = logging.getLogger("main")
    h = H()
    lg.addHandler(h)
    old_level = lg.level
    lg.setLevel(logging.CRITICAL)
    try:
        # control: an ordinary loop unrolls, binds its variables inside and leaves nothing behind
        st, reads, final, msgs = trace(
            HEADER + "1,begin_for,start,zq;zi,a;b\n,send_message,,,in {{zq}}{{zi}}\n,end_for,,,\n,send_message,,,tail\n", {})
        if not (st == "ok" and msgs == ["in a0", "in b1", "tail"] and final == {}):
            raise Refuse(f"C03 control probe: an ordinary loop does not unroll as expected: {st} {msgs} {final}")

        # ---- scope: (A) loop and index variable named like context entries; the body does not use them
        outer = {"zq": "OUT", "zi": "IDX", "zk": "KEEP"}
        st, reads, final, msgs = trace(
            HEADER + "1,begin_for,start,zq;zi,a;b\n,send_message,,,in\n,end_for,,,\n,send_message,,,tail\n", outer)
        tail = [c for (i, t, c) in reads if i == 3]
        if st != "ok" or len(tail) != 1 or tail[0] != final:
            raise Refuse(f"C03 scope probe A: unexpected run {st} {reads}")
        a = "ScopeRestore" if final == outer else "ScopePop" if final == {"zk": "KEEP"} else None
        # (B) an inner loop reusing the outer loop's variable: the row after the inner end_for
        st, reads, final2, msgs = trace(
            HEADER + "1,begin_for,start,zq,a;b\n,begin_for,,zq,p\n,send_message,,,in\n,end_for,,,\n,send_message,,,out\n,end_for,,,\n", {})
        after_inner = [c for (i, t, c) in reads if i == 4]
        # (under ScopePop the outer end_for then pops a variable that is already gone: KeyError)
        if len(after_inner) != 2:
            raise Refuse(f"C03 scope probe B: unexpected run {st} {reads}")
        b = "ScopeRestore" if after_inner == [{"zq": "a"}, {"zq": "b"}] else "ScopePop" if after_inner == [{}, {}] else None
        if a is None or a != b:
            raise Refuse(f"C03 scope probes disagree or show a third behaviour: A={final} B={after_inner}")
        out.append("Inductive loop_scope := ScopePop | ScopeRestore.")
        out.append(f"Definition loop_scope_policy : loop_scope := {a}.")

        # ---- removal of a key that is not there
        sp = SheetParser(None, tablib.Dataset(headers=("a",)), {"zk": "KEEP"})
        try:
            sp.remove_from_context("zq_never_added")
            tol = True
        except KeyError:
            tol = False
        if sp.context != {"zk": "KEEP"}:
            raise Refuse(f"C03: remove_from_context of an absent key changed the context: {sp.context}")
        sp.add_to_context("zq", 1)
        sp.remove_from_context("zq")
        if sp.context != {"zk": "KEEP"}:
            raise Refuse("C03: add_to_context/remove_from_context do not cancel")
        out.append(f"Definition remove_tolerant : bool := {coq_bool(tol)}.")

        # ---- empty loop: the variable is bound outside so that the removal cannot interfere
        st, reads, final3, msgs = trace(
            HEADER + "1,send_message,start,,hi\n2,begin_for,,zq,{@ [] @}\n,send_message,,,body\n,end_for,,,\n3,send_message,,,bye\n",
            {"zq": "OUT"})
        body = [(t, c) for (i, t, c) in reads if i == 2]
        if len(body) == 1 and body[0][0] is False and st == "ok" and msgs == ["hi", "bye"]:
            e = "EmptySkip"
        elif len(body) == 1 and body[0][0] is True and st != "ok":
            e = "EmptyFallThrough"
        else:
            raise Refuse(f"C03 empty-loop probe shows a third behaviour: {st} {reads} {msgs}")
        out.append("Inductive empty_loop := EmptyFallThrough | EmptySkip.")
        out.append(f"Definition empty_loop_policy : empty_loop := {e}.")
    finally:
        lg.removeHandler(h)
        lg.setLevel(old_level)
    notes.append(f"C03: loop mechanics probed through FlowParser: scope={a} empty={e} remove_tolerant={tol}")


GENERATORS = [tables_c03]
