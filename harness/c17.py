"""C17 — `--strip_uuids` sheets do not depend on the UUIDs in the flow file.

(a) correspondence: Exp/ToRows.v (extracted) against FlowContainer.to_rows on the same
    loaded flows: row order, row ids, types, edges (from + condition), go_to targets and every
    FlowRowModel field, numbered and readable, Ok/Err;
(b) the property's own oracle on the implementation: export f and (rename sigma f) with
    `converters.flows_to_sheets(..., strip_uuids=True)`, numbered False/True, byte-compare the
    CSV files (also across PYTHONHASHSEED values in subprocesses), no renamed uuid in the
    output, numbered ids 1..n in row order, readable ids unique."""
import csv
import io
import json
import logging
import os
import re
import shutil
import subprocess
import tempfile

import c17_gen as G
from common import PY, impl_env, run_cli_mode

LEVEL = "proof"
UUID_RE = re.compile(r"[0-9a-fA-F]{8}-[0-9a-fA-F]{4}-[0-9a-fA-F]{4}-[0-9a-fA-F]{4}-[0-9a-fA-F]{12}")
FIXTURE = "tests/output/all_test_flows.json"

LEAK_KEY = "has_group-case-outside-group-split"


# ------------------------------------------------------------------ implementation side
def export_impl(cont, numbered, strip=True):
    """bytes of every CSV written by flows_to_sheets, or ('err', kind)"""
    from rpft import converters

    d = tempfile.mkdtemp(prefix="c17x")
    try:
        p = os.path.join(d, "in.json")
        with open(p, "w", encoding="utf-8") as f:
            json.dump(cont, f)
        o = os.path.join(d, "out")
        os.mkdir(o)
        r = run_cli_mode(converters.flows_to_sheets, p, o, "csv", strip, numbered)
        if r[0] != "ok":
            return ("err", r[1])
        return ("ok", {fn: open(os.path.join(o, fn), "rb").read().decode("utf-8") for fn in sorted(os.listdir(o))})
    finally:
        shutil.rmtree(d, ignore_errors=True)


DRIVER = r'''
import json, os, sys, logging
logging.disable(logging.WARNING)
from rpft import converters
jobs = json.load(open(sys.argv[1]))
out = []
for j in jobs:
    os.makedirs(j["out"], exist_ok=True)
    try:
        converters.flows_to_sheets(j["in"], j["out"], "csv", True, j["numbered"])
        out.append({fn: open(os.path.join(j["out"], fn), "rb").read().decode("utf-8") for fn in sorted(os.listdir(j["out"]))})
    except BaseException as e:
        out.append({"__err__": type(e).__name__})
json.dump(out, open(sys.argv[2], "w"))
'''


def export_subprocess(conts, hashseed):
    """Exports every (container, numbered) under a given PYTHONHASHSEED in one subprocess."""
    d = tempfile.mkdtemp(prefix="c17h")
    try:
        jobs = []
        for i, (cont, numbered) in enumerate(conts):
            p = os.path.join(d, f"in{i}.json")
            with open(p, "w", encoding="utf-8") as f:
                json.dump(cont, f)
            jobs.append({"in": p, "out": os.path.join(d, f"out{i}"), "numbered": numbered})
        jp, rp, dp = os.path.join(d, "jobs.json"), os.path.join(d, "res.json"), os.path.join(d, "driver.py")
        json.dump(jobs, open(jp, "w"))
        open(dp, "w").write(DRIVER)
        env = impl_env()
        env["PYTHONHASHSEED"] = str(hashseed)
        subprocess.run([PY, dp, jp, rp], cwd=d, env=env, stdout=subprocess.DEVNULL, stderr=subprocess.DEVNULL, timeout=900)
        if not os.path.exists(rp):
            return None
        res = json.load(open(rp))
        return [("err", r["__err__"]) if "__err__" in r else ("ok", r) for r in res]
    finally:
        shutil.rmtree(d, ignore_errors=True)


def sheet_rows(text):
    rows = list(csv.reader(io.StringIO(text, newline="")))
    if not rows:
        return [], []
    return rows[0], rows[1:]


def check_export(cont, ren, numbered, res, res2):
    """The property's oracle for one (container, renaming, numbered).  Returns (key, summary) or None."""
    if res[0] != res2[0]:
        return ("outcome-differs-under-renaming", f"original: {res[0]} {res[1] if res[0] == 'err' else ''}; renamed: {res2[0]} {res2[1] if res2[0] == 'err' else ''}")
    if res[0] == "err":
        return None
    if res[1] != res2[1]:
        for fn in res[1]:
            if res[1][fn] != res2[1].get(fn):
                a, b = res[1][fn].splitlines(), (res2[1].get(fn) or "").splitlines()
                k = next((i for i in range(min(len(a), len(b))) if a[i] != b[i]), min(len(a), len(b)))
                return ("bytes-differ-under-renaming",
                        f"{fn} (numbered={numbered}, renaming={ren.mode}) differs at line {k + 1}: "
                        f"{a[k] if k < len(a) else '<eof>'!r} vs {b[k] if k < len(b) else '<eof>'!r}")
    olds = set(ren.map) | set(ren.map.values())
    for fn, text in res[1].items():
        for other in (res[1][fn], res2[1][fn]):
            leaked = [u for u in olds if u in other]
            shaped = [u for u in UUID_RE.findall(other) if u != G.TEMPLATE_UUID]
            if leaked or shaped:
                return ("uuid-in-output", f"{fn}: uuid {(leaked or shaped)[0]} appears in the stripped sheet")
        hdr, rows = sheet_rows(text)
        if not rows:
            continue
        if "row_id" not in hdr:
            return ("row-ids", f"{fn}: no row_id column")
        ids = [r[hdr.index("row_id")] for r in rows]
        if numbered and ids != [str(i + 1) for i in range(len(ids))]:
            return ("row-ids", f"{fn}: numbered ids are {ids[:8]}..., expected 1..{len(ids)}")
        if not numbered and (len(set(ids)) != len(ids) or "" in ids or "start" in ids):
            return ("row-ids", f"{fn}: readable ids not unique/non-empty: {sorted(i for i in ids if ids.count(i) > 1 or i in ('', 'start'))[:4]}")
        # references resolve: every edge origin is "start" or a row id, every go_to target is a row id
        known = set(ids)
        from_cols = [i for i, h in enumerate(hdr) if re.fullmatch(r"from|edges\.\d+\.from", h)]
        tcol, mcol = hdr.index("type") if "type" in hdr else None, hdr.index("message_text") if "message_text" in hdr else None
        for k, r in enumerate(rows):
            froms = [x for i in from_cols for x in ([r[i]] if r[i] else [])]
            bad_from = [x for x in froms if x != "start" and x not in known]
            if bad_from or not froms:
                return ("row-ids", f"{fn}: row {k + 1} ({ids[k]}): edge origin {bad_from[:1] or 'missing'} names no row (numbered={numbered})")
            if tcol is not None and r[tcol] == "go_to":
                # the target cell is a list of row ids in the cell syntax: one element is written "id|"
                tg = [x for x in (r[mcol] if mcol is not None else "").split("|") if x]
                if not tg or any(x not in known for x in tg):
                    return ("row-ids", f"{fn}: go_to row {k + 1} ({ids[k]}): target {r[mcol] if mcol is not None else None!r} names no row (numbered={numbered})")
    return None


def sheet_graph(text):
    """rows of a sheet with every reference (edge origins, go_to targets) replaced by the POSITION of
    the row it names (-1 for "start", None when it names no row)"""
    hdr, rows = sheet_rows(text)
    if not rows or "row_id" not in hdr:
        return []
    ids = [r[hdr.index("row_id")] for r in rows]
    pos = {}
    for i, x in enumerate(ids):
        pos.setdefault(x, i)
    pos["start"] = -1
    from_cols = [i for i, h in enumerate(hdr) if re.fullmatch(r"from|edges\.\d+\.from", h)]
    tcol, mcol = hdr.index("type") if "type" in hdr else None, hdr.index("message_text") if "message_text" in hdr else None
    out = []
    for r in rows:
        froms = [pos.get(r[i]) for i in from_cols if r[i]]
        tg = []
        if tcol is not None and mcol is not None and r[tcol] == "go_to":
            tg = [pos.get(x) for x in r[mcol].split("|") if x]
        out.append((froms, tg))
    return out


def check_same_graph(readable, numbered):
    """The readable and the numbered export of one container must denote the same graph: row k of
    both sheets refers to rows at the same positions (a reference that names an existing but WRONG
    row is invisible to the per-sheet checks).  Returns (key, summary) or None."""
    if readable[0] != "ok" or numbered[0] != "ok":
        return None
    for fn in readable[1]:
        if fn not in numbered[1]:
            continue
        a, b = sheet_graph(readable[1][fn]), sheet_graph(numbered[1][fn])
        if a != b:
            k = next((i for i in range(min(len(a), len(b))) if a[i] != b[i]), min(len(a), len(b)))
            return ("row-ids", f"{fn}: row {k + 1} refers to rows at positions {a[k] if k < len(a) else None} in the readable sheet "
                               f"but {b[k] if k < len(b) else None} in the numbered sheet (origins, go_to targets; -1 = start)")
    return None


def leak_corner_uuids(cont):
    """input class of the known corner: group uuids of has_group cases in routers whose operand
    is not @contact.groups (the exporter writes arguments[0] of such a case into the condition)"""
    out = set()
    for fl in cont["flows"]:
        for n in fl["nodes"]:
            r = n.get("router")
            if r and r.get("type") == "switch" and r.get("operand") != "@contact.groups":
                out |= {k["arguments"][0] for k in r.get("cases", []) if k.get("type") == "has_group" and k.get("arguments")}
    return out


def only_corner_leak(cont, ren, res, res2):
    """True iff the two exports are both Ok and become byte-identical, and free of every other
    renamed uuid, once the corner's leaked group uuids are masked on both sides."""
    leaked = leak_corner_uuids(cont)
    if not leaked or res[0] != "ok" or res2[0] != "ok" or set(res[1]) != set(res2[1]):
        return False
    others = (set(ren.map) | set(ren.map.values())) - leaked - {ren.map[u] for u in leaked}
    for fn in res[1]:
        a, b = res[1][fn], res2[1][fn]
        for u in leaked:
            a, b = a.replace(u, "<G>"), b.replace(ren.map[u], "<G>")
        if a != b or any(u in a for u in others) or [u for u in UUID_RE.findall(a) if u != G.TEMPLATE_UUID]:
            return False
    return True


def graph_features(fl):
    """measured features of one flow (for the distribution and the non-triviality rule)"""
    ids = [n["uuid"] for n in fl["nodes"]]
    pos = {u: i for i, u in enumerate(ids)}
    indeg = {}
    back = selfl = fwd = dead = 0
    for n in fl["nodes"]:
        for e in n["exits"]:
            d = e.get("destination_uuid")
            if not d:
                dead += 1
                continue
            indeg[d] = indeg.get(d, 0) + 1
            if d == n["uuid"]:
                selfl += 1
            elif pos.get(d, -1) <= pos[n["uuid"]]:
                back += 1
            else:
                fwd += 1
    return dict(nodes=len(ids), joins=sum(1 for v in indeg.values() if v > 1), back=back, selfloops=selfl, dead=dead,
                multi_action=sum(1 for n in fl["nodes"] if len(n.get("actions", [])) > 1))


# ------------------------------------------------------------------ correspondence
from common import enc_str, enc_list, parse_sexp, dec_str  # noqa: E402


def rowid_features(fl, irows, rstats):
    """Distribution of the situations the row-id theorems are about, measured on one loaded flow and
    the rows the implementation exported for it (readable ids)."""
    gotos = [(r[2][0][0] if r[2] else None, r[3][0] if r[3] else None) for r in irows if r[1] == "go_to"]
    by_src, by_tgt, by_pair = {}, {}, {}
    for s_, t_ in gotos:
        by_src[s_] = by_src.get(s_, 0) + 1
        by_tgt[t_] = by_tgt.get(t_, 0) + 1
        by_pair[(s_, t_)] = by_pair.get((s_, t_), 0) + 1
    shorts, mains = {}, {}
    for n in fl.nodes:
        try:
            sn = n.short_name()
        except Exception:
            continue
        shorts[sn] = shorts.get(sn, 0) + 1
        try:
            mv = n.actions[0].main_value() if n.actions else (n.router.result_name or getattr(n.router, "operand", ""))
        except Exception:
            mv = None
        mains.setdefault(sn, set()).add(mv if isinstance(mv, str) else None)
    ids = [r[0] for r in irows]
    rstats["flows"] = rstats.get("flows", 0) + 1
    rstats["rows"] = rstats.get("rows", 0) + len(irows)
    rstats["goto_rows"] = rstats.get("goto_rows", 0) + len(gotos)

    def bump(k, c):
        rstats[k] = rstats.get(k, 0) + (1 if c else 0)

    bump("flows_with_2+_back_edges_from_one_node", any(v > 1 for v in by_src.values()))
    bump("flows_with_2+_back_edges_same_source_and_target", any(v > 1 for v in by_pair.values()))
    bump("flows_with_2+_back_edges_into_one_node", any(v > 1 for v in by_tgt.values()))
    bump("flows_with_3+_goto_rows", len(gotos) >= 3)
    bump("flows_with_equal_short_names", any(v > 1 for v in shorts.values()))
    bump("flows_with_truncation_clash_first_15_chars_equal",
         any(shorts[k] > 1 and len(mains[k]) > 1 and len(k.split(".", 1)[-1]) >= 15 for k in shorts))
    bump("flows_with_counter_suffix_beyond_1", any(re.search(r"\.(\d+)$", i) and int(re.search(r"\.(\d+)$", i).group(1)) >= 2 for i in ids))
    bump("flows_with_goto_id_clash", len({i for i in ids if i.startswith("goto.")}) >= 2
         and any(re.fullmatch(r"goto\..*\.\d+", i) for i in ids))


class Unencodable(Exception):
    pass


def _s(x):
    if not isinstance(x, str):
        raise Unencodable(f"not a string: {x!r}")
    return enc_str(x)


def _opt(x):
    return "()" if x is None else "(" + x + ")"


class Enc:
    """loaded FlowContainer -> S-expression for the model; uuids become naturals"""

    def __init__(self):
        self.ids = {}

    def u(self, x):
        if not isinstance(x, str) or not x:
            raise Unencodable(f"not a uuid: {x!r}")
        if x not in self.ids:
            self.ids[x] = len(self.ids) + 1
        return str(self.ids[x])

    def ou(self, x):
        return "()" if not x else "(" + self.u(x) + ")"

    def strs(self, l):
        if not isinstance(l, list):
            raise Unencodable("not a list")
        return enc_list([_s(x) for x in l])

    def action(self, a):
        t = a.type
        if t == "send_msg":
            tm = getattr(a, "templating", None)
            templ = None
            if tm:
                templ = enc_list([_s(tm.name), _s(tm.template_uuid), self.strs(tm.variables)])
            return enc_list(["0", _s(a.text), self.strs(a.quick_replies), self.strs(a.attachments), _opt(templ)])
        if t == "set_contact_field":
            return enc_list(["1", _s(a.field.name), _s(a.value)])
        if t.startswith("set_contact_") and isinstance(getattr(a, "value", None), str):
            return enc_list(["2", _s(a.property), _s(a.value)])
        if t in ("add_contact_groups", "remove_contact_groups"):
            return enc_list(["3", "1" if t == "add_contact_groups" else "0",
                             enc_list([enc_list([_s(g.name), self.ou(g.uuid)]) for g in a.groups])])
        if t == "set_run_result":
            return enc_list(["4", _s(a.name), _s(a.value), _s(a.category)])
        if t == "add_contact_urn":
            return enc_list(["5", _s(a.path), _s(a.scheme)])
        if t == "enter_flow":
            return enc_list(["6", _s(a.flow.name), self.ou(a.flow.uuid)])
        if t == "call_webhook":
            return enc_list(["7", _s(a.url), _s(a.method), _s(a.body),
                             enc_list([enc_list([_s(k), _s(v)]) for k, v in a.headers.items()]), _s(a.result_name)])
        if t == "transfer_airtime":
            return enc_list(["8", enc_list([enc_list([_s(k), _s(str(v))]) for k, v in a.amounts.items()]), _s(a.result_name)])
        return enc_list(["9", _s(t)])

    def category(self, c):
        return enc_list([self.u(c.uuid), _s(c.name), self.ou(c.exit.destination_uuid)])

    def case(self, k):
        args = list(k.arguments)
        g = None
        if k.type == "has_group" and args:
            g, args = args[0], args[1:]
        return enc_list([_s(k.type), self.ou(g) if g else "()", self.strs(args), self.u(k.category_uuid)])

    def router(self, r):
        w = r.wait_timeout
        return enc_list([_s(r.operand), _s(r.result_name or ""), "()" if w is None else f"({int(w)})",
                         enc_list([self.case(k) for k in r.cases]), enc_list([self.category(c) for c in r.categories]),
                         self.category(r.default_category),
                         _opt(self.category(r.no_response_category) if r.no_response_category else None)])

    def node(self, n):
        from rpft.rapidpro.models import nodes as N

        ui = None
        if n.ui_pos:
            ui = enc_list([_s(str(n.ui_pos[0])), _s(str(n.ui_pos[1]))])
        cls = type(n)
        if cls is N.BasicNode:
            kind = enc_list(["0", self.ou(n.default_exit.destination_uuid)])
        elif cls is N.RandomRouterNode:
            kind = enc_list(["2", _s(n.router.result_name or ""), enc_list([self.category(c) for c in n.router.categories])])
        else:
            k = {N.SwitchRouterNode: 0, N.EnterFlowNode: 1, N.CallWebhookNode: 2, N.TransferAirtimeNode: 3}[cls]
            kind = enc_list(["1", str(k), self.router(n.router)])
        return enc_list([self.u(n.uuid), enc_list([self.action(a) for a in n.actions]), _opt(ui), kind])

    def flow(self, fl):
        return enc_list([self.node(n) for n in fl.nodes])


def dec_pv(x, names):
    if x[0] == 0:
        return names[x[1]]
    if x[0] == 1:
        return dec_str(x[1])
    if x[0] == 2:
        return [dec_str(y) for y in x[1]]
    return [[dec_str(z) for z in y] for y in x[1]]


_DEFAULTS = None


def _flatten(d):
    out = {}
    for k, v in d.items():
        if isinstance(v, dict):
            for k2, v2 in v.items():
                out[f"{k}.{k2}"] = v2
        else:
            out[k] = v
    return out


def impl_row(r):
    """projection of a FlowRowModel: (id, type, edges, goto, other fields flattened)"""
    d = r.dict()
    edges = [(e["from_"], (e["condition"]["value"], e["condition"]["variable"], e["condition"]["type"], e["condition"]["name"]))
             for e in d.pop("edges")]
    rid, tp, goto = d.pop("row_id"), d.pop("type"), d.pop("mainarg_destination_row_ids")
    return (rid, tp, edges, goto, _flatten(d))


def model_row(x, names):
    global _DEFAULTS
    if _DEFAULTS is None:
        from rpft.parsers.creation.flowrowmodel import FlowRowModel

        d = FlowRowModel(type="x", edges=[]).dict()
        for k in ("row_id", "type", "edges", "mainarg_destination_row_ids"):
            d.pop(k)
        _DEFAULTS = _flatten(d)
    edges = [(dec_str(e[0]), (dec_pv(e[1][0], names), dec_str(e[1][1]), dec_str(e[1][2]), dec_str(e[1][3]))) for e in x[2]]
    pay = dict(_DEFAULTS)
    for fv in x[4]:
        k = dec_str(fv[0])
        if k not in pay:
            pay["<unknown field> " + k] = None
        pay[k] = dec_pv(fv[1], names)
    return (dec_str(x[0]), dec_str(x[1]), edges, [dec_str(g) for g in x[3]], pay)


def correspond(ctx, kind, cont, cstats, leak_expected=None):
    """Model vs FlowContainer.to_rows on every flow of the container, numbered and readable."""
    from rpft.rapidpro.models.containers import RapidProContainer

    r = run_cli_mode(RapidProContainer.from_dict, cont)
    if r[0] != "ok":
        cstats["load_error"] = cstats.get("load_error", 0) + 1
        return
    for fi, fl in enumerate(r[1].flows):
        enc = Enc()
        try:
            sx = enc.flow(fl)
        except (Unencodable, AttributeError, KeyError, TypeError) as e:
            cstats["unencodable"] = cstats.get("unencodable", 0) + 1
            continue
        names = {v: k for k, v in enc.ids.items()}
        outs = ctx.model.ask_many([f"(117 1 0 {sx})", f"(117 1 1 {sx})", f"(117 2 0 {sx})", f"(117 6 {sx})"])
        # invariant of the representation (guard of C17_no_uuid_in_sheet_repaired): only has_group cases carry a
        # group uuid.  It must hold of EVERY encoded flow, malformed and corner streams included.
        cstats["flow_wf_checked"] = cstats.get("flow_wf_checked", 0) + 1
        if parse_sexp(outs[3]) != 1:
            ctx.disagree("flow_wf is false on an encoded flow (the guard of C17_no_uuid_in_sheet_repaired is a restriction after all)",
                         dict(kind=kind, container=cont), outs[3], "every flow file")
        for nb in (False, True):
            ir = run_cli_mode(fl.to_rows, nb)
            mo = parse_sexp(outs[1 if nb else 0])
            cstats["compared"] = cstats.get("compared", 0) + 1
            ctx.v.coverage["evaluations"] += 1
            where = dict(kind=kind, flow=cont["flows"][fi]["name"], numbered=nb)
            if mo and mo[0] == 999999:
                cstats["model_err"] = cstats.get("model_err", 0) + 1
                if mo[1] != 2:
                    ctx.disagree("model ran out of fuel / internal error", dict(where, container=cont), mo, str(ir)[:200])
                elif ir[0] == "ok":
                    ctx.disagree("model crashes, implementation exports", dict(where, container=cont), "Err", f"{len(ir[1])} rows")
                continue
            if mo and mo[0] == 999998:
                ctx.disagree("model rejected the encoding", dict(where, container=cont), mo, "")
                continue
            if ir[0] != "ok":
                ctx.disagree("implementation crashes, model exports", dict(where, container=cont), f"{len(mo[1])} rows", str(ir[1:]))
                continue
            mrows = [model_row(x, names) for x in mo[1]]
            irows = [impl_row(x) for x in ir[1]]
            cstats["rows"] = cstats.get("rows", 0) + len(irows)
            # the row-id column and the references on their own (what C17_numbered_ids_are_1_to_n /
            # C17_readable_ids_unique talk about), before the comparison of whole rows
            mskel = [(r[0], [e[0] for e in r[2]], r[3]) for r in mrows]
            iskel = [(r[0], [e[0] for e in r[2]], r[3]) for r in irows]
            cstats["rowid_columns_compared"] = cstats.get("rowid_columns_compared", 0) + 1
            if mskel != iskel:
                k = next((i for i in range(min(len(mskel), len(iskel))) if mskel[i] != iskel[i]), min(len(mskel), len(iskel)))
                ctx.disagree("to_rows: row-id column / references", dict(where, container=cont, first_difference_at_row=k),
                             repr(mskel[k] if k < len(mskel) else None), repr(iskel[k] if k < len(iskel) else None))
            if not nb:
                rowid_features(fl, irows, ctx.stats.setdefault("rowid_features_of_compared_flows", {}))
            if mrows != irows:
                k = next((i for i in range(min(len(mrows), len(irows))) if mrows[i] != irows[i]), min(len(mrows), len(irows)))
                ctx.disagree("to_rows", dict(where, container=cont, first_difference_at_row=k),
                             repr(mrows[k] if k < len(mrows) else None)[:1500], repr(irows[k] if k < len(irows) else None)[:1500])
        # export_strip: "Ok None" (a uuid reached a cell) iff the implementation's stripped rows hold a uuid
        ms = parse_sexp(outs[2])
        if ms and ms[0] == 0:
            model_leak = ms[1] == []
            ir = run_cli_mode(fl.to_row_data_sheet, True, False)
            if ir[0] == "ok":
                rds = ir[1]
                cells = [str(vv) for row in rds.rows for vv in
                         rds.row_parser.unparse_row(row, rds.target_headers, rds.excluded_headers).values()]
                impl_leak = any(u in c for c in cells for u in enc.ids)
                cstats["strip_compared"] = cstats.get("strip_compared", 0) + 1
                cstats["strip_leaks"] = cstats.get("strip_leaks", 0) + (1 if impl_leak else 0)
                if model_leak != impl_leak:
                    ctx.disagree("export_strip: uuid reaches a cell", dict(kind=kind, container=cont), model_leak, impl_leak)


def correspond_leaves(ctx, cstats):
    """The two leaf functions every row id is made of: common.mangle_string against the model's
    [mangle_string] (truncation at 15, replaced / removed characters) and str(n) against [dec_of_N]."""
    from rpft.rapidpro.models.common import mangle_string

    rng = ctx.rng
    alphabet = "abcXYZ019 ._-|;:,!?/\\\"'()[]{}<>@#\t\né日\u00a0"
    strs = ["", " ", ".", "a" * 15, "a" * 16, "a b.c-d_e", "this is a long message text over fifteen", "....................", "é" * 20 + "abc"]
    strs += G.WORDS + G.CLASH_WORDS + G.NAMES
    for _ in range(250 * ctx.scale):
        strs.append("".join(rng.choice(alphabet) for _ in range(rng.choice([1, 5, 14, 15, 16, 17, 30]))))
    outs = ctx.model.ask_many([f"(117 3 {enc_str(x)})" for x in strs])
    for x, o in zip(strs, outs):
        ctx.v.coverage["evaluations"] += 1
        got, want = dec_str(parse_sexp(o)), mangle_string(x)
        if got != want:
            ctx.disagree("mangle_string", x, got, want)
    nums = sorted(set([0, 1, 9, 10, 11, 19, 20, 99, 100, 101, 999, 1000, 4095, 65535] + [rng.randrange(0, 20000) for _ in range(60)]))
    outs = ctx.model.ask_many([f"(117 4 {n})" for n in nums])
    for n, o in zip(nums, outs):
        ctx.v.coverage["evaluations"] += 1
        if dec_str(parse_sexp(o)) != str(n):
            ctx.disagree("dec_of_N", n, dec_str(parse_sexp(o)), str(n))
    cstats["mangle_compared"] = cstats.get("mangle_compared", 0) + len(strs)
    cstats["decimal_compared"] = cstats.get("decimal_compared", 0) + len(nums)


# ------------------------------------------------------------------ run
def run(ctx):
    logging.getLogger("rpft.rapidpro.models.routers").setLevel(logging.ERROR)
    from common import REPO

    v, rng = ctx.v, ctx.rng
    thorough = ctx.tier == "thorough"
    n_cont = (1500 if thorough else 130) * ctx.scale
    stats = ctx.stats.setdefault("generator", {})
    dist = ctx.stats.setdefault("oracle", {"exports": 0, "ok": 0, "err": 0, "malformed": 0, "corner": 0, "hashseed_exports": 0})
    feat = ctx.stats.setdefault("graph_features", {"flows": 0, "with_join": 0, "with_back_edge": 0, "with_self_loop": 0,
                                                   "with_dead_end": 0, "with_multi_action": 0, "nodes": 0, "goto_rows": 0})
    nontrivial = set()
    cstats = ctx.stats.setdefault("correspondence", {})

    if ctx.model:
        correspond_leaves(ctx, cstats)

    conts = []
    fixture = json.load(open(os.path.join(REPO, FIXTURE)))
    conts.append(("fixture", fixture))
    for i in range(n_cont):
        conts.append(("gen", G.gen_container(rng, stats)))
    # malformed stream (about 15 %) and the corner stream
    extra = []
    for kind, c in conts[1:]:
        if rng.random() < 0.15:
            w = rng.choice(G.MALFORMATIONS)
            m = G.malform(rng, c, w)
            if m is not None:
                extra.append(("malformed:" + w, m))
        elif rng.random() < 0.05:
            m = G.corner_group_case_under_other_operand(rng, c)
            if m is not None:
                extra.append(("corner", m))
    conts += extra

    modes_all = ["fresh", "permute", "reverse", "upper", "near"]
    hs_jobs = []
    for idx, (kind, cont) in enumerate(conts):
        modes = ["fresh", "near", rng.choice(modes_all[1:4])] if not thorough else ["fresh", "permute", "reverse", "near", rng.choice(modes_all)]
        if kind == "fixture":
            modes = modes_all
        for fl in cont["flows"]:
            g = graph_features(fl)
            feat["flows"] += 1
            feat["nodes"] += g["nodes"]
            for a, b in (("with_join", "joins"), ("with_back_edge", "back"), ("with_self_loop", "selfloops"),
                         ("with_dead_end", "dead"), ("with_multi_action", "multi_action")):
                feat[a] += 1 if g[b] else 0
        base = {nb: export_impl(cont, nb) for nb in (False, True)}
        v.coverage["evaluations"] += 1
        bad = check_same_graph(base[False], base[True])
        if bad:
            v.failing_input(bad[0], bad[1], dict(fn="samegraph", container=cont))
        if ctx.model:
            correspond(ctx, kind, cont, cstats)
        if kind.startswith("malformed"):
            dist["malformed"] += 1
        if kind == "corner":
            dist["corner"] += 1
        for mode in modes:
            ren = G.Renamer(rng, cont, mode)
            cont2 = ren.apply(cont)
            for nb in (False, True):
                res, res2 = base[nb], export_impl(cont2, nb)
                v.coverage["evaluations"] += 1
                dist["exports"] += 2
                dist["ok" if res[0] == "ok" else "err"] += 1
                bad = check_export(cont, ren, nb, res, res2)
                if res[0] == "ok":
                    for fn, text in res[1].items():
                        hdr, rows = sheet_rows(text)
                        if len(rows) >= 3:
                            nontrivial.add(text)
                        if not nb and "type" in hdr:
                            feat["goto_rows"] += sum(1 for r in rows if r[hdr.index("type")] == "go_to") if mode == "fresh" else 0
                if bad:
                    key, summary = bad
                    if key in ("uuid-in-output", "bytes-differ-under-renaming") and only_corner_leak(cont, ren, res, res2):
                        key = LEAK_KEY
                    v.failing_input(key, summary, dict(fn="metamorphic", container=cont, mapping=ren.map, numbered=nb, mode=mode))
            if kind in ("gen", "fixture") and len(hs_jobs) < (400 if thorough else 60) * ctx.scale and mode == "fresh":
                hs_jobs.append((cont, cont2, ren, base))

    # ---- PYTHONHASHSEED: the same exports in subprocesses under other hash seeds
    seeds = [1, 4242] if not thorough else [1, 2, 77, 4242, 123456]
    for hs in seeds:
        jobs = []
        for cont, cont2, ren, base in hs_jobs:
            jobs += [(cont, False), (cont, True), (cont2, False), (cont2, True)]
        out = export_subprocess(jobs, hs)
        if out is None:
            ctx.disagree("hash-seed subprocess did not produce a result", hs, None, None)
            continue
        for i, (cont, cont2, ren, base) in enumerate(hs_jobs):
            for j, (which, nb) in enumerate(((0, False), (0, True), (1, False), (1, True))):
                got = out[4 * i + j]
                v.coverage["evaluations"] += 1
                dist["hashseed_exports"] += 1
                want = base[nb]
                same = (got[0] == want[0]) and (got[0] == "err" or got[1] == want[1])
                if not same:
                    v.failing_input("bytes-differ-under-hashseed",
                                    f"PYTHONHASHSEED={hs}, numbered={nb}, {'renamed' if which else 'original'} file: output differs from the run under PYTHONHASHSEED=0",
                                    dict(fn="hashseed", container=cont2 if which else cont, reference=cont, mapping=ren.map, numbered=nb, hashseed=hs))

    v.coverage["distinct_nontrivial"] = len(nontrivial)
    v.coverage["rule"] = (
        "every container (fixture tests/output/all_test_flows.json + generated: basic/multi-action nodes, switch/wait/"
        "group/random routers, enter_flow/webhook/airtime nodes, arbitrary destinations incl. joins, cycles, self-loops, "
        "shape 'loops': several back edges from one node / into one node and texts whose mangled names clash, "
        "dead ends, shared exits, categories without case, default with case; ~15% malformed, ~4% corner) is exported "
        "with strip_uuids under >= 2 renamings (fresh/permute/reverse/upper/near = distinct uuids differing in one block only) x numbered in {False,True}; an evaluation = "
        "one (container, renaming, numbered) byte comparison incl. uuid scan and row-id check (numbered 1..n, readable "
        "unique, every from / go_to target cell names a row), one comparison of the graphs denoted by the readable and "
        "the numbered sheet of a container (same positions referenced), or one hash-seed "
        "re-export; non-trivial = distinct stripped sheet text with >= 3 rows")
    v.coverage["samples"] = [dict(kind=k, flows=[f["name"] for f in c["flows"]], nodes=[len(f["nodes"]) for f in c["flows"]])
                             for k, c in (conts[0], conts[1], conts[len(conts) // 2], conts[-1])]
    v.assumptions += [
        "uuids contain no '|' (the exporter splits its temporary row ids at the first '|')",
        "uuid4() never returns a uuid already present (go_to rows get a fresh one)",
        "the WhatsApp template uuid (templating.template.uuid) is not among the renamed kinds and is kept fixed",
        "generated flows stay inside the vocabulary the exporter can express; pass-through action kinds, action-less "
        "basic nodes, dangling destinations etc. are exercised only in the malformed stream (both sides must fail alike)",
    ]


# ------------------------------------------------------------------ replay
def replay(rep):
    logging.getLogger("rpft.rapidpro.models.routers").setLevel(logging.ERROR)
    r = rep["replay"]
    if r["fn"] == "metamorphic":
        cont = r["container"]
        ren = G.Renamer.__new__(G.Renamer)
        ren.map, ren.mode = r["mapping"], r.get("mode", "replay")
        cont2 = ren.apply(cont)
        nb = r["numbered"]
        bad = check_export(cont, ren, nb, export_impl(cont, nb), export_impl(cont2, nb))
        if bad:
            print("   ", bad[0], "-", bad[1])
        return bad is None
    if r["fn"] == "samegraph":
        bad = check_same_graph(export_impl(r["container"], False), export_impl(r["container"], True))
        if bad:
            print("   ", bad[0], "-", bad[1])
        return bad is None
    if r["fn"] == "hashseed":
        nb = r["numbered"]
        out = export_subprocess([(r["container"], nb)], r["hashseed"])
        want = export_impl(r["container"], nb)
        return out is not None and out[0][0] == want[0] and (want[0] == "err" or out[0][1] == want[1])
    return True
