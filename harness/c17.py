"""C17 — `--strip_uuids` sheets do not depend on the UUIDs in the flow file.

(a) correspondence: Exp/ToRows.v (extracted) against FlowContainer.to_rows on the same
    loaded flows: row order, row ids, types, edges (from + condition), go_to targets and every
    FlowRowModel field, numbered and readable, Ok/Err;
(b) the property's own oracle on the implementation: export f and (rename sigma f) with
    `converters.flows_to_sheets(..., strip_uuids=True)`, numbered False/True, byte-compare the
    CSV files (also across PYTHONHASHSEED values in subprocesses), no renamed uuid in the
    output, numbered ids 1..n in row order, readable ids unique."""
import csv
import io
import json
import logging
import os
import re
import shutil
import subprocess
import tempfile

import c17_gen as G
from common import PY, impl_env, run_cli_mode

LEVEL = "proof"
UUID_RE = re.compile(r"[0-9a-fA-F]{8}-[0-9a-fA-F]{4}-[0-9a-fA-F]{4}-[0-9a-fA-F]{4}-[0-9a-fA-F]{12}")
FIXTURE = "tests/output/all_test_flows.json"

LEAK_KEY = "has_group-case-outside-group-split"


# ------------------------------------------------------------------ implementation side
def export_impl(cont, numbered, strip=True):
    """bytes of every CSV written by flows_to_sheets, or ('err', kind)"""
    from rpft import converters

    d = tempfile.mkdtemp(prefix="c17x")
    try:
        p = os.path.join(d, "in.json")
        with open(p, "w", encoding="utf-8") as f:
            json.dump(cont, f)
        o = os.path.join(d, "out")
        os.mkdir(o)
        r = run_cli_mode(converters.flows_to_sheets, p, o, "csv", strip, numbered)
        if r[0] != "ok":
            return ("err", r[1])
        return ("ok", {fn: open(os.path.join(o, fn), "rb").read().decode("utf-8") for fn in sorted(os.listdir(o))})
    finally:
        shutil.rmtree(d, ignore_errors=True)


DRIVER = r'''
import json, os, sys, logging
logging.disable(logging.WARNING)
from rpft import converters
jobs = json.load(open(sys.argv[1]))
out = []
for j in jobs:
    os.makedirs(j["out"], exist_ok=True)
    try:
        converters.flows_to_sheets(j["in"], j["out"], "csv", True, j["numbered"])
        out.append({fn: open(os.path.join(j["out"], fn), "rb").read().decode("utf-8") for fn in sorted(os.listdir(j["out"]))})
    except BaseException as e:
        out.append({"__err__": type(e).__name__})
json.dump(out, open(sys.argv[2], "w"))
'''


def export_subprocess(conts, hashseed):
    """Exports every (container, numbered) under a given PYTHONHASHSEED in one subprocess."""
    d = tempfile.mkdtemp(prefix="c17h")
    try:
        jobs = []
        for i, (cont, numbered) in enumerate(conts):
            p = os.path.join(d, f"in{i}.json")
            with open(p, "w", encoding="utf-8") as f:
                json.dump(cont, f)
            jobs.append({"in": p, "out": os.path.join(d, f"out{i}"), "numbered": numbered})
        jp, rp, dp = os.path.join(d, "jobs.json"), os.path.join(d, "res.json"), os.path.join(d, "driver.py")
        json.dump(jobs, open(jp, "w"))
        open(dp, "w").write(DRIVER)
        env = impl_env()
        env["PYTHONHASHSEED"] = str(hashseed)
        subprocess.run([PY, dp, jp, rp], cwd=d, env=env, stdout=subprocess.DEVNULL, stderr=subprocess.DEVNULL, timeout=900)
        if not os.path.exists(rp):
            return None
        res = json.load(open(rp))
        return [("err", r["__err__"]) if "__err__" in r else ("ok", r) for r in res]
    finally:
        shutil.rmtree(d, ignore_errors=True)


def sheet_rows(text):
    rows = list(csv.reader(io.StringIO(text, newline="")))
    if not rows:
        return [], []
    return rows[0], rows[1:]


def check_export(cont, ren, numbered, res, res2):
    """The property's oracle for one (container, renaming, numbered).  Returns (key, summary) or None."""
    if res[0] != res2[0]:
        return ("outcome-differs-under-renaming", f"original: {res[0]} {res[1] if res[0] == 'err' else ''}; renamed: {res2[0]} {res2[1] if res2[0] == 'err' else ''}")
    if res[0] == "err":
        return None
    if res[1] != res2[1]:
        for fn in res[1]:
            if res[1][fn] != res2[1].get(fn):
                a, b = res[1][fn].splitlines(), (res2[1].get(fn) or "").splitlines()
                k = next((i for i in range(min(len(a), len(b))) if a[i] != b[i]), min(len(a), len(b)))
                return ("bytes-differ-under-renaming",
                        f"{fn} (numbered={numbered}, renaming={ren.mode}) differs at line {k + 1}: "
                        f"{a[k] if k < len(a) else '<eof>'!r} vs {b[k] if k < len(b) else '<eof>'!r}")
    olds = set(ren.map) | set(ren.map.values())
    for fn, text in res[1].items():
        for other in (res[1][fn], res2[1][fn]):
            leaked = [u for u in olds if u in other]
            shaped = [u for u in UUID_RE.findall(other) if u != G.TEMPLATE_UUID]
            if leaked or shaped:
                return ("uuid-in-output", f"{fn}: uuid {(leaked or shaped)[0]} appears in the stripped sheet")
        hdr, rows = sheet_rows(text)
        if not rows:
            continue
        if "row_id" not in hdr:
            return ("row-ids", f"{fn}: no row_id column")
        ids = [r[hdr.index("row_id")] for r in rows]
        if numbered and ids != [str(i + 1) for i in range(len(ids))]:
            return ("row-ids", f"{fn}: numbered ids are {ids[:8]}..., expected 1..{len(ids)}")
        if not numbered and (len(set(ids)) != len(ids) or "" in ids):
            return ("row-ids", f"{fn}: readable ids not unique/non-empty: {sorted(i for i in ids if ids.count(i) > 1)[:4]}")
    return None


def leak_corner_uuids(cont):
    """input class of the known corner: group uuids of has_group cases in routers whose operand
    is not @contact.groups (the exporter writes arguments[0] of such a case into the condition)"""
    out = set()
    for fl in cont["flows"]:
        for n in fl["nodes"]:
            r = n.get("router")
            if r and r.get("type") == "switch" and r.get("operand") != "@contact.groups":
                out |= {k["arguments"][0] for k in r.get("cases", []) if k.get("type") == "has_group" and k.get("arguments")}
    return out


def only_corner_leak(cont, ren, res, res2):
    """True iff the two exports are both Ok and become byte-identical, and free of every other
    renamed uuid, once the corner's leaked group uuids are masked on both sides."""
    leaked = leak_corner_uuids(cont)
    if not leaked or res[0] != "ok" or res2[0] != "ok" or set(res[1]) != set(res2[1]):
        return False
    others = (set(ren.map) | set(ren.map.values())) - leaked - {ren.map[u] for u in leaked}
    for fn in res[1]:
        a, b = res[1][fn], res2[1][fn]
        for u in leaked:
            a, b = a.replace(u, "<G>"), b.replace(ren.map[u], "<G>")
        if a != b or any(u in a for u in others) or [u for u in UUID_RE.findall(a) if u != G.TEMPLATE_UUID]:
            return False
    return True


def graph_features(fl):
    """measured features of one flow (for the distribution and the non-triviality rule)"""
    ids = [n["uuid"] for n in fl["nodes"]]
    pos = {u: i for i, u in enumerate(ids)}
    indeg = {}
    back = selfl = fwd = dead = 0
    for n in fl["nodes"]:
        for e in n["exits"]:
            d = e.get("destination_uuid")
            if not d:
                dead += 1
                continue
            indeg[d] = indeg.get(d, 0) + 1
            if d == n["uuid"]:
                selfl += 1
            elif pos.get(d, -1) <= pos[n["uuid"]]:
                back += 1
            else:
                fwd += 1
    return dict(nodes=len(ids), joins=sum(1 for v in indeg.values() if v > 1), back=back, selfloops=selfl, dead=dead,
                multi_action=sum(1 for n in fl["nodes"] if len(n.get("actions", [])) > 1))


# ------------------------------------------------------------------ run
def run(ctx):
    logging.getLogger("rpft.rapidpro.models.routers").setLevel(logging.ERROR)
    from common import REPO

    v, rng = ctx.v, ctx.rng
    thorough = ctx.tier == "thorough"
    n_cont = (1500 if thorough else 130) * ctx.scale
    stats = ctx.stats.setdefault("generator", {})
    dist = ctx.stats.setdefault("oracle", {"exports": 0, "ok": 0, "err": 0, "malformed": 0, "corner": 0, "hashseed_exports": 0})
    feat = ctx.stats.setdefault("graph_features", {"flows": 0, "with_join": 0, "with_back_edge": 0, "with_self_loop": 0,
                                                   "with_dead_end": 0, "with_multi_action": 0, "nodes": 0, "goto_rows": 0})
    nontrivial = set()

    conts = []
    fixture = json.load(open(os.path.join(REPO, FIXTURE)))
    conts.append(("fixture", fixture))
    for i in range(n_cont):
        conts.append(("gen", G.gen_container(rng, stats)))
    # malformed stream (about 15 %) and the corner stream
    extra = []
    for kind, c in conts[1:]:
        if rng.random() < 0.15:
            w = rng.choice(G.MALFORMATIONS)
            m = G.malform(rng, c, w)
            if m is not None:
                extra.append(("malformed:" + w, m))
        elif rng.random() < 0.05:
            m = G.corner_group_case_under_other_operand(rng, c)
            if m is not None:
                extra.append(("corner", m))
    conts += extra

    modes_all = ["fresh", "permute", "reverse", "upper"]
    hs_jobs = []
    for idx, (kind, cont) in enumerate(conts):
        modes = ["fresh", rng.choice(modes_all[1:])] if not thorough else ["fresh", "permute", "reverse", rng.choice(modes_all)]
        if kind == "fixture":
            modes = modes_all
        for fl in cont["flows"]:
            g = graph_features(fl)
            feat["flows"] += 1
            feat["nodes"] += g["nodes"]
            for a, b in (("with_join", "joins"), ("with_back_edge", "back"), ("with_self_loop", "selfloops"),
                         ("with_dead_end", "dead"), ("with_multi_action", "multi_action")):
                feat[a] += 1 if g[b] else 0
        base = {nb: export_impl(cont, nb) for nb in (False, True)}
        if kind.startswith("malformed"):
            dist["malformed"] += 1
        if kind == "corner":
            dist["corner"] += 1
        for mode in modes:
            ren = G.Renamer(rng, cont, mode)
            cont2 = ren.apply(cont)
            for nb in (False, True):
                res, res2 = base[nb], export_impl(cont2, nb)
                v.coverage["evaluations"] += 1
                dist["exports"] += 2
                dist["ok" if res[0] == "ok" else "err"] += 1
                bad = check_export(cont, ren, nb, res, res2)
                if res[0] == "ok":
                    for fn, text in res[1].items():
                        hdr, rows = sheet_rows(text)
                        if len(rows) >= 3:
                            nontrivial.add(text)
                        if not nb and "type" in hdr:
                            feat["goto_rows"] += sum(1 for r in rows if r[hdr.index("type")] == "go_to") if mode == "fresh" else 0
                if bad:
                    key, summary = bad
                    if key in ("uuid-in-output", "bytes-differ-under-renaming") and only_corner_leak(cont, ren, res, res2):
                        key = LEAK_KEY
                    v.failing_input(key, summary, dict(fn="metamorphic", container=cont, mapping=ren.map, numbered=nb, mode=mode))
            if kind in ("gen", "fixture") and len(hs_jobs) < (400 if thorough else 60) * ctx.scale and mode == "fresh":
                hs_jobs.append((cont, cont2, ren, base))

    # ---- PYTHONHASHSEED: the same exports in subprocesses under other hash seeds
    seeds = [1, 4242] if not thorough else [1, 2, 77, 4242, 123456]
    for hs in seeds:
        jobs = []
        for cont, cont2, ren, base in hs_jobs:
            jobs += [(cont, False), (cont, True), (cont2, False), (cont2, True)]
        out = export_subprocess(jobs, hs)
        if out is None:
            ctx.disagree("hash-seed subprocess did not produce a result", hs, None, None)
            continue
        for i, (cont, cont2, ren, base) in enumerate(hs_jobs):
            for j, (which, nb) in enumerate(((0, False), (0, True), (1, False), (1, True))):
                got = out[4 * i + j]
                v.coverage["evaluations"] += 1
                dist["hashseed_exports"] += 1
                want = base[nb]
                same = (got[0] == want[0]) and (got[0] == "err" or got[1] == want[1])
                if not same:
                    v.failing_input("bytes-differ-under-hashseed",
                                    f"PYTHONHASHSEED={hs}, numbered={nb}, {'renamed' if which else 'original'} file: output differs from the run under PYTHONHASHSEED=0",
                                    dict(fn="hashseed", container=cont2 if which else cont, reference=cont, mapping=ren.map, numbered=nb, hashseed=hs))

    v.coverage["distinct_nontrivial"] = len(nontrivial)
    v.coverage["rule"] = (
        "every container (fixture tests/output/all_test_flows.json + generated: basic/multi-action nodes, switch/wait/"
        "group/random routers, enter_flow/webhook/airtime nodes, arbitrary destinations incl. joins, cycles, self-loops, "
        "dead ends, shared exits, categories without case, default with case; ~15% malformed, ~4% corner) is exported "
        "with strip_uuids under >= 2 renamings (fresh/permute/reverse/upper) x numbered in {False,True}; an evaluation = "
        "one (container, renaming, numbered) byte comparison incl. uuid scan and row-id check, or one hash-seed "
        "re-export; non-trivial = distinct stripped sheet text with >= 3 rows")
    v.coverage["samples"] = [dict(kind=k, flows=[f["name"] for f in c["flows"]], nodes=[len(f["nodes"]) for f in c["flows"]])
                             for k, c in (conts[0], conts[1], conts[len(conts) // 2], conts[-1])]
    v.assumptions += [
        "uuids contain no '|' (the exporter splits its temporary row ids at the first '|')",
        "uuid4() never returns a uuid already present (go_to rows get a fresh one)",
        "the WhatsApp template uuid (templating.template.uuid) is not among the renamed kinds and is kept fixed",
        "generated flows stay inside the vocabulary the exporter can express; pass-through action kinds, action-less "
        "basic nodes, dangling destinations etc. are exercised only in the malformed stream (both sides must fail alike)",
    ]


# ------------------------------------------------------------------ replay
def replay(rep):
    logging.getLogger("rpft.rapidpro.models.routers").setLevel(logging.ERROR)
    r = rep["replay"]
    if r["fn"] == "metamorphic":
        cont = r["container"]
        ren = G.Renamer.__new__(G.Renamer)
        ren.map, ren.mode = r["mapping"], r.get("mode", "replay")
        cont2 = ren.apply(cont)
        nb = r["numbered"]
        bad = check_export(cont, ren, nb, export_impl(cont, nb), export_impl(cont2, nb))
        if bad:
            print("   ", bad[0], "-", bad[1])
        return bad is None
    if r["fn"] == "hashseed":
        nb = r["numbered"]
        out = export_subprocess([(r["container"], nb)], r["hashseed"])
        want = export_impl(r["container"], nb)
        return out is not None and out[0][0] == want[0] and (want[0] == "err" or out[0][1] == want[1])
    return True
