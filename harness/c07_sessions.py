"""C07 — sessions: operation SEQUENCES on the long-lived objects a real run shares.

A real run keeps, for the life of the process: the row-model classes (a user's model module:
base models and models derived from them, sub-models used by several parents), one RowParser
per sheet/model that reads or writes every row of the sheet, its CellParser (two Jinja
environments), and whatever the modules keep at top level.  The property quantifies over
instances and layouts, not over what the process did before, so:

  oracle 1 (the property's own): an in-domain round trip parse_row(unparse_row(m, L)) == m at
            ANY point of ANY session, on the long-lived objects;
  oracle 2 (isolation): every operation yields what the same operation yields on objects built
            afresh from the flat description of the class (new unrelated classes, new parsers);
  oracle 3 (model): the extracted Gallina state machine (Row/Session.v: run_session) run on the
            SAME family and the SAME operations yields the same result at every step; its
            resolution of derived classes yields the fields pydantic collects;
  oracle 4 (aliasing): what an earlier operation returned is not changed by later ones.

A session = a family of classes (roots; classes derived from an earlier one that override
defaults / types, add fields, re-define or inherit the renaming functions; shared sub-model
classes; unrelated classes with the SAME __name__ and field names) + a list of operations."""
import os
import shutil
import tempfile
import typing

import rowgen
import rowlib
from common import run_cli_mode
from rowlib import REQUIRED, STR, INT, FLOAT, BOOL, ULIST

BASIC = ("str", "int", "float", "bool")
EXTRA_NAMES = ["parent", "note", "n2", "flag", "w", "items", "sub"]


# ------------------------------------------------------------------------------ type references
def flat_ty(t, flat):
    """type of a class body (may refer to class j of the family as ("ref", j)) -> flat description"""
    k = t[0]
    if k == "ref":
        return flat[t[1]]
    if k == "list":
        return ("list", flat_ty(t[1], flat))
    return t


def set_field(fields, f):
    """pydantic's field collection: a re-declared name keeps its place, a new one is appended"""
    out, done = [], False
    for g in fields:
        if g[0] == f[0]:
            out.append(f)
            done = True
        else:
            out.append(g)
    if not done:
        out.append(f)
    return out


def flatten_family(decls):
    """decls -> (flat descriptions, body types flattened)"""
    flat = []
    for d in decls:
        body = [(n, flat_ty(t, flat), dv) for (n, t, dv) in d["body"]]
        if d["kind"] == "root":
            flat.append(("model", d["name"], body, dict(d["h2f"] or {}), dict(d["f2h"] or {})))
        else:
            p = flat[d["parent"]]
            fields = list(p[2])
            for f in body:
                fields = set_field(fields, f)
            flat.append(("model", d["name"], fields,
                         dict(d["h2f"]) if d["h2f"] is not None else dict(p[3]),
                         dict(d["f2h"]) if d["f2h"] is not None else dict(p[4])))
    return flat


# ------------------------------------------------------------------------------ realisations
_uniq = [0]


class Realm:
    """pydantic classes for descriptions; the cache lives as long as the realm does"""

    def __init__(self):
        self.cache = {}

    def _fns(self, h2f, f2h):
        ns = {}
        if h2f is not None:
            ns["header_name_to_field_name"] = lambda header, _m=dict(h2f): _m.get(header, header)
        if f2h is not None:
            ns["field_name_to_header_name"] = lambda field, _m=dict(f2h): _m.get(field, field)
        return ns

    def flat_class(self, t, unique=True):
        """a class written out from a flat description, derived from ParserModel only"""
        from rpft.parsers.common.rowparser import ParserModel
        key = id(t)
        if key not in self.cache:
            _uniq[0] += 1
            ns = self._fns(t[3] or None, t[4] or None)
            ann = {}
            for (n, ft, d) in t[2]:
                ann[n] = self.py_type(ft)
                if d is not REQUIRED:
                    ns[n] = self.instance(ft, d)
            ns["__annotations__"] = ann
            name = f"{t[1]}_fresh{_uniq[0]}" if unique else t[1]      # never the name of another class of this process
            self.cache[key] = (t, type(name, (ParserModel,), ns))
        return self.cache[key][1]

    def py_type(self, t):
        k = t[0]
        if k == "model":
            return self.flat_class(t)
        if k == "list":
            return typing.List[self.py_type(t[1])]
        return {"str": str, "int": int, "float": float, "bool": bool, "ulist": list}[k]

    def instance(self, t, v):
        k = t[0]
        if k == "model":
            cls = self.py_type(t)
            return cls(**{n: self.instance(ft, v[n]) for (n, ft, _) in t[2]})
        if k == "list":
            return [self.instance(t[1], x) for x in v]
        if k == "ulist":
            return list(v)
        return v


class Family(Realm):
    """the long-lived realisation: real subclasses, shared sub-model classes, plain __name__s"""

    def __init__(self, decls):
        super().__init__()
        from rpft.parsers.common.rowparser import ParserModel
        self.decls = decls
        self.flat = flatten_family(decls)
        self.classes = []
        for i, d in enumerate(decls):
            ns = self._fns(d["h2f"], d["f2h"]) if d["kind"] == "derive" else self._fns(d["h2f"] or None, d["f2h"] or None)
            ann = {}
            for (n, t, dv) in d["body"]:
                ann[n] = self.ref_type(t)
                if dv is not REQUIRED:
                    ns[n] = self.ref_instance(t, dv)
            ns["__annotations__"] = ann
            base = ParserModel if d["kind"] == "root" else self.classes[d["parent"]]
            self.classes.append(type(d["name"], (base,), ns))
            # values of this class are given as natives of its flat description
            self.cache[id(self.flat[i])] = (self.flat[i], self.classes[i])

    def ref_type(self, t):
        k = t[0]
        if k == "ref":
            return self.classes[t[1]]
        if k == "list":
            return typing.List[self.ref_type(t[1])]
        return self.py_type(t)

    def ref_instance(self, t, v):
        return self.instance(flat_ty(t, self.flat), v)


# ------------------------------------------------------------------------------ generators
def _gen_field_ty(rng, decls, depth):
    if decls and rng.random() < 0.3:
        j = rng.randrange(len(decls))
        return ("ref", j) if rng.random() < 0.6 else ("list", ("ref", j))
    return rowgen.gen_ty(rng, depth)


def _gen_default_for(rng, ft, avoid=None, plain=0.6):
    d = None
    for _ in range(8):
        d = rowgen.gen_default(rng, ft, plain)
        if avoid is None or d is REQUIRED or d != avoid:
            return d
    return d


def _gen_remaps(rng, names):
    h2f, f2h = {}, {}
    fn = rng.choice(names)
    h = rng.choice(["hdr", "H", "alias", "from"])
    if h not in names:
        f2h[fn] = h
        if rng.random() < 0.9:
            h2f[h] = fn
    return h2f, f2h


def gen_family(rng, stats):
    decls, flat = [], []

    def push(d):
        decls.append(d)
        flat[:] = flatten_family(decls)

    def gen_root(name, depth, nmin, nmax, names=None, remap_p=0.25):
        names = names or rng.sample(rowgen.NAMES, rng.randint(nmin, nmax))
        body = []
        for n in names:
            t = _gen_field_ty(rng, decls, depth)
            body.append((n, t, _gen_default_for(rng, flat_ty(t, flat), plain=0.6)))
        h2f, f2h = _gen_remaps(rng, names) if rng.random() < remap_p else ({}, {})
        push(dict(kind="root", name=name, parent=None, body=body, h2f=h2f, f2h=f2h))

    def gen_derived(name, p):
        pf = flat[p][2]
        body = []
        over = [f for f in pf if rng.random() < 0.45]
        if not over and rng.random() < 0.85:
            over = [rng.choice(pf)]
        for (n, ft, d) in over:
            t = ft
            if rng.random() < 0.15:
                t = rng.choice([STR, INT, BOOL, FLOAT, ("list", STR)])  # the type changes too
                stats["overrides_type"] = stats.get("overrides_type", 0) + 1
            body.append((n, t, _gen_default_for(rng, t, avoid=d, plain=0.35)))
            stats["overridden_fields"] = stats.get("overridden_fields", 0) + 1
        rng.shuffle(body)
        have = [f[0] for f in pf]
        for n in rng.sample([x for x in rowgen.NAMES + EXTRA_NAMES if x not in have], rng.choice([0, 0, 1, 1, 2])):
            t = _gen_field_ty(rng, decls, 1)
            body.append((n, t, _gen_default_for(rng, flat_ty(t, flat))))
        h2f = f2h = None
        all_names = have + [b[0] for b in body if b[0] not in have]
        pf2h = flat[p][4]
        if pf2h and rng.random() < 0.6:
            # the parent renames a field: the derived class re-defines the renaming IN CONFLICT with it
            fn, h = next(iter(pf2h.items()))
            mode = rng.choice(["repoint", "repoint", "drop", "rename"])
            others = [n for n in all_names if n != fn]
            if mode == "repoint" and others:
                o = rng.choice(others)
                h2f, f2h = {h: o}, {o: h}           # the same header now names ANOTHER field
            elif mode == "rename":
                h2 = rng.choice([x for x in ["hdr", "H", "alias", "from"] if x != h and x not in all_names] or ["H2"])
                h2f, f2h = {h2: fn}, {fn: h2}       # the same field under another header
            else:
                h2f, f2h = {}, {}                   # no renaming any more
            stats["redefines_remap_in_conflict"] = stats.get("redefines_remap_in_conflict", 0) + 1
        elif rng.random() < 0.15:
            h2f, f2h = _gen_remaps(rng, all_names)
            if rng.random() < 0.3:
                h2f = None                              # only one of the two functions re-defined
            stats["redefines_remap"] = stats.get("redefines_remap", 0) + 1
        push(dict(kind="derive", name=name, parent=p, body=body, h2f=h2f, f2h=f2h))

    # sub-model classes that several parents share
    nsub = rng.choice([0, 1, 1, 2])
    for i in range(nsub):
        if i and rng.random() < 0.5:
            gen_derived(f"Sub{i}", rng.randrange(len(decls)))
        else:
            gen_root(f"Sub{i}", 0, 1, 3)
    first_top = len(decls)
    gen_root("M", rng.choice([0, 1, 1, 2]), 2, 5, remap_p=0.4)
    for i in range(rng.choice([1, 1, 2, 2, 3])):
        r = rng.random()
        tops = list(range(first_top, len(decls)))
        if r < 0.72:
            gen_derived(rng.choice(["C", "M", f"C{i}"]), rng.choice(tops))
        elif r < 0.87:
            # an unrelated class with the SAME __name__ and field names as an existing one
            j = rng.choice(tops)
            gen_root(decls[j]["name"], 1, 0, 0, names=[f[0] for f in flat[j][2]])
            stats["same_name_siblings"] = stats.get("same_name_siblings", 0) + 1
        else:
            gen_root(f"N{i}", 1, 2, 4)
    return decls


def _bare_ok(x):
    return isinstance(x, str) or (isinstance(x, list) and all(_bare_ok(y) for y in x))


def _bare_lists_ok(t, v):
    """bare lists hold strings / nested lists of strings only (the universe of Row/Ty.v)"""
    k = t[0]
    if k == "ulist":
        return all(_bare_ok(x) for x in v)
    if k == "list":
        return all(_bare_lists_ok(t[1], x) for x in v)
    if k == "model":
        return all(_bare_lists_ok(ft, v[n]) for (n, ft, _) in t[2])
    return True


def _compatible(ft, d):
    try:
        rowlib._check_value(ft, d, "")
        return _bare_lists_ok(ft, d)
    except rowlib.Unsupported:
        return False


def default_pool(flat):
    """field name -> defaults any class of the family (or a nested model) gives a field of that name"""
    pool = {}

    def walk(t):
        if t[0] == "model":
            for (n, ft, d) in t[2]:
                if d is not REQUIRED:
                    pool.setdefault(n, []).append(d)
                walk(ft)
        elif t[0] == "list":
            walk(t[1])

    for t in flat:
        walk(t)
    return pool


def perturb(rng, t, v, pool, p, hits):
    """give some fields the default ANOTHER class has for a field of the same name"""
    k = t[0]
    if k == "model":
        out = {}
        for (n, ft, d) in t[2]:
            cands = [x for x in pool.get(n, []) if (d is REQUIRED or x != d) and _compatible(ft, x)]
            if cands and rng.random() < p:
                out[n] = rng.choice(cands)
                hits[0] += 1
            else:
                out[n] = perturb(rng, ft, v[n], pool, p * 0.6, hits)
        return out
    if k == "list":
        return [perturb(rng, t[1], x, pool, p * 0.6, hits) for x in v]
    return v


def gen_value(rng, fam_flat, k, pool, hits, good=True):
    t = fam_flat[k]
    v = rowgen.gen_value(rng, t, good=good)
    if rng.random() < 0.7:
        v = perturb(rng, t, v, pool, 0.45, hits)
    return v


TEMPLATE_CTX = {"v0": "tpl", "v1": "a|b", "n": 3, "lst": ["x", "y z"], "flag": False, "pairs": [["k", "v"]]}
TEMPLATE_CELLS = ["{{ v0 }}", "{{v1}}", "{@ lst @}", "{@ n @}", "{{ n }}", "{@ flag @}", "{@ pairs @}", "{{ v0 }}|{{ n }}",
                  "{@ missing @}", "{{ missing }}", "{@ lst @} {@ lst @}", "{% if flag %}a{% else %}b{% endif %}"]


def gen_ops(rng, fam, stats, thorough=False):
    """the operations of one session (plain data: replayable)"""
    import c07
    flat = fam.flat
    pool = default_pool(flat)
    nk = len(flat)
    tops = [i for i, d in enumerate(fam.decls) if not d["name"].startswith("Sub")] or list(range(nk))
    ops = []
    n = rng.choice([3, 5, 6, 8, 10, 12, 14])
    written = []        # (k, cells) produced earlier in this session by a FRESH unparse: material for parse operations
    hits = [0]
    for _ in range(n):
        k = rng.choice(tops) if rng.random() < 0.85 else rng.randrange(nk)
        r = rng.random()
        good = rng.random() < 0.88
        if r < 0.5:
            v = gen_value(rng, flat, k, pool, hits, good)
            T, _ = rowgen.gen_layout(rng, flat[k], v)
            ops.append(dict(op="round", k=k, value=v, targets=sorted(T)))
        elif r < 0.6:
            v = gen_value(rng, flat, k, pool, hits, good)
            T, X = rowgen.gen_layout(rng, flat[k], v)
            if rng.random() < 0.5 and not X:
                paths = rowgen.compound_paths(flat[k], v) or [(f[0],) for f in flat[k][2][:1]]
                X = {".".join(rng.choice(paths))}
            ops.append(dict(op="unparse", k=k, value=v, targets=sorted(T), excluded=sorted(X)))
        elif r < 0.78:
            # parse a row: written (by fresh objects) for this class, for ANOTHER class of the family, or malformed
            v = gen_value(rng, flat, k, pool, hits, True)
            T, _ = rowgen.gen_layout(rng, flat[k], v)
            un = fresh_exec(flat[k], dict(op="unparse", k=k, value=v, targets=sorted(T), excluded=[]))
            if un[0] == "ok":
                written.append((k, un[1]))
            q = rng.random()
            if q < 0.4 and un[0] == "ok":
                ops.append(dict(op="parse", k=k, cells=[list(c) for c in un[1]], of=dict(value=v, targets=sorted(T))))
            elif q < 0.7 and written:
                k2, cells = rng.choice(written)
                ops.append(dict(op="parse", k=k, cells=[list(c) for c in cells], of=None))
            elif un[0] == "ok":
                bad = c07.mutate_cells(rng, un[1], c07.all_names(flat[k]))
                ops.append(dict(op="parse", k=k, cells=[list(c) for c in bad], of=None))
            else:
                ops.append(dict(op="round", k=k, value=v, targets=sorted(T)))
        elif r < 0.86:
            # a templated row (context given): {{ }} and native {@ @} cells
            v = gen_value(rng, flat, k, pool, hits, True)
            un = fresh_exec(flat[k], dict(op="unparse", k=k, value=v, targets=[], excluded=[]))
            cells = [list(c) for c in un[1]] if un[0] == "ok" else []
            if not cells:
                cells = [[flat[k][2][0][0], ""]]
            for _ in range(rng.choice([1, 1, 2])):
                i = rng.randrange(len(cells))
                cells[i][1] = rng.choice(TEMPLATE_CELLS)
            ops.append(dict(op="parse_tpl", k=k, cells=cells))
        elif r < 0.95:
            rows = [gen_value(rng, flat, k, pool, hits, True) for _ in range(rng.choice([1, 1, 2]))]
            T, _ = rowgen.gen_layout(rng, flat[k], rows[0])
            ops.append(dict(op="sheet", k=k, rows=rows, targets=sorted(T)))
        else:
            ops.append(dict(op="new_parser", k=k))
    stats["values_with_foreign_default"] = stats.get("values_with_foreign_default", 0) + hits[0]
    return ops


# ------------------------------------------------------------------------------ execution
class Live:
    """the long-lived objects of one session"""

    def __init__(self, fam, share_cell_parser=True):
        from rpft.parsers.common.cellparser import CellParser
        self.fam = fam
        self.share = share_cell_parser
        self.cp = CellParser()
        self.parsers = {}

    def cell_parser(self):
        from rpft.parsers.common.cellparser import CellParser
        return self.cp if self.share else CellParser()

    def parser(self, k):
        from rpft.parsers.common.rowparser import RowParser
        if k not in self.parsers:
            self.parsers[k] = RowParser(self.fam.classes[k], self.cell_parser())
        return self.parsers[k]


def _sheet_leg(parser, insts, T):
    from rpft.parsers.common.rowdatasheet import RowDataSheet
    from rpft.parsers.common.sheetparser import SheetParser
    from rpft.parsers.sheets import CSVSheetReader
    d = tempfile.mkdtemp(prefix="rpftc07s")
    try:
        RowDataSheet(parser, insts, set(T)).export(os.path.join(d, "sheet.csv"))
        sheet = CSVSheetReader(d).get_sheet("sheet")
        return [rowlib.natives(r) for r in SheetParser(parser, sheet.table).parse_all()]
    finally:
        shutil.rmtree(d, ignore_errors=True)


def exec_op(realm, t, parser, op, keep=None):
    """one operation on given objects.  -> ('ok', payload) | ('err', kind, msg)"""
    kind = op["op"]
    if kind == "unparse":
        inst = realm.instance(t, op["value"])

        def f():
            raw = parser.unparse_row(inst, set(op["targets"]), set(op["excluded"]))
            if keep is not None:
                keep.append((raw, dict(raw)))
            return [(k, v if isinstance(v, str) else str(v)) for k, v in raw.items()]
        return run_cli_mode(f)
    if kind == "round":
        inst = realm.instance(t, op["value"])

        def f():
            raw = parser.unparse_row(inst, set(op["targets"]))
            cells = {k: (v if isinstance(v, str) else str(v)) for k, v in raw.items()}
            back = parser.parse_row(cells, {})
            if keep is not None:
                keep.append((raw, dict(raw)))
                keep.append((back, rowlib.natives(back)))
            return rowlib.natives(back)
        return run_cli_mode(f)
    if kind == "parse":
        def f():
            back = parser.parse_row({c[0]: c[1] for c in op["cells"]}, {})
            if keep is not None:
                keep.append((back, rowlib.natives(back)))
            return rowlib.natives(back)
        return run_cli_mode(f)
    if kind == "parse_tpl":
        return run_cli_mode(lambda: rowlib.natives(parser.parse_row({c[0]: c[1] for c in op["cells"]}, dict(TEMPLATE_CTX))))
    if kind == "sheet":
        insts = [realm.instance(t, v) for v in op["rows"]]
        return run_cli_mode(_sheet_leg, parser, insts, op["targets"])
    raise ValueError(kind)


def fresh_exec(t, op):
    """the operation in isolation: classes built afresh from the flat description, new parsers"""
    from rpft.parsers.common.cellparser import CellParser
    from rpft.parsers.common.rowparser import RowParser
    realm = Realm()
    try:
        cls = realm.flat_class(t)
    except Exception as e:
        return ("reject", type(e).__name__, str(e))
    return exec_op(realm, t, RowParser(cls, CellParser()), op)


def same_result(a, b):
    if a[0] != b[0]:
        return False
    if a[0] == "ok":
        return c07_deep_eq(a[1], b[1])
    return a[1] == b[1]          # the kind of error (messages carry class names)


def c07_deep_eq(a, b):
    import c07
    if isinstance(a, list) and isinstance(b, list) and all(isinstance(x, tuple) for x in a + b):
        return a == b
    return c07._deep_eq(a, b)


def in_domain_op(flat, op):
    """does the property's statement apply to this operation, and what must it return"""
    k = op["k"]
    if op["op"] == "round":
        return rowgen.in_domain(flat[k], op["value"], [], op["targets"]), op["value"]
    if op["op"] == "parse" and op.get("of"):
        return rowgen.in_domain(flat[k], op["of"]["value"], [], op["of"]["targets"]), op["of"]["value"]
    if op["op"] == "sheet" and len(op["rows"]) == 1:
        # one row (several rows of different widths pad each other: known finding of the file leg); the row has
        # content: since /repo 2426326 every sheet reader drops a row whose cells are all blank (a row without
        # content is not data in any format), so an instance that writes nothing but blank cells has no
        # representation in a FILE (in memory parse_row(unparse_row(.)) is checked for it like for any other)
        row = op["rows"][0]
        ok = rowgen.in_domain(flat[k], row, [], op["targets"])
        if ok:
            un = fresh_exec(flat[k], dict(op="unparse", k=k, value=row, targets=op["targets"], excluded=[]))
            ok = un[0] == "ok" and any(s.strip() != "" for (_, s) in un[1])
        return ok, [row]
    return False, None


def run_one_session(decls, ops, share=True, upto=None):
    """Runs ops[:upto+1] on long-lived objects.  -> (family, results, keep) ; results[i] = outcome of ops[i]"""
    fam = Family(decls)
    live = Live(fam, share)
    keep = []
    results = []
    for i, op in enumerate(ops if upto is None else ops[:upto + 1]):
        if op["op"] == "new_parser":
            live.parsers.pop(op["k"], None)
            results.append(("ok", None))
            continue
        results.append(exec_op(fam, fam.flat[op["k"]], live.parser(op["k"]), op, keep))
    return fam, results, keep


def step_verdict(flat, op, res):
    """(property fails on this step, differs from isolation, fresh result)"""
    if op["op"] == "new_parser":
        return False, False, None
    fresh = fresh_exec(flat[op["k"]], op)
    if fresh[0] == "reject":
        return False, False, fresh
    dom, want = in_domain_op(flat, op)
    prop_fails = dom and not (res[0] == "ok" and c07_deep_eq(res[1], want))
    return prop_fails, not same_result(res, fresh), fresh


def single_column_sheet(flat, op, res):
    """input class of a known defect of RowDataSheet._get_headers: the header order is read off the EDGES between
    consecutive headers of each row, so when no row writes two columns the sheet has no header at all and
    convert_to_tablib raises TypeError"""
    if op["op"] != "sheet" or res[0] != "err" or res[1] != "TypeError":
        return False
    for row in op["rows"]:
        un = fresh_exec(flat[op["k"]], dict(op="unparse", k=op["k"], value=row, targets=op["targets"], excluded=[]))
        if un[0] != "ok" or len(un[1]) > 1:
            return False
    return True


def packed_blank_value(flat, op):
    """input class of finding packed-model-blank-value-under-nonblank-default (FX7): the operation is inside the
    property's domain only because a str field of a PACKED model may hold "" (rowgen.in_domain, blank_values), and the
    same instance with those fields filled is inside the narrower domain and round-trips on objects built afresh"""
    import c07
    k = op["k"]
    if op["op"] == "round":
        val, T = op["value"], op["targets"]
    elif op["op"] == "parse" and op.get("of"):
        val, T = op["of"]["value"], op["of"]["targets"]
    elif op["op"] == "sheet" and len(op["rows"]) == 1:
        val, T = op["rows"][0], op["targets"]
    else:
        return False
    t = flat[k]
    try:
        if rowgen.in_domain(t, val, [], T, blank_values=False):
            return False
        val2 = c07.fill_packed_blanks(t, val, [], T)
        if not rowgen.in_domain(t, val2, [], T, blank_values=False):
            return False
        r = fresh_exec(t, dict(op="round", k=k, value=val2, targets=T))
        return r[0] == "ok" and c07_deep_eq(r[1], val2)
    except Exception:
        return False


def minimise(decls, ops, i, share, pred):
    """drop earlier operations while step i still fails pred"""
    ops = list(ops[:i + 1])
    j = len(ops) - 2
    while j >= 0:
        trial = ops[:j] + ops[j + 1:]
        try:
            fam, results, _ = run_one_session(decls, trial, share)
            if pred(fam.flat, trial[-1], results[-1]):
                ops = trial
        except Exception:
            pass
        j -= 1
    return ops


# ------------------------------------------------------------------------------ model requests
def e_field(n, ft, d):
    return rowlib.e_list([rowlib.e_str(n), rowlib.e_ty(ft), "()" if d is REQUIRED else "(" + rowlib.e_value(ft, d) + ")"])


def e_family(decls, flat):
    out = []
    for i, d in enumerate(decls):
        if d["kind"] == "root":
            out.append(f"(0 {rowlib.e_ty(flat[i])})")
        else:
            body = [e_field(n, flat_ty(t, flat), dv) for (n, t, dv) in d["body"]]
            h = "()" if d["h2f"] is None else "(" + rowlib.e_remap(d["h2f"]) + ")"
            g = "()" if d["f2h"] is None else "(" + rowlib.e_remap(d["f2h"]) + ")"
            out.append(f"(1 {d['parent']} {rowlib.e_list(body)} {h} {g})")
    return rowlib.e_list(out)


def e_op(flat, op):
    """-> request text or None (operation outside what the model has: templates, files)"""
    k = op["k"]
    kind = op["op"]
    if kind == "unparse":
        return f"(0 {k} {rowlib.e_value(flat[k], op['value'])} {rowlib.e_strs(op['targets'])} {rowlib.e_strs(op['excluded'])})"
    if kind == "parse":
        return f"(1 {k} {rowlib.e_cells([tuple(c) for c in op['cells']])})"
    if kind == "round":
        return f"(2 {k} {rowlib.e_value(flat[k], op['value'])} {rowlib.e_strs(op['targets'])})"
    if kind == "new_parser":
        return f"(3 {k})"
    return None


def d_opres(x):
    """model answer for one step -> ('ok', payload) | ('err', code) | ('done',) | ('bad', raw)"""
    if not isinstance(x, list) or not x:
        return ("bad", x)
    if x[0] == 0 and len(x) == 2:
        return rowlib.d_res(x[1], rowlib.d_cells)
    if x[0] == 1 and len(x) == 2:
        return rowlib.d_res(x[1], rowlib.d_value)
    if x[0] == 2:
        return ("done",)
    return ("bad", x)


def check_class_fields(ctx, m, fam, stats):
    """the fields the Gallina resolution gives every class of the family == the effective
    __fields__ of the real pydantic classes (== the harness's own flattening)"""
    from common import parse_sexp
    try:
        req = f"(107 9 {e_family(fam.decls, fam.flat)})"
    except rowlib.Unsupported:
        return
    out = m.ask(req)
    try:
        ans = parse_sexp(out)
    except Exception:
        ans = None
    if not isinstance(ans, list) or len(ans) != len(fam.classes):
        ctx.disagree("family resolution: model could not decode the request", _show_family(fam.decls), out[:200], None)
        return
    for i, (a, cls) in enumerate(zip(ans, fam.classes)):
        impl = []
        for name, mf in cls.__fields__.items():
            impl.append((name, None if mf.required else rowlib.natives(mf.get_default())))
        mine = [(n, None if d is REQUIRED else d) for (n, _, d) in fam.flat[i][2]]
        if a[0] != 1:
            ctx.disagree("family resolution: model has no class", (i, _show_family(fam.decls)), a, impl)
            continue
        mod = [(rowlib.d_str(f[0]), rowlib.d_value(f[1][0]) if f[1] else None) for f in a[1]]
        stats["class_field_checks"] = stats.get("class_field_checks", 0) + 1
        if not _fields_eq(mod, impl):
            ctx.disagree("fields of a derived class: Gallina resolution vs pydantic __fields__", (i, _show_family(fam.decls)), mod, impl)
        if not _fields_eq(mine, impl):
            ctx.disagree("fields of a derived class: harness flattening vs pydantic __fields__", (i, _show_family(fam.decls)), mine, impl)


def _fields_eq(a, b):
    import c07
    if [x[0] for x in a] != [x[0] for x in b]:
        return False
    for (_, x), (_, y) in zip(a, b):
        if (x is None) != (y is None):
            return False
        if x is not None and not c07._deep_eq(x, y):
            return False
    return True


# ------------------------------------------------------------------------------ the Example of props/C07.v
def example_session():
    """Row/SessionExamples.v: Question / FollowUp(Question) and the history of C07_session_nonvacuous_run"""
    question = [("ID", STR, ""), ("text", STR, ""), ("attempts", INT, 3), ("required", BOOL, True), ("weight", FLOAT, 1.0),
                ("choices", ("list", STR), [])]
    followup = [("attempts", INT, 1), ("required", BOOL, False), ("weight", FLOAT, 0.5), ("parent", STR, "")]
    decls = [dict(kind="root", name="Question", parent=None, body=question, h2f={}, f2h={}),
             dict(kind="derive", name="FollowUp", parent=0, body=followup, h2f=None, f2h=None)]
    q1 = {"ID": "q1", "text": "How are you?", "attempts": 3, "required": True, "weight": 1.0, "choices": ["good", "a|b"]}
    f2 = {"ID": "f2", "text": "Really?", "attempts": 3, "required": True, "weight": 1.0, "choices": [], "parent": "q1"}
    ops = [dict(op="round", k=0, value=q1, targets=["choices"]),
           dict(op="unparse", k=1, value=f2, targets=[], excluded=[]),
           dict(op="new_parser", k=0),
           dict(op="round", k=1, value=f2, targets=[])]
    want = [("ok", q1),
            ("ok", [("ID", "f2"), ("text", "Really?"), ("attempts", "3"), ("required", "True"), ("weight", "1.0"), ("parent", "q1")]),
            ("ok", None), ("ok", f2)]
    return decls, ops, want


def probe_example(ctx, st):
    """the session of the Coq Example on the real classes: the implementation must do what the theorem's instance says"""
    decls, ops, want = example_session()
    ctx.v.coverage["evaluations"] += len(ops)
    st["example_session_steps"] = len(ops)
    try:
        fam, results, _ = run_one_session(decls, ops, True)
    except Exception as e:
        ctx.disagree("the session of C07_session_nonvacuous_run could not be run", _show_family(decls), "theorem", repr(e))
        return
    for i, (op, res, w) in enumerate(zip(ops, results, want)):
        if res[0] == w[0] and (w[1] is None or c07_deep_eq(res[1], w[1])):
            continue
        if op["op"] == "round":
            ctx.v.failing_input("session-roundtrip",
                                f"the session of C07_session_nonvacuous_run: {_show_op(fam.flat, op)} after "
                                f"{[_show_op(fam.flat, o) for o in ops[:i]]} returns {res!r}; family: {_show_family(decls)}",
                                dict(fn="session", decls=j_decls(decls), ops=ops[:i + 1], share=True))
        else:
            ctx.disagree("the session of C07_session_nonvacuous_run: step result", _show_op(fam.flat, op), w, res)


def probe_rekeyed_padding(ctx, st):
    """Directed probe of the finding sheet-padding-cell-rekeyed-onto-written-column (found by the flow file leg when
    this stream shifted its random choices): a send_message row followed by a call_webhook row with a body, exported
    and re-read.  Silent on a tree where the row survives."""
    import c07
    from rpft.parsers.common.cellparser import CellParser
    from rpft.parsers.common.rowdatasheet import RowDataSheet
    from rpft.parsers.common.rowparser import RowParser
    from rpft.parsers.common.sheetparser import SheetParser
    from rpft.parsers.creation.flowrowmodel import Edge, FlowRowModel, Webhook
    from rpft.parsers.sheets import CSVSheetReader

    def leg():
        rows = [FlowRowModel(row_id="1", type="send_message", edges=[Edge(from_="start")], mainarg_message_text="hi"),
                FlowRowModel(row_id="2", type="call_webhook", edges=[Edge(from_="1")],
                             webhook=Webhook(url="http://x", method="POST", body="payload"))]
        parser = RowParser(FlowRowModel, CellParser())
        d = tempfile.mkdtemp(prefix="rpftc07k")
        try:
            RowDataSheet(parser, rows, {"edges.*.condition"}, set()).export(os.path.join(d, "flow.csv"))
            back = SheetParser(parser, CSVSheetReader(d).get_sheet("flow").table).parse_all()
        finally:
            shutil.rmtree(d, ignore_errors=True)
        return [rowlib.natives(r) for r in rows], [rowlib.natives(r) for r in back]

    ctx.v.coverage["evaluations"] += 1
    r = run_cli_mode(leg)
    st["rekeyed_padding_probe"] = 1
    if r[0] != "ok":
        ctx.v.failing_input("file-roundtrip-csv", f"send_message + call_webhook rows through csv: {r!r}", dict(fn="file", rows=[], fmt="csv"))
        return
    rows, back = r[1]
    if not c07._deep_eq(rows, back):
        lost = len(back) == 2 and back[1]["webhook"]["body"] == "" and c07._deep_eq(back[0], rows[0])
        ctx.v.failing_input("sheet-padding-cell-rekeyed-onto-written-column" if lost else "file-roundtrip-csv",
                            f"send_message + call_webhook(body='payload') rows through csv read back as {back!r}"[:3000],
                            dict(fn="file", rows=rows, fmt="csv"))


# ------------------------------------------------------------------------------ the stream
def run_sessions(ctx, stats):
    rng, v, m = ctx.rng, ctx.v, ctx.model
    thorough = ctx.tier == "thorough"
    n_sessions = (1500 if thorough else 140) * ctx.scale
    st = {"sessions": 0, "operations": 0, "by_op": {}, "classes": 0, "derived_classes": 0, "shared_cell_parser": 0,
          "in_domain_steps": 0, "in_domain_steps_on_derived_after_ancestor_wrote": 0, "steps_after_a_failed_operation": 0,
          "error_results": 0, "differs_from_isolation": 0, "model_steps_compared": 0, "model_unsupported": 0,
          "session_lengths": {}, "generator_rejects": 0}
    probe_example(ctx, st)
    probe_rekeyed_padding(ctx, st)
    history = []           # every session so far (a failure that needs MORE than its own session is replayed from here)
    for s in range(n_sessions):
        try:
            decls = gen_family(rng, st)
            fam0 = Family(decls)        # also validates the family (pydantic refuses some generated defaults)
        except Exception as e:
            st["generator_rejects"] += 1
            continue
        try:
            ops = gen_ops(rng, fam0, st, thorough)
        except Exception as e:
            st["generator_rejects"] += 1
            continue
        share = rng.random() < 0.6
        st["sessions"] += 1
        st["shared_cell_parser"] += share
        st["classes"] += len(decls)
        st["derived_classes"] += sum(d["kind"] == "derive" for d in decls)
        st["session_lengths"][len(ops)] = st["session_lengths"].get(len(ops), 0) + 1
        history.append(dict(decls=decls, ops=ops, share=share))
        try:
            fam, results, keep = run_one_session(decls, ops, share)
        except Exception as e:
            ctx.disagree("session could not be run", _show_family(decls), None, repr(e))
            continue
        flat = fam.flat
        wrote = set()       # classes whose parser has unparsed something so far
        failed_before = False
        for i, (op, res) in enumerate(zip(ops, results)):
            st["operations"] += 1
            st["by_op"][op["op"]] = st["by_op"].get(op["op"], 0) + 1
            v.coverage["evaluations"] += 1
            if op["op"] == "new_parser":
                continue
            st["steps_after_a_failed_operation"] += failed_before
            if res[0] != "ok":
                st["error_results"] += 1
                failed_before = True
            dom, _ = in_domain_op(flat, op)
            if dom:
                st["in_domain_steps"] += 1
                if any(a in wrote for a in _ancestors(decls, op["k"])):
                    st["in_domain_steps_on_derived_after_ancestor_wrote"] += 1
            if op["op"] in ("round", "unparse", "sheet"):
                wrote.add(op["k"])
            prop_fails, differs, fresh = step_verdict(flat, op, res)
            if differs:
                st["differs_from_isolation"] += 1
            if prop_fails:
                alone = fresh is not None and fresh[0] != "reject" and not same_result(res, fresh)
                key = "session-roundtrip" if alone else "generic-roundtrip"
                if not alone and single_column_sheet(flat, op, res):
                    key = "single-column-sheet-export-crashes"
                elif not alone and packed_blank_value(flat, op):
                    key = "packed-model-blank-value-under-nonblank-default"
                if v.viol_by_key.get(key, 0) >= 2 or any(kf["key"] == key for kf in v.known):
                    # this class was reported twice already (or is a known finding): counted, not minimised again
                    v.failing_input(key, f"{_show_op(flat, op)} returns {res!r}", dict(fn="session", decls=j_decls(decls), ops=ops[:i + 1], share=share))
                    continue
                small = minimise(decls, ops, i, share, lambda fl, o, r: step_verdict(fl, o, r)[0])
                rep = dict(fn="session", decls=j_decls(decls), ops=small, share=share)
                if not _reproduces(rep):
                    rep = dict(fn="sessions", sessions=[dict(decls=j_decls(h["decls"]), ops=h["ops"], share=h["share"]) for h in history],
                               step=i)
                v.failing_input(key,
                                (f"after {len(small) - 1} earlier operation(s) on the same long-lived classes/parsers, "
                                 f"{_show_op(flat, small[-1])} returns {res!r}"
                                 + (f"; the same operation on objects built afresh returns {fresh!r}" if alone else "")
                                 + f"; family: {_show_family(decls)}; history: {[_show_op(flat, o) for o in small[:-1]]}")[:4000],
                                rep)
            elif differs:
                small = minimise(decls, ops, i, share, lambda fl, o, r: step_verdict(fl, o, r)[1])
                ctx.disagree("an operation on long-lived classes/parsers differs from the same operation in isolation",
                             dict(family=_show_family(decls), history=[_show_op(flat, o) for o in small[:-1]], op=_show_op(flat, small[-1]),
                                  replay=dict(fn="session", decls=j_decls(decls), ops=small, share=share)),
                             fresh, res)
        # oracle 4: nothing returned earlier was changed later
        for obj, snap in keep:
            if isinstance(obj, dict):
                now = dict(obj)
                changed = now != snap
            else:
                now = rowlib.natives(obj)
                changed = not c07_deep_eq(now, snap)
            if changed:
                ctx.disagree("the result of an earlier operation was changed by a later one", _show_family(decls), snap, now)
                break
        # oracle 3: the model's state machine on the same session
        if m:
            check_class_fields(ctx, m, fam, st)
            model_session(ctx, m, decls, flat, ops, results, st)
    stats["sessions"] = st


def model_session(ctx, m, decls, flat, ops, results, st):
    from common import parse_sexp
    idx, reqs = [], []
    for i, op in enumerate(ops):
        try:
            r = e_op(flat, op)
        except rowlib.Unsupported:
            r = None
        if r is not None:
            idx.append(i)
            reqs.append(r)
    if not reqs:
        return
    try:
        fam_s = e_family(decls, flat)
    except rowlib.Unsupported:
        st["model_unsupported"] += 1
        return
    out = m.ask(f"(107 8 {fam_s} {rowlib.e_list(reqs)})")
    try:
        ans = parse_sexp(out)
    except Exception:
        ans = None
    if not isinstance(ans, list) or len(ans) != len(reqs):
        ctx.disagree("session: model could not decode the request", _show_family(decls), out[:200], None)
        return
    for i, a in zip(idx, ans):
        op, im = ops[i], results[i]
        mo = d_opres(a)
        case = dict(family=_show_family(decls), history=[_show_op(flat, o) for o in ops[:i]], op=_show_op(flat, op))
        if op["op"] == "new_parser":
            if mo[0] != "done":
                ctx.disagree("session step: new parser", case, mo, im)
            continue
        if mo[0] == "err" and mo[1] == rowlib.ERR_UNSUPPORTED:
            st["model_unsupported"] += 1
            continue
        st["model_steps_compared"] += 1
        if mo[0] in ("bad", "done"):
            ctx.disagree("session step: model answer", case, mo, im)
        elif (mo[0] == "ok") != (im[0] == "ok"):
            ctx.disagree("session step ok/error: model state machine vs long-lived implementation objects", case, mo, im)
        elif mo[0] == "ok" and not c07_deep_eq(mo[1], im[1]):
            ctx.disagree("session step result: model state machine vs long-lived implementation objects", case, mo[1], im[1])


def _ancestors(decls, k):
    out = []
    while decls[k]["kind"] == "derive":
        k = decls[k]["parent"]
        out.append(k)
    return out


def _reproduces(rep):
    try:
        return not replay_session(rep, quiet=True)
    except Exception:
        return False


# ------------------------------------------------------------------------------ display / replay
def j_ty(t):
    k = t[0]
    if k == "ref":
        return ["ref", t[1]]
    if k == "list":
        return ["list", j_ty(t[1])]
    if k == "model":
        return ["model", t[1], [[n, j_ty(ft), (["required"] if d is REQUIRED else ["default", d])] for (n, ft, d) in t[2]], t[3], t[4]]
    return [k]


def ty_j(j):
    k = j[0]
    if k == "ref":
        return ("ref", j[1])
    if k == "list":
        return ("list", ty_j(j[1]))
    if k == "model":
        return ("model", j[1], [(n, ty_j(ft), REQUIRED if d[0] == "required" else d[1]) for (n, ft, d) in j[2]], j[3], j[4])
    return (k,)


def j_decls(decls):
    return [dict(kind=d["kind"], name=d["name"], parent=d["parent"], h2f=d["h2f"], f2h=d["f2h"],
                 body=[[n, j_ty(t), (["required"] if dv is REQUIRED else ["default", dv])] for (n, t, dv) in d["body"]])
            for d in decls]


def decls_j(js):
    return [dict(kind=d["kind"], name=d["name"], parent=d["parent"], h2f=d["h2f"], f2h=d["f2h"],
                 body=[(n, ty_j(t), REQUIRED if dv[0] == "required" else dv[1]) for (n, t, dv) in d["body"]])
            for d in js]


def _show_tyref(t):
    import c07
    k = t[0]
    if k == "ref":
        return f"<class #{t[1]}>"
    if k == "list":
        return "List[" + _show_tyref(t[1]) + "]"
    return c07._show_ty(t)


def _show_family(decls):
    out = []
    for i, d in enumerate(decls):
        base = "ParserModel" if d["kind"] == "root" else f"#{d['parent']}"
        fs = "; ".join(f"{n}: {_show_tyref(t)}" + ("" if dv is REQUIRED else f" = {dv!r}") for (n, t, dv) in d["body"])
        rm = (f" h2f={d['h2f']}" if d["h2f"] else "") + (f" f2h={d['f2h']}" if d["f2h"] else "")
        out.append(f"#{i} class {d['name']}({base}): {fs}{rm}")
    return " || ".join(out)


def _show_op(flat, op):
    k = op["k"]
    if op["op"] == "round":
        return f"parse_row(unparse_row(#{k}({op['value']!r}), targets={op['targets']}))"
    if op["op"] == "unparse":
        return f"unparse_row(#{k}({op['value']!r}), targets={op['targets']}, excluded={op['excluded']})"
    if op["op"] in ("parse", "parse_tpl"):
        return f"{op['op']}_row[#{k}]({dict((c[0], c[1]) for c in op['cells'])!r})"
    if op["op"] == "sheet":
        return f"csv export + re-read [#{k}]({op['rows']!r}, targets={op['targets']})"
    return f"new RowParser for #{k}"


def replay_session(r, quiet=False):
    """-> True when the property holds on the last operation of the recorded history"""
    def say(*a):
        if not quiet:
            print(*a)

    if r["fn"] == "sessions":
        ok = True
        for n, s in enumerate(r["sessions"]):
            last = n == len(r["sessions"]) - 1
            decls = decls_j(s["decls"])
            fam, results, _ = run_one_session(decls, s["ops"], s["share"], upto=r["step"] if last else None)
            if last:
                op, res = s["ops"][r["step"]], results[r["step"]]
                fails, differs, fresh = step_verdict(fam.flat, op, res)
                say("family :", _show_family(decls))
                say("op     :", _show_op(fam.flat, op))
                say("result :", res)
                say("fresh  :", fresh)
                ok = not fails
        return ok
    decls = decls_j(r["decls"])
    fam, results, _ = run_one_session(decls, r["ops"], r.get("share", True))
    op, res = r["ops"][-1], results[-1]
    fails, differs, fresh = step_verdict(fam.flat, op, res)
    say("family :", _show_family(decls))
    for o in r["ops"][:-1]:
        say("before :", _show_op(fam.flat, o))
    say("op     :", _show_op(fam.flat, op))
    say("result on the long-lived objects:", res)
    say("result on objects built afresh  :", fresh)
    return not fails and not differs
