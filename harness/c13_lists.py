"""C13 — inputs of the HASH-ORDER stream (harness/c13.py, `list_cases`).

"... gives the same result every time up to a one-to-one renaming of invented UUIDs ...
regardless of hash randomisation": a result that passes through the iteration order of a
set / frozenset, of a dict keyed by objects with the default hash, through sorted(.., key=id)
or a directory enumeration shows a difference between two processes ONLY when the collection
holds at least two distinct entries at the place where the code takes the shortcut — and the
shortcuts people write (`list(set(xs))` to drop duplicates, `set(a) & set(b)`, a dict keyed
by the objects to be merged) are entered only when the input REPEATS an entry.  The general
generators rarely repeat anything.  Here every list-valued feature of the input formats is
filled from a tiny pool, so that repeated entries (the same text twice or more) and
near-duplicates (differing in case, in an inner blank, in the composition of an accent, in
one character) are the rule:

  flow sheets     choices / quick replies (literal and templated from a data row whose columns
                  coincide), attachments + image/audio/video, groups, webhook headers, airtime
                  amounts, loop lists (begin_for a;b;a) with their loop variables, go_to lists,
                  several edges with the same test / the same category name, template arguments
                  of insert_as_block
  content index   tags.N, several create_flow rows for one sheet / one new_name, data sheets with
                  equal and near-equal IDs, concat of sheets with overlapping IDs, sort with tied
                  keys, filter, template_arguments / template argument definitions, triggers
                  (keywords, groups, exclude_groups), campaigns, ignore_row
  several books   sheets with equal names in two or three workbooks passed to one call
  flow files      the compiled documents, thickened: repeated quick replies / attachments /
                  groups of group actions / case arguments / trigger keywords / group entries

Nothing here judges anything: it produces inputs (abstract, JSON-able, replayable) and says
which features each input has (`features`, counted into the evidence)."""
import copy
import importlib
import json
import os
import shutil
import sys
import tempfile

import flowutil
import sheetgen
from sheetgen import edge, join_list, join_pairs

QR_POOL = ["Yes", "yes", "Yes ", "No", "no", "Maybe", "Plus tard", "Plus  tard", "Oui", "Caf\u00e9", "Cafe\u0301", "a b", "a  b", "OK", "Ok", "0", "00"]
ATT_POOL = ["image:http://x/a.png", "image:http://x/A.png", "audio:http://x/a.mp3", "video:http://x/a.mp4", "image:http://x/a.png?1",
            "application/pdf:http://x/doc.pdf"]
MEDIA_POOL = ["http://x/a.png", "http://x/A.png", "http://x/b.png"]
GROUP_POOL = ["Team A", "team a", "Team  A", "Team B", "Survey people", "\u00c9quipe", "E\u0301quipe"]
KEYWORD_POOL = ["hi", "Hi", "hello", "start", "go", "g0"]
TAG_POOL = ["a", "A", "b", "p", ""]
ID_POOL = ["r1", "r2", "R1", "r 1", "r3"]
HEADER_KEYS = ["X-Key", "x-key", "Accept", "X-Key "]
CURRENCIES = ["KES", "USD", "kes", "KES "]
LOOP_ITEMS = ["one", "two", "One", "on e", "three"]
TAG_FILTERS = [None, None, [], ["1", "a"], ["1", "a", "a"], ["1", "a", "A", "2", "p"], ["1", "b", "1", "a"], ["2", "p", "2", "p"]]

MODELS_MOD = "c13_scratch_models"
MODEL_NAME = "C13Labels"
MODELS_SRC = """# data models module of the C13 harness
from rpft.parsers.creation.datarowmodel import DataRowModel


class C13Labels(DataRowModel):
    q: str = ""
    c1: str = ""
    c2: str = ""
    c3: str = ""
    c4: str = ""
    c5: str = ""
    g: str = ""
    att: str = ""
    word: str = ""
"""

DATA_COLS = ["q", "c1", "c2", "c3", "c4", "c5", "g", "att", "word"]
IH = ["type", "sheet_name", "data_sheet", "data_row_id", "new_name", "data_model", "template_arguments", "operation.type",
      "operation.expression", "operation.order", "status", "group", "tags.1", "tags.2", "tags.3"]
TRIG_H = ["type", "keywords", "flow", "groups", "exclude_groups", "channel", "match_type"]
CAMP_H = ["uuid", "offset", "unit", "event_type", "delivery_hour", "message", "relative_to", "start_mode", "flow", "base_language"]


def feat(d, k, n=1):
    d[k] = d.get(k, 0) + n


def repeats(vals):
    """(has an exact repetition, has >= 2 distinct values)"""
    vals = [v for v in vals if v != ""]
    return len(set(vals)) < len(vals), len(set(vals)) >= 2


def near(vals):
    def norm(s):
        import unicodedata

        return "".join(unicodedata.normalize("NFC", s).lower().split())

    vs = sorted(set(v for v in vals if v != ""))
    return len({norm(v) for v in vs}) < len(vs)


class ListGen:
    def __init__(self, rng, features):
        self.rng, self.f = rng, features

    # ---------------------------------------------------------------- lists with repeats
    def bag(self, pool, lo=2, hi=6, distinct=None):
        """a list drawn from 2..4 entries of the pool: longer than the sub-pool more often than not"""
        r = self.rng
        sub = r.sample(pool, min(len(pool), distinct or r.choice([2, 2, 3, 3, 4])))
        out = [r.choice(sub) for _ in range(r.randint(lo, hi))]
        if r.random() < 0.5 and len(out) >= 2:
            out[r.randrange(len(out))] = out[0]            # an exact repetition for sure
        return out

    def note(self, what, vals):
        rep, two = repeats(vals)
        if rep:
            feat(self.f, what + ":repeated")
        if rep and two:
            feat(self.f, what + ":repeated+distinct")
        if near(vals):
            feat(self.f, what + ":near-duplicate")

    # ---------------------------------------------------------------- flow sheets
    def thicken_rows(self, rows, ctx_cols=None):
        """fill the list-valued cells of generator-made rows from the tiny pools"""
        r = self.rng
        for row in rows:
            t = row["type"]
            if t == "send_message":
                if r.random() < 0.8:
                    if ctx_cols and r.random() < 0.6:
                        cols = [r.choice(ctx_cols) for _ in range(r.randint(2, 6))]
                        row["choices"] = ["{{" + c + "}}" for c in cols]
                        feat(self.f, "choices:templated")
                    else:
                        row["choices"] = self.bag(QR_POOL)
                        self.note("choices", row["choices"])
                if r.random() < 0.5:
                    row["attachments"] = self.bag(ATT_POOL, 2, 4)
                    self.note("attachments", row["attachments"])
                for k in ("image", "audio", "video"):
                    row.pop(k, None)
                    if r.random() < 0.25:
                        row[k] = r.choice(MEDIA_POOL)
            elif t == "call_webhook":
                row["webhook_headers"] = [[k, r.choice(["1", "2"])] for k in self.bag(HEADER_KEYS, 1, 4)]
                self.note("webhook_headers", [h[0] for h in row["webhook_headers"]])
            elif t == "transfer_airtime":
                row["arg"] = [[c, r.choice(["10", "1.5", "10"])] for c in self.bag(CURRENCIES, 1, 4)]
                self.note("airtime", [a[0] for a in row["arg"]])
            elif t in ("add_to_group", "remove_from_group", "split_by_group") and not row.get("obj_id"):
                row["arg"] = [r.choice(GROUP_POOL[:4])]
                feat(self.f, "group:pool-name")
        return rows

    def plain_flow(self, prefix, ctx_cols=None):
        r = self.rng
        g = sheetgen.Gen(r, wf=r.random() < 0.6, special_text=r.random() < 0.3, prefix=prefix)
        rows = g.generate(r.choice([3, 5, 8]))
        return self.thicken_rows(rows, ctx_cols)

    def template_flow(self, with_block):
        """a flow sheet meant to be instantiated from a row of the `labels` data sheet"""
        r = self.rng
        cs = ["c1", "c2", "c3", "c4", "c5"]
        k = r.randint(3, 5)
        sep = r.choice([";", "|"])
        rows = [
            {"type": "send_message", "row_id": "1", "edges": [edge("start")], "arg": "{{q}}",
             "choices_cell": sep.join("{{" + c + "}}" for c in r.sample(cs, k) + [r.choice(cs)]),
             "attachments": ["{{att}}", r.choice(ATT_POOL), "{{att}}"] if r.random() < 0.6 else []},
            {"type": "add_to_group", "row_id": "2", "edges": [edge("")], "arg": ["{{g}}"]},
            {"type": "wait_for_response", "row_id": "3", "edges": [edge("")]},
        ]
        tests = [r.choice(cs[:3]) for _ in range(r.randint(2, 4))]
        for i, c in enumerate(tests):
            nm = r.choice(["", "", "Cat {{" + r.choice(cs[:3]) + "}}", "Same"])
            rows.append({"type": "send_message", "row_id": f"a{i}", "edges": [edge("3", "{{" + c + "}}", "", r.choice(["", "has_phrase", "has_any_word"]), nm)],
                         "arg": "you said {{" + c + "}}", "choices": ["{{" + c + "}}", "{{" + r.choice(cs) + "}}", "{{" + c + "}}"]})
        feat(self.f, "router:templated-tests", len(tests))
        feat(self.f, "choices:templated-from-data-row", 2 + len(tests))
        its = self.bag(LOOP_ITEMS, 2, 4)
        self.note("loop_items", its)
        rows.append({"type": "begin_for", "row_id": "", "edges": [edge("3")], "arg": its, "loop_variable": [r.choice(["item", "word"])]})
        lv = rows[-1]["loop_variable"][0]
        rows.append({"type": "send_message", "row_id": "", "edges": [edge("")], "arg": "item {{" + lv + "}}",
                     "choices": ["{{" + lv + "}}", r.choice(its), "{{" + lv + "}}", "{{c1}}"]})
        rows.append({"type": "end_for", "row_id": "", "edges": []})
        if with_block:
            args = self.bag(["v", "V", "w"], 1, 3)
            self.note("template_arguments", args)
            rows.append({"type": "insert_as_block", "row_id": "", "edges": [edge("")], "arg": "blk", "template_arguments": join_list(args)})
        return rows

    def block_flow(self):
        r = self.rng
        return [
            {"type": "send_message", "row_id": "1", "edges": [edge("start")], "arg": "block says {{p1}} and {{p2}}",
             "choices": ["{{p1}}", "{{p2}}", "{{p1}}", r.choice(QR_POOL)]},
            {"type": "add_to_group", "row_id": "2", "edges": [edge("")], "arg": [r.choice(GROUP_POOL[:3])]},
        ]

    def render(self, rows):
        rows = copy.deepcopy(rows)
        cells_extra = []
        for row in rows:
            cells_extra.append(row.pop("choices_cell", None))
        headers, cells = sheetgen.render_sheet(rows, self.rng)
        for c, extra in zip(cells, cells_extra):
            if extra is not None:
                c["choices"] = extra
        if any(x is not None for x in cells_extra) and "choices" not in headers:
            headers = headers + ["choices"]
        return [headers, cells]

    # ---------------------------------------------------------------- data sheets
    def data_sheet(self, ids=None):
        r = self.rng
        labels = r.sample(QR_POOL, r.choice([2, 3, 3, 4]))
        ids = ids or self.bag(ID_POOL, 2, 4)
        self.note("data_ids", ids)
        rows = []
        for i in ids:
            row = {"ID": i, "q": r.choice(["Continue?", "Again?"]), "g": r.choice(GROUP_POOL[:4]), "att": r.choice(ATT_POOL),
                   "word": r.choice(LOOP_ITEMS)}
            for c in ("c1", "c2", "c3", "c4", "c5"):
                row[c] = r.choice(labels)
            self.note("data_labels", [row[c] for c in ("c1", "c2", "c3", "c4", "c5")])
            rows.append(row)
        return [["ID"] + DATA_COLS, rows]

    # ---------------------------------------------------------------- a workbook
    def tags(self):
        r = self.rng
        if r.random() < 0.5:
            return {}
        t = [r.choice(TAG_POOL) for _ in range(3)]
        self.note("index_tags", t)
        return {"tags.1": t[0], "tags.2": t[1], "tags.3": t[2]}

    def workbook(self):
        """-> (sheets {name: [headers, rows]}, flow names it defines).  Every workbook draws its sheet names
        from the same few names: two workbooks of one call have sheets with equal names and other content"""
        r = self.rng
        sheets, index, flows = {}, [], []
        with_data = r.random() < 0.75
        with_block = with_data and r.random() < 0.5
        names = ["fa", "fb", "fc"][: r.choice([1, 2, 2, 3])]
        for nm in names:
            sheets[nm] = self.render(self.plain_flow(nm + "_"))
            for _ in range(r.choice([1, 1, 2])):            # the same sheet listed twice, with or without another name
                new = r.choice(["", "", "renamed", names[0]])
                index.append(dict({"type": "create_flow", "sheet_name": nm, "new_name": new}, **self.tags()))
                flows.append(new or nm)
        if len(index) > len(names):
            feat(self.f, "index:create_flow-twice")
        if with_data:
            sheets["labels"] = self.data_sheet()
            index.append({"type": "data_sheet", "sheet_name": "labels", "data_model": MODEL_NAME})
            data_names = ["labels"]
            if r.random() < 0.6:
                sheets["labels_b"] = self.data_sheet(ids=self.bag(ID_POOL, 1, 3))
                index.append({"type": "data_sheet", "sheet_name": join_list(["labels", "labels_b"]) if r.random() < 0.5 else join_list(["labels_b", "labels", "labels_b"]),
                              "new_name": "labels_all", "operation.type": "concat", "data_model": MODEL_NAME})
                data_names.append("labels_all")
                feat(self.f, "data:concat-overlapping")
            if r.random() < 0.5:
                index.append({"type": "data_sheet", "sheet_name": "labels", "new_name": "labels_sorted", "operation.type": "sort",
                              "operation.expression": r.choice(["c1", "c1.lower()", "len(c2)", "g"]), "operation.order": r.choice(["", "descending"]), "data_model": MODEL_NAME})
                data_names.append("labels_sorted")
                feat(self.f, "data:sort-tied-keys")
            if r.random() < 0.4:
                index.append({"type": "data_sheet", "sheet_name": "labels", "new_name": "labels_some", "operation.type": "filter",
                              "operation.expression": r.choice(["c1 == c2", "c1 != c2", "len(c3) > 2"]), "data_model": MODEL_NAME})
                data_names.append("labels_some")
                feat(self.f, "data:filter")
            sheets["tpl"] = self.render(self.template_flow(with_block))
            if with_block:
                sheets["blk"] = self.render(self.block_flow())
                index.append({"type": "template_definition", "sheet_name": "blk", "template_arguments": "p1;;|p2;;dflt|"})
                feat(self.f, "index:template_definition+insert_as_block")
            for _ in range(r.choice([1, 2])):
                ds = r.choice(data_names)
                one = r.random() < 0.4
                index.append(dict({"type": "create_flow", "sheet_name": "tpl", "data_sheet": ds,
                                   "data_row_id": r.choice([x["ID"] for x in sheets["labels"][1]]) if one and ds != "labels_some" else "",
                                   "new_name": r.choice(["", "tpl", "survey"])}, **self.tags()))
                feat(self.f, "index:create_flow-per-data-row")
            if r.random() < 0.4:
                # a plain sheet instantiated with a data row: templated choices in generator-made rows
                sheets["fd"] = self.render(self.plain_flow("fd_", ctx_cols=["c1", "c2", "c3", "c4", "c5"]))
                index.append({"type": "create_flow", "sheet_name": "fd", "data_sheet": "labels"})
        if r.random() < 0.45 and flows:
            trig = []
            for _ in range(r.randint(1, 3)):
                kw = self.bag(KEYWORD_POOL, 1, 4)
                gs = self.bag(GROUP_POOL, 0, 3) if r.random() < 0.6 else []
                ex = self.bag(GROUP_POOL, 0, 2) if r.random() < 0.4 else []
                self.note("trigger_keywords", kw)
                self.note("trigger_groups", gs + ex)
                trig.append({"type": "K", "keywords": join_list(kw), "flow": r.choice(flows), "groups": join_list(gs), "exclude_groups": join_list(ex),
                             "match_type": r.choice(["", "F", "O"])})
            sheets["trig"] = [TRIG_H, trig]
            index.append(dict({"type": "create_triggers", "sheet_name": "trig"}, **self.tags()))
        if r.random() < 0.3 and flows:
            ev = []
            for _ in range(r.randint(1, 3)):
                ev.append({"offset": str(r.choice([1, 1, 5])), "unit": r.choice(["H", "D"]), "event_type": "F", "relative_to": r.choice(["Created On", "created on"]),
                           "start_mode": "I", "flow": r.choice(flows)})
            sheets["camp"] = [CAMP_H, ev]
            index.append({"type": "create_campaign", "sheet_name": "camp", "group": r.choice(GROUP_POOL[:3]), "new_name": r.choice(["", "camp", "Camp"])})
            feat(self.f, "index:create_campaign")
        if r.random() < 0.15 and flows:
            index.append({"type": "ignore_row", "sheet_name": r.choice(flows)})
            feat(self.f, "index:ignore_row")
        r.shuffle(index)
        # definitions before uses: data sheets and template definitions first (stable)
        index.sort(key=lambda i: 0 if i["type"] == "data_sheet" and not i.get("operation.type") else 1 if i["type"] in ("data_sheet", "template_definition") else 2)
        sheets["content_index"] = [IH, index]
        return sheets, flows

    def case_books(self):
        """1..3 workbooks for ONE call; later ones re-define sheets of the earlier ones"""
        r = self.rng
        a, flows = self.workbook()
        books = [a]
        n = r.choice([1, 1, 2, 2, 3])
        for _ in range(n - 1):
            b, fl2 = self.workbook()
            both = sorted((set(a) & set(b)) - {"content_index"})
            feat(self.f, "books:sheets-with-equal-names", len(both))
            books.append(b)
            flows += fl2
        return books

    # ---------------------------------------------------------------- flow files
    def thicken_doc(self, doc):
        """repeat entries of the list-valued members of a rendered document (ids kept: the same object twice)"""
        r = self.rng
        doc = copy.deepcopy(doc)
        extra_groups = {g.get("name"): g.get("uuid") for g in doc.get("groups", []) or []}
        for fl in doc.get("flows", []):
            for n in fl.get("nodes", []):
                for a in n.get("actions", []) or []:
                    if a.get("type") == "send_msg":
                        if r.random() < 0.7:
                            a["quick_replies"] = (a.get("quick_replies") or []) + self.bag(QR_POOL, 2, 5)
                            self.note("file:quick_replies", a["quick_replies"])
                        if r.random() < 0.4:
                            a["attachments"] = (a.get("attachments") or []) + self.bag(ATT_POOL, 2, 3)
                            self.note("file:attachments", a["attachments"])
                    elif a.get("type") in ("add_contact_groups", "remove_contact_groups") and a.get("groups"):
                        if r.random() < 0.6:
                            g0 = a["groups"][0]
                            more = [copy.deepcopy(g0)]
                            if doc.get("groups") and r.random() < 0.7:
                                more += [copy.deepcopy(r.choice(doc["groups"])) for _ in range(r.randint(1, 3))]
                            if r.random() < 0.5:
                                # groups the document does not list, under near-duplicate names (one uuid per name)
                                for nm in self.bag(GROUP_POOL, 1, 3):
                                    more.append({"uuid": extra_groups.setdefault(nm, sheetgen.new_uuid(r)), "name": nm})
                            r.shuffle(more)
                            a["groups"] = a["groups"] + [{"uuid": g.get("uuid"), "name": g.get("name")} for g in more]
                            self.note("file:action_groups", [g["name"] for g in a["groups"]])
                rt = n.get("router") or {}
                for c in rt.get("cases", []) or []:
                    if c.get("arguments") and r.random() < 0.3:
                        c["arguments"] = c["arguments"] + [c["arguments"][0]]
                        feat(self.f, "file:case_arguments:repeated")
        for t in doc.get("triggers", []) or []:
            if t.get("keywords") and r.random() < 0.7:
                t["keywords"] = t["keywords"] + [t["keywords"][0]] + [r.choice(KEYWORD_POOL)]
                self.note("file:trigger_keywords", t["keywords"])
        if doc.get("groups") and r.random() < 0.4:
            doc["groups"] = doc["groups"] + [copy.deepcopy(doc["groups"][0])]
            feat(self.f, "file:groups:repeated")
        return doc


def compile_books(books, tags=None):
    """compile here (harness process) to obtain a flow file: -> rendered document or None"""
    from common import run_cli_mode
    from rpft import converters

    root = tempfile.mkdtemp(prefix="c13lb")
    try:
        with open(os.path.join(root, MODELS_MOD + ".py"), "w") as f:
            f.write(MODELS_SRC)
        if MODELS_MOD not in sys.modules:
            sys.path.insert(0, root)
            try:
                importlib.import_module(MODELS_MOD)
            finally:
                sys.path.remove(root)
        dirs = []
        for i, b in enumerate(books):
            d = os.path.join(root, f"b{i}")
            os.makedirs(d)
            for name, (headers, rows) in b.items():
                flowutil.write_csv(os.path.join(d, name + ".csv"), headers, rows)
            dirs.append(d)
        res = run_cli_mode(converters.create_flows, dirs, None, "csv", data_models=MODELS_MOD, tags=tags or [])
        return res[1] if res[0] == "ok" else None
    finally:
        shutil.rmtree(root, ignore_errors=True)


def as_json_book(book, order):
    """the workbook as ONE json file (the format JSONSheetReader reads), its sheets object written in `order`"""
    out = {"meta": {"version": "0.1.0"}, "sheets": {}}
    for name in order:
        headers, rows = book[name]
        out["sheets"][name] = {"headers": list(headers), "rows": [[r.get(h, "") for h in headers] for r in rows]}
    return out
