"""C09 — the ROWS OF A SHEET on one long-lived RowParser (strengthening after wave 3).

SheetParser hands every row of a sheet to ONE RowParser and, through it, to ONE CellParser (which it also calls
itself for the include_if cell before a row); the streams of harness/c09.py parse each layout pair on its own.
"A row's parsed value depends only on the data, not on how it is laid out in columns" therefore has to hold for
every row whatever the same objects have parsed before — and, inside one row, whatever the columns of OTHER fields
held (any ordering of columns that belong to different fields).  This module generates sheets: sequences of rows
for one model (generic families and the flow row model) on one RowParser, with a second RowParser for another model
living beside it, and judges every row:

 (H) the parsed row equals the same row parsed by a fresh RowParser(model, CellParser()) in this process, and by
     one in ISOLATION (harness/isolate.py: a forked copy of an interpreter that has never called the implementation);
 (P) all layouts of ONE value that occur in the sheet — packed / spread / positional / key;value / `*` / short or
     long flow headers / permuted (harness/c09.py's encoders), the same with a field written as a native {@ @}
     literal, the same with a cell written as a {{ }} template over the sheet's context — parse to equal row models,
     wherever they stand in the sheet;
 (M) the template-free rows through the extracted state machine Row/RowSession.rp_run (engine 109 fn 4/5), in order.

Rows that plausibly leave state behind are mixed in: native {@ @} cells (lists, ranges, comparisons, ints, strings;
in list-typed, record-typed and basic-typed columns, before and after packed columns), failing rows (unknown header,
bad int, list index out of order, undefined template variable, nested {@), rows under context None / {} / a shared
non-empty context object, the include_if pre-evaluation SheetParser performs on the row parser's cell parser, rows of
another model on a second parser."""
import json
import re

import c08_sessions as cs
import rowgen
import rowlib
from common import parse_sexp, run_cli_mode
from rowlib import REQUIRED

K_ROW_HISTORY = "row-result-depends-on-parser-history"
K_ROW_PROCESS = "row-result-depends-on-process-history"
K_LAYOUT_HISTORY = "layouts-of-one-value-differ-within-a-sheet"
K_NOT_VALUE = "encoding-does-not-parse-to-value"

SAFE_STR = re.compile(r"^[a-z]( ?[a-z])*$")


# ------------------------------------------------------------------ the flow header tables when the behavioural probe fails
def safe_flow_tables():
    """c07.flow_ctx_tables() tabulates FlowRowModel.header_name_to_field_name_with_context by CALLING it many times in this
    process; a tree on which that function keeps state between calls (a cache keyed by the header alone, say) makes the
    probe refuse — the very class of defect the sheet histories are after.  The generators and the oracle still need the
    tables: they are then read from the SOURCE (the two dict literals of the function), and the refusal is returned so that
    the caller can report it.  -> (tables, refusal message or None)"""
    import ast
    import inspect
    import os
    import sys
    import textwrap

    from c07 import flow_ctx_tables
    here = os.path.dirname(os.path.abspath(__file__))
    tdir = os.path.join(here, "..", "translator")
    if tdir not in sys.path:
        sys.path.append(tdir)          # tables_row._refuse imports gen_tables.Refuse
    try:
        cx = flow_ctx_tables()
        if cx.get("sw_table") and cx.get("sw_header") and cx.get("basic"):
            return cx, None
        msg = "the probe found no row-dependent header / an empty table"
    except Exception as e:
        msg = f"{type(e).__name__}: {e}"
    from rpft.parsers.creation import flowrowmodel

    basic, table = None, None
    tree = ast.parse(textwrap.dedent(inspect.getsource(flowrowmodel.FlowRowModel)))
    for node in ast.walk(tree):
        if isinstance(node, ast.Dict):
            try:
                d = ast.literal_eval(node)
            except Exception:
                continue
            if not d or not all(isinstance(k, str) and isinstance(x, str) for k, x in d.items()):
                continue
            if any("*" in x for x in d.values()) and "from" in d:
                basic = d
            elif "send_message" in d:
                table = d
    if basic is None or table is None:
        raise RuntimeError("flow header tables: probe refused (" + msg + ") and the source has no such dict literals")
    return dict(basic=basic, sw_header="message_text", sw_column="type", sw_table=table, sw_strip=None), msg


# ------------------------------------------------------------------ native literals for a field
def native_literal(rng, ft, v):
    """the text of a {@ @} cell whose result is the value v of a field of type ft; None = not written natively"""
    k = ft[0]

    def lit(t, x):
        if t[0] == "str":
            return repr(x) if isinstance(x, str) and SAFE_STR.match(x) and x not in ("none", "true", "false") else None
        if t[0] == "int":
            return repr(x)
        if t[0] == "bool":
            return rng.choice(["1 == 1", "true", "True"]) if x else rng.choice(["1 == 2", "false", "False"])
        if t[0] == "float":
            return repr(x) if x == x and abs(x) < 1e15 and "e" not in repr(x) and "inf" not in repr(x) else None
        return None

    if k in ("str", "int", "bool", "float"):
        s = lit(ft, v)
        return None if s is None else "{@ " + s + " @}"
    if k == "list" and ft[1][0] in ("str", "int", "bool", "float"):
        parts = [lit(ft[1], x) for x in v]
        if any(p is None for p in parts) or (ft[1][0] == "bool"):
            return None
        # (NOT `range(n)` here: only a column of the bare type `list` takes an arbitrary iterable — list(value);
        # a List[int] column wraps a non-list into a one-element list and int(range(..)) raises.  A false alarm of
        # the first version of this generator, VERIF_SEED=0.)
        return "{@ [" + ", ".join(parts) + "] @}"
    if k == "ulist":
        if not all(isinstance(x, str) for x in v):
            return None
        parts = [lit(("str",), x) for x in v]
        if any(p is None for p in parts):
            return None
        return ("{@ [" + ", ".join(parts) + "] @}") if rng.random() < 0.7 else ("{@ (" + ", ".join(parts) + ("," if len(parts) == 1 else "") + ") @}")
    return None


def nativise(rng, t, val, cells, group):
    """one more layout of val: some top-level fields given as a native {@ @} cell (all the columns of such a field
    replaced by ONE column, put at a random position among the columns of the other fields).
    group(header) = the top-level field a column belongs to.  -> (cells, fields written natively) or None"""
    f2h = t[4]
    elig = []
    for (n, ft, d) in t[2]:
        h = f2h.get(n, n)
        if t[3].get(h, h) != n:
            continue
        s = native_literal(rng, ft, val[n])
        if s is not None:
            elig.append((n, h, s))
    if not elig:
        return None
    rng.shuffle(elig)
    chosen = elig[:rng.choice([1, 1, 2])]
    names = {n for (n, _, _) in chosen}
    rest = [c for c in cells if group(c[0]) not in names]
    if len(rest) == len(cells) and all(val[n] == d for (n, _, d) in t[2] if n in names and d is not REQUIRED) and rng.random() < 0.5:
        pass
    out = list(rest)
    for (n, h, s) in chosen:
        out.insert(rng.randint(0, len(out)), (h, s))
    heads = [h for h, _ in out]
    if len(set(heads)) != len(heads):
        return None
    return out, sorted(names)


def templatise(rng, cells, ctxs):
    """one more layout: one cell written as {{ name }} over a context object of the sheet (templates are expanded
    before the cell is split, so the row is the same).  -> (cells, ctx ref) or None"""
    cand = [i for i, (h, x) in enumerate(cells) if x and x == x.strip() and "{" not in x and "}" not in x]
    if not cand:
        return None
    i = rng.choice(cand)
    name = rng.choice(["v1", "cellvalue", "w"])
    ctxs.append({name: cells[i][1], "other": "unused"})
    out = list(cells)
    out[i] = (out[i][0], "{{" + name + "}}" if rng.random() < 0.5 else "{{ " + name + " }}")
    return out, ["ref", len(ctxs) - 1]


def spoil(rng, cells):
    """a row that fails: -> (cells, kind)"""
    out = list(cells)
    r = rng.random()
    if r < 0.3:
        out.insert(rng.randint(0, len(out)), ("no_such_column", rng.choice(["1", "a;b", "{@ [1] @}"])))
        return out, "failing-unknown-header"
    if r < 0.5 and out:
        i = rng.randrange(len(out))
        out[i] = (out[i][0], rng.choice(["{{ missing }}", "{@ missing @}", "{@ a @} {@ b @}", "{{ a", "{@ [missing] @}"]))
        return out, "failing-template"
    if r < 0.75 and out:
        i = rng.randrange(len(out))
        h = out[i][0]
        out.insert(0, (h + ".3", "x"))
        return out, "failing-index"
    out.append(("", "x"))
    return out, "failing-empty-header"


# ------------------------------------------------------------------ calling the implementation
def make_parser(ty):
    from rpft.parsers.common.cellparser import CellParser
    from rpft.parsers.common.rowparser import RowParser
    from rpft.parsers.creation.flowrowmodel import FlowRowModel

    if ty == "flow":
        return RowParser(FlowRowModel, CellParser())
    from c07 import _ty_from_json
    return RowParser(rowlib.py_type(_ty_from_json(ty)), CellParser())


def parse_one(parser, row, ctx_objs):
    cells = {h: x for h, x in row["cells"]}
    c = row["ctx"]
    if c == "default":
        args = ()
    elif c == "empty":
        args = ({},)
    elif c == "none":
        args = (None,)
    else:
        args = (ctx_objs[c[1]],)

    def go():
        if row.get("pre_include") and c != "none" and "include_if" in cells:
            # what SheetParser.parse_next_row does before it hands the row over
            included = parser.cell_parser.parse_as_string(cells["include_if"], args[0] if args else {})
            if str(included).strip().lower() == "false":
                return rowlib.natives(parser.parse_row({**cells, "include_if": "false"}, None))
        return rowlib.natives(parser.parse_row(cells, *args))
    return run_cli_mode(go)


def fresh_row(sheet, row):
    ty = sheet["ty2"] if row.get("other") else sheet["ty"]
    return parse_one(make_parser(ty), row, [cs.py_ctx(c) for c in sheet["ctxs"]])


def run_sheet(sheet):
    """the rows in order on the sheet's ONE RowParser (rows flagged `other` on a second parser for another model living
    beside it; rows flagged `fresh` on a RowParser + CellParser created for that row: same process, no instance history)"""
    pa = make_parser(sheet["ty"])
    pb = make_parser(sheet["ty2"]) if sheet.get("ty2") else None
    objs = [cs.py_ctx(c) for c in sheet["ctxs"]]
    out = []
    for row in sheet["rows"]:
        if row.get("fresh"):
            out.append(fresh_row(sheet, row))
        else:
            out.append(parse_one(pb if row.get("other") else pa, row, objs))
    return out


def isolated_prepare():
    import rpft.parsers.common.cellparser  # noqa: F401
    import rpft.parsers.common.rowparser  # noqa: F401
    import rpft.parsers.creation.flowrowmodel  # noqa: F401
    import c07  # noqa: F401


def isolated_row(item):
    """one row on new parsers in a process that has done nothing else"""
    return cs.outcome(fresh_row(item["sheet"], item["row"]))


def isolated_sheets(item):
    """several sheets one after the other in ONE process that has done nothing else -> the outcomes of the last one"""
    for sh in item["sheets"][:-1]:
        run_sheet(sh)
    return [cs.outcome(g) for g in run_sheet(item["sheets"][-1])]


# ------------------------------------------------------------------ generation
def _ctx_mode(rng, has_template):
    if has_template:
        return rng.choice(["default", "empty", "empty"])
    return rng.choice(["default", "empty", "empty", "none"])


def gen_generic_sheet(rng):
    import c09
    from c07 import _jsonable_ty, all_names

    rowlib.clear_cache()
    t = rowgen.gen_model(rng, rng.choice([1, 1, 2, 2]), "M", root=True)
    names = tuple(all_names(t))
    sheet = dict(ty=_jsonable_ty(t), ctxs=[], rows=[], values=[], show=c09._show_ty(t))
    group = lambda h: t[3].get(c09.top_field(h), c09.top_field(h))  # noqa: E731
    try:
        rowlib.py_type(t)
    except Exception:
        return None
    shared = None
    for vi in range(rng.choice([1, 2, 2, 3])):
        val = rowgen.gen_value(rng, t, good=True, names=names)
        try:
            rowlib.instance(t, val)
        except Exception:
            continue
        sheet["values"].append(val)
        vi = len(sheet["values"]) - 1
        lays = []
        for _ in range(10):
            try:
                lays.append(c09.encode_row(rng, t, val, lenient=0.3)[0])
            except c09.NoEncoding:
                continue
            if len(lays) == 3:
                break
        if not lays:
            continue
        rows = []
        for c in lays[:rng.choice([1, 2, 2, 3])]:
            rows.append(dict(cells=c, ctx=_ctx_mode(rng, False), k="layout", val=vi))
        for _ in range(rng.choice([1, 1, 2, 3])):
            nat = nativise(rng, t, val, rng.choice(lays), group)
            if nat:
                rows.append(dict(cells=nat[0], ctx=_ctx_mode(rng, True), k="layout-with-native-cell", val=vi, native=nat[1]))
        if rng.random() < 0.5:
            tm = templatise(rng, rng.choice(lays), sheet["ctxs"])
            if tm:
                rows.append(dict(cells=tm[0], ctx=tm[1], k="layout-with-template-cell", val=vi))
        if rng.random() < 0.3:
            # a template-free layout under a non-empty context object shared with other rows
            if shared is None:
                sheet["ctxs"].append({"unused": "u;v", "n": 3})
                shared = ["ref", len(sheet["ctxs"]) - 1]
            rows.append(dict(cells=rng.choice(lays), ctx=shared, k="layout-under-context", val=vi))
        if rng.random() < 0.45:
            bad, kind = spoil(rng, rng.choice(lays))
            rows.append(dict(cells=bad, ctx=_ctx_mode(rng, True), k=kind, val=None))
        sheet["rows"] += rows
    if not sheet["rows"]:
        return None
    rng.shuffle(sheet["rows"])
    # rows of another model on a second parser, between the rows of the sheet
    if rng.random() < 0.35:
        t2 = ("model", "Other", [("name", rowlib.STR, ""), ("numbers", rowlib.ULIST, []), ("tags", ("list", rowlib.STR), [])], {}, {})
        sheet["ty2"] = _jsonable_ty(t2)
        for _ in range(rng.choice([1, 2])):
            cells = rng.choice([[("name", "n"), ("numbers", "{@ [1, 2, 3] @}"), ("tags", "a;b")],
                                [("tags", "p|q"), ("numbers", "{@ range(2) @}")],
                                [("numbers", "1;2"), ("name", "{@ 'x' @}")]])
            sheet["rows"].insert(rng.randint(0, len(sheet["rows"])), dict(cells=cells, ctx="empty", k="row-of-another-model", val=None, other=True))
    for r in sheet["rows"]:
        r["cells"] = [list(c) for c in r["cells"]]
    return sheet


FLOW_NATIVE_FIELDS = ["include_if", "mainarg_iterlist", "choices", "attachments", "loop_variable", "template_arguments", "ui_position",
                      "save_name", "image", "node_name", "obj_name"]


def gen_flow_sheet(rng, desc, cx):
    import c09
    from c07 import gen_flow_row

    sheet = dict(ty="flow", ctxs=[], rows=[], values=[], show="FlowRowModel")
    fg = c09.flow_group(cx)
    for vi in range(rng.choice([1, 2, 2, 3])):
        val = gen_flow_row(rng, desc, cx, good=True)
        iter_types = [rt for rt, f in cx["sw_table"].items() if f == "mainarg_iterlist"]
        if iter_types and rng.random() < 0.25:
            # a value that only a native cell can give: the begin_for row that loops over range(n)
            defaults = {n: d for (n, _, d) in desc[2]}
            for f in set(cx["sw_table"].values()):
                if f in defaults:
                    val[f] = defaults[f]
                elif "." in f and f.split(".")[0] in defaults:
                    val[f.split(".")[0]] = defaults[f.split(".")[0]]
            val["type"] = rng.choice(iter_types)
            val["mainarg_iterlist"] = list(range(rng.choice([1, 2, 3, 5])))
        main = cx["sw_table"][val["type"]]
        lays = []
        has_int_list = any(isinstance(x, int) for x in val.get("mainarg_iterlist", []))
        for _ in range(10):
            if has_int_list:
                break
            try:
                lays.append(c09.encode_flow(rng, desc, cx, val, lenient=0.3)[0])
            except c09.NoEncoding:
                continue
            if len(lays) == 3:
                break
        sheet["values"].append(val)
        vi = len(sheet["values"]) - 1

        def group(h):
            g = fg(h)
            return main if g == "<main>" else g
        rows = []
        if has_int_list:
            # the begin_for row over range(n): short header or long header, short or long edge headers, any column order
            val2 = dict(val)
            val2["mainarg_iterlist"] = []
            base = None
            for _ in range(10):
                try:
                    base = c09.encode_flow(rng, desc, cx, val2)[0]
                    break
                except c09.NoEncoding:
                    continue
            if base is None:
                sheet["values"].pop()
                continue
            n = len(val["mainarg_iterlist"])
            for _ in range(rng.choice([2, 3])):
                cells = [c for c in base if group(c[0]) != "mainarg_iterlist"]
                h = rng.choice([cx["sw_header"], "mainarg_iterlist"])
                cells.insert(rng.randint(0, len(cells)), (h, rng.choice(["{@ range(%d) @}" % n, "{@range(%d)@}" % n, "{@ " + repr(list(range(n))) + " @}"])))
                if rng.random() < 0.6:
                    cells = c09.permute(rng, cells, group)
                rows.append(dict(cells=cells, ctx=_ctx_mode(rng, True), k="layout-with-native-cell", val=vi, native=["mainarg_iterlist"]))
        else:
            if not lays:
                sheet["values"].pop()
                continue
            for c in lays[:rng.choice([1, 2, 2, 3])]:
                rows.append(dict(cells=c, ctx=_ctx_mode(rng, False), k="layout", val=vi))
            sub = ("model", "F", [f for f in desc[2] if f[0] in FLOW_NATIVE_FIELDS and (f[0] != "mainarg_iterlist" or main == f[0])], desc[3], desc[4])
            for _ in range(rng.choice([1, 2, 2])):
                nat = nativise(rng, sub, val, rng.choice(lays), group)
                if nat:
                    rows.append(dict(cells=nat[0], ctx=_ctx_mode(rng, True), k="layout-with-native-cell", val=vi, native=nat[1],
                                     # (an excluded row is parsed WITHOUT templating, by design: only included rows are pre-evaluated)
                                     pre_include=(val["include_if"] is True and ("include_if" in nat[1] or rng.random() < 0.3))))
            if rng.random() < 0.4:
                tm = templatise(rng, rng.choice(lays), sheet["ctxs"])
                if tm and not any(h == cx["sw_column"] and "{" in x for h, x in tm[0]):
                    rows.append(dict(cells=tm[0], ctx=tm[1], k="layout-with-template-cell", val=vi))
            if rng.random() < 0.4:
                bad, kind = spoil(rng, rng.choice(lays))
                rows.append(dict(cells=bad, ctx=_ctx_mode(rng, True), k=kind, val=None))
        sheet["rows"] += rows
    if not sheet["rows"]:
        return None
    rng.shuffle(sheet["rows"])
    for r in sheet["rows"]:
        r["cells"] = [list(c) for c in r["cells"]]
    return sheet


# ------------------------------------------------------------------ judging
def show_row(sheet, row):
    c = row["ctx"]
    cstr = {"default": "", "empty": ", {}", "none": ", None"}.get(c) if isinstance(c, str) else ", " + json.dumps(sheet["ctxs"][c[1]], ensure_ascii=False)
    pre = "include_if pre-evaluated; " if row.get("pre_include") else ""
    return f"{'other.' if row.get('other') else ''}parse_row({pre}{dict((h, x) for h, x in row['cells'])!r}{cstr})"


def judge(sheet, iso, m=None, disagree=None, stats=None):
    from c07 import _deep_eq

    rows = sheet["rows"]
    got = run_sheet(sheet)
    fresh = [fresh_row(sheet, r) for r in rows]
    pristine = None
    if iso:
        lean_sheet = {k: sheet[k] for k in ("ty", "ty2", "ctxs") if k in sheet}
        try:
            pristine = iso.ask("c09_history", "isolated_row", [dict(sheet=lean_sheet, row=r) for r in rows])
        except Exception:       # the isolation server is an aid; without it (H) compares with in-process fresh parsers
            pristine = None
    fails = []
    for i, r in enumerate(rows):
        g, f = cs.outcome(got[i]), cs.outcome(fresh[i])
        p = pristine[i] if pristine and isinstance(pristine[i], list) else None   # None: no reference (child died)
        if g != f:
            fails.append(dict(at=[i], key=K_ROW_HISTORY,
                              what=f"row {i} {show_row(sheet, r)} parsed by the sheet's RowParser gives {g}, by a fresh RowParser {f}"))
        elif p is not None and g != p:
            fails.append(dict(at=[i], key=K_ROW_PROCESS,
                              what=f"row {i} {show_row(sheet, r)} gives {g} within the sheet, {p} in a process that has done nothing else"))
    # (P) the layouts of one value
    by_val = {}
    for i, r in enumerate(rows):
        if r.get("val") is not None:
            by_val.setdefault(r["val"], []).append(i)
    for vi, idx in by_val.items():
        ref = idx[0]
        for j in idx[1:]:
            a, b = got[ref], got[j]
            same = a[0] == "ok" and b[0] == "ok" and _deep_eq(a[1], b[1])
            if not same:
                fresh_same = fresh[ref][0] == "ok" and fresh[j][0] == "ok" and _deep_eq(fresh[ref][1], fresh[j][1])
                fails.append(dict(at=[ref, j], key=K_LAYOUT_HISTORY, also_fresh=not fresh_same,
                                  what=f"two layouts of one value parse differently within one sheet: row {ref} {show_row(sheet, rows[ref])} -> {a}; "
                                       f"row {j} {show_row(sheet, rows[j])} -> {b}"))
                break
        if sheet["values"][vi] is not None:
            for j in idx:
                if got[j][0] == "ok" and not _deep_eq(got[j][1], sheet["values"][vi]):
                    if stats is not None:
                        stats["layout_parses_to_another_value"][rows[j]["k"]] = stats["layout_parses_to_another_value"].get(rows[j]["k"], 0) + 1
                    fails.append(dict(at=[j], key=K_NOT_VALUE, value=sheet["values"][vi],
                                      what=f"a layout does not parse to the value it encodes: value={sheet['values'][vi]!r} row {j} {show_row(sheet, rows[j])} -> {got[j]}"))
                    break
    if m is not None:
        model_sheet(sheet, got, m, disagree, stats)
    return fails


def model_sheet(sheet, got, m, disagree, stats):
    """the template-free rows of each of the two parsers through rp_run, compared row by row"""
    from c07 import _deep_eq, _ty_from_json, norm_res

    for other in (False, True):
        idx = [i for i, r in enumerate(sheet["rows"]) if bool(r.get("other")) == other and not r.get("pre_include")
               and not any("{" in x for _, x in r["cells"])]
        if not idx:
            continue
        ty = sheet.get("ty2") if other else sheet["ty"]
        body = "(" + " ".join(rowlib.e_cells([tuple(c) for c in sheet["rows"][i]["cells"]]) for i in idx) + ")"
        if ty == "flow":
            req = f"(109 5 {body})"
        else:
            req = f"(109 4 {rowlib.e_rowmodel(_ty_from_json(ty))} {body})"
        out = parse_sexp(m.ask(req))
        if out == [999998] or len(out) != len(idx):
            disagree("sheet: the model rejected the wire input", sheet.get("show"), "BADINPUT", "")
            continue
        for i, o in zip(idx, out):
            mp = norm_res(o, rowlib.d_value)
            im = got[i]
            if mp[0] == "err" and mp[1] == rowlib.ERR_UNSUPPORTED:
                stats["model_unsupported"] += 1
                continue
            stats["model_compared"] += 1
            case = dict(model=sheet.get("show"), row=i, cells=sheet["rows"][i]["cells"],
                        rows_before=[show_row(sheet, r) for r in sheet["rows"][:i]][-4:])
            if mp[0] == "bad":
                disagree("sheet row: model could not decode the request", case, mp, im)
            elif (mp[0] == "ok") != (im[0] == "ok"):
                disagree("sheet row ok/error: model state machine vs the sheet's RowParser", case, mp, im)
            elif mp[0] == "ok" and not _deep_eq(mp[1], im[1]):
                disagree("sheet row instance: model state machine vs the sheet's RowParser", case, mp[1], im[1])


def lean(sheet, rows=None):
    """what a replay needs of a sheet"""
    out = {k: sheet[k] for k in ("ty", "ty2", "show", "ctxs") if k in sheet}
    out["rows"] = [{k: r[k] for k in ("cells", "ctx", "k", "other", "fresh", "pre_include", "native") if k in r}
                   for r in (sheet["rows"] if rows is None else rows)]
    return out


class Clean:
    """judgements that do not depend on what THIS process has done: sheets are run one after the other in one forked
    pristine process, each row alone in another (cached)"""

    def __init__(self, iso):
        self.iso = iso
        self.cache = {}

    def single(self, sheet, row):
        c = row.get("ctx")
        r2 = {k: row[k] for k in ("cells", "ctx", "other", "pre_include") if k in row}
        sh = {k: sheet[k] for k in ("ty", "ty2") if k in sheet}
        sh["ctxs"] = []
        if isinstance(c, list):
            r2["ctx"] = ["ref", 0]
            sh["ctxs"] = [sheet["ctxs"][c[1]]]
        item = dict(sheet=sh, row=r2)
        key = json.dumps(item, sort_keys=True)
        if key not in self.cache:
            self.cache[key] = self.iso.ask("c09_history", "isolated_row", [item])[0]
        return self.cache[key]

    def fails(self, sheets, at):
        """at = [i]: row i of the last sheet differs from the row alone; at = [a, b]: the two rows (layouts of one value)
        are equal alone and differ within the history.  -> description or None"""
        outs = self.iso.ask("c09_history", "isolated_sheets", [dict(sheets=sheets)])[0]
        last = sheets[-1]
        if not isinstance(outs, list) or len(outs) != len(last["rows"]):
            return None
        if len(at) == 1:
            i = at[0]
            one = self.single(last, last["rows"][i])
            if outs[i] != one:
                return f"row {i} {show_row(last, last['rows'][i])} gives {outs[i]} after the rows before it, {one} as the only row of a process"
            return None
        a, b = at
        oa, ob = self.single(last, last["rows"][a]), self.single(last, last["rows"][b])
        alone_same = oa[0] == "ok" and oa == ob
        here_same = outs[a][0] == "ok" and outs[a] == outs[b]
        if alone_same and not here_same:
            return (f"two layouts of one value parse alike alone and differently within the sheet: row {a} {show_row(last, last['rows'][a])} -> {outs[a]}; "
                    f"row {b} {show_row(last, last['rows'][b])} -> {outs[b]}")
        return None

    def reproduce(self, prior, sheet, at):
        """-> (sheets, at, key, what) or None"""
        head = lean(sheet, sheet["rows"][:max(at) + 1])
        hist, k = None, 0
        while True:
            cand = [lean(p) for p in prior[len(prior) - k:]] + [head] if k else [head]
            if self.fails(cand, at):
                hist = cand
                break
            if k >= len(prior):
                return None
            k = min(len(prior), max(1, 2 * k))
        # whole earlier sheets, oldest first
        i = 0
        while i < len(hist) - 1:
            trial = hist[:i] + hist[i + 1:]
            if self.fails(trial, at):
                hist = trial
            else:
                i += 1
        # rows
        at = list(at)
        for si in range(len(hist)):
            j = 0
            while j < len(hist[si]["rows"]):
                is_last = si == len(hist) - 1
                if is_last and j in at:
                    j += 1
                    continue
                sh = dict(hist[si], rows=hist[si]["rows"][:j] + hist[si]["rows"][j + 1:])
                at2 = [x - 1 if (is_last and x > j) else x for x in at]
                trial = hist[:si] + [sh] + hist[si + 1:]
                if self.fails(trial, at2):
                    hist, at = trial, at2
                else:
                    j += 1
        hist = [h for h in hist[:-1] if h["rows"]] + [hist[-1]]
        # columns (not of layout pairs: a row with a column less is no longer a layout of the same value)
        if len(at) == 1:
            for si in range(len(hist)):
                for ri in range(len(hist[si]["rows"])):
                    j = 0
                    while len(hist[si]["rows"][ri]["cells"]) > 1 and j < len(hist[si]["rows"][ri]["cells"]):
                        row = hist[si]["rows"][ri]
                        r2 = dict(row, cells=row["cells"][:j] + row["cells"][j + 1:])
                        sh = dict(hist[si], rows=hist[si]["rows"][:ri] + [r2] + hist[si]["rows"][ri + 1:])
                        trial = hist[:si] + [sh] + hist[si + 1:]
                        if self.fails(trial, at):
                            hist = trial
                        else:
                            j += 1
        what = self.fails(hist, at)
        key = K_ROW_HISTORY if len(at) == 1 else K_LAYOUT_HISTORY
        if len(at) == 1:
            # instance state or state outside the instances?  the same row on parsers created after the history
            last = hist[-1]
            r2 = dict(last["rows"][at[0]], fresh=True)
            probe = hist[:-1] + [dict(last, rows=last["rows"][:at[0]] + [r2] + last["rows"][at[0] + 1:])]
            pw = self.fails(probe, at)
            if pw:
                hist, key, what = probe, K_ROW_PROCESS, pw + " (the row is parsed by a NEW RowParser and CellParser: the state is not in the instances)"
        return hist, at, key, what


# ------------------------------------------------------------------ the stream
def run_sheets(ctx, nontrivial):
    import isolate
    from c07 import flow_desc

    import time
    t0 = time.time()
    v, rng, m = ctx.v, ctx.rng, ctx.model
    thorough = ctx.tier == "thorough"
    n_sheets = (1500 if thorough else 110) * ctx.scale
    st = {"sheets": 0, "flow_sheets": 0, "rows": 0, "rows_per_sheet": {}, "kinds": {}, "contexts": {}, "native_fields": {},
          "rows_with_a_packed_cell_after_a_native_cell": 0, "rows_after_a_native_row": 0, "rows_after_a_failing_row": 0,
          "include_if_pre_evaluations": 0, "values_with_several_layouts_in_one_sheet": 0,
          "layout_parses_to_another_value": {}, "model_compared": 0, "model_unsupported": 0, "failures": 0}
    desc, (cx, _refusal) = flow_desc(), safe_flow_tables()
    iso = None
    try:
        iso = isolate.Isolated()
    except Exception as e:
        st["isolation"] = f"unavailable: {type(e).__name__}"
    samples = []
    clean = Clean(iso) if iso else None
    attempts = {}
    prior = []           # the sheets this process has already parsed, oldest first
    try:
        for n in range(n_sheets):
            flow = rng.random() < 0.4
            sheet = gen_flow_sheet(rng, desc, cx) if flow else gen_generic_sheet(rng)
            if sheet is None:
                continue
            rows = sheet["rows"]
            st["sheets"] += 1
            st["flow_sheets"] += flow
            st["rows"] += len(rows)
            st["rows_per_sheet"][len(rows)] = st["rows_per_sheet"].get(len(rows), 0) + 1
            seen_native = seen_fail = False
            vals = {}
            for r in rows:
                v.coverage["evaluations"] += 1
                st["kinds"][r["k"]] = st["kinds"].get(r["k"], 0) + 1
                cm = r["ctx"] if isinstance(r["ctx"], str) else "shared-object"
                st["contexts"][cm] = st["contexts"].get(cm, 0) + 1
                for f in r.get("native", []):
                    st["native_fields"][f] = st["native_fields"].get(f, 0) + 1
                st["rows_after_a_native_row"] += seen_native
                st["rows_after_a_failing_row"] += seen_fail
                st["include_if_pre_evaluations"] += bool(r.get("pre_include"))
                nat_seen = False
                for h, x in r["cells"]:
                    if "{@" in x:
                        nat_seen = True
                    elif nat_seen and ("|" in x or ";" in x) and "{" not in x:
                        st["rows_with_a_packed_cell_after_a_native_cell"] += 1
                        break
                if any("{@" in x for _, x in r["cells"]):
                    seen_native = True
                if r["k"].startswith("failing"):
                    seen_fail = True
                if r.get("val") is not None:
                    vals.setdefault(r["val"], set()).add(json.dumps(r["cells"], sort_keys=True))
            for vi, ls in vals.items():
                if len(ls) > 1:
                    st["values_with_several_layouts_in_one_sheet"] += 1
                    nontrivial.add(repr(sorted(ls)))
            fails = judge(sheet, iso, m, ctx.disagree, st)
            reported = set()
            for f in fails:
                st["failures"] += 1
                if f["key"] in reported:
                    continue
                reported.add(f["key"])
                if f["key"] == K_NOT_VALUE:
                    one = lean(sheet, [dict(rows[f["at"][0]])])
                    v.failing_input("flow-encoding-does-not-parse-to-value" if sheet["ty"] == "flow" else K_NOT_VALUE, f"model {sheet.get('show')}: {f['what']}",
                                    dict(fn="sheets", sheets=[one], at=[0], key=K_NOT_VALUE, value=f["value"]))
                    continue
                if f.get("also_fresh"):
                    # the two layouts differ on fresh parsers too: a layout dependence WITHIN the rows (no history needed)
                    pair = lean(sheet, [dict(rows[i]) for i in f["at"]])
                    v.failing_input("flow-layout-dependent-parse" if sheet["ty"] == "flow" else "layout-dependent-parse",
                                    f"model {sheet.get('show')}: {f['what']}", dict(fn="sheets", sheets=[pair], at=[0, 1], key=f["key"]))
                    continue
                if attempts.get(f["key"], 0) >= 3:
                    continue
                attempts[f["key"]] = attempts.get(f["key"], 0) + 1
                try:
                    rep = clean.reproduce(prior, sheet, f["at"]) if clean else None
                except Exception:
                    rep, clean = None, None
                if rep is None and clean:
                    st["failures_not_reproduced_in_a_clean_process"] = st.get("failures_not_reproduced_in_a_clean_process", 0) + 1
                    ctx.disagree("sheet: a failure seen in the harness process does not reproduce in a pristine process",
                                 dict(model=sheet.get("show"), rows=[show_row(sheet, r) for r in rows[:max(f["at"]) + 1]][-6:]), f["key"], f["what"])
                    continue
                if rep is None:
                    hist, at, key, what = [lean(sheet, rows[:max(f["at"]) + 1])], f["at"], f["key"], f["what"]
                else:
                    hist, at, key, what = rep
                v.failing_input(key, f"model {sheet.get('show')}: {what}", dict(fn="sheets", sheets=hist, at=at, key=key))
            prior.append(sheet)
            if len(samples) < 2 and len(rows) >= 3:
                samples.append(dict(sheet_model=sheet.get("show"), rows=[show_row(sheet, r) for r in rows[:6]]))
    finally:
        if iso:
            st["isolated_calls"] = iso.calls
            iso.close()
    st["wall_s"] = round(time.time() - t0, 1)
    ctx.stats["sheet_histories"] = st
    return samples


def replay_sheet(r):
    """reproduced iff, the sheets run one after the other in ONE pristine process, the row(s) `at` of the last one fail:
    a row differs from the same row as the only row of a process / two layouts of one value differ / a layout does not
    parse to its value"""
    import isolate
    from c07 import _deep_eq

    sheets = r["sheets"] if "sheets" in r else [r["sheet"]]
    at, key = r["at"], r.get("key")
    iso = isolate.Isolated()
    try:
        outs = iso.ask("c09_history", "isolated_sheets", [dict(sheets=sheets)])[0]
        last = sheets[-1]
        for si, sh in enumerate(sheets[:-1]):
            for row in sh["rows"]:
                print(f"  earlier sheet {si}: {show_row(sh, row)}")
        for i, (row, g) in enumerate(zip(last["rows"], outs)):
            print(f"  row {i}: {show_row(last, row)} -> {g}")
        clean = Clean(iso)
        if key == K_NOT_VALUE:
            got = fresh_row(last, last["rows"][at[0]])
            ok = got[0] == "ok" and _deep_eq(got[1], r["value"])
            if not ok:
                print(f"  FAILS: the layout parses to {got}, the value is {r['value']!r}")
            return ok
        if len(at) == 2 and key == K_LAYOUT_HISTORY:
            same = outs[at[0]][0] == "ok" and outs[at[0]] == outs[at[1]]
            if not same:
                print(f"  FAILS: rows {at} are layouts of one value and parse differently")
            return same
        what = clean.fails(sheets, at)
        if what:
            print("  FAILS:", what)
        return what is None
    finally:
        iso.close()
