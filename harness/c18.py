"""C18 — a model inferred from headers reads data like the explicit model it denotes.

(a) correspondence: Row/Infer.v (extracted) <-> model_inference.model_from_headers_rec on
    generated header lists (schemas of the theorem's family rendered to annotated headers,
    plus a malformed stream), unit functions (get_field_name, parse_header_annotations,
    type_from_string, int()/float() grammars), and the theorem's own vocabulary
    (headers_of / denote / wf_schema) against independent Python renderings;
(b) the property's oracles on the implementation:
    infer_headers        structure of model_from_headers(headers_of S) == denote S
    inferred_parses_same row.dict() under the inferred model == under a hand-built explicit
                         pydantic model, through the real RowParser/CellParser (and, on a
                         sub-sample, through ContentIndexParser with and without data_model)
    content_independent  same headers, different cell contents -> same inferred structure
    header order         stable leaf/dotted partition of the header list -> same model
"""
import csv
import io
import os
import shutil
import sys
import tempfile
import types
import warnings

from common import enc_str, parse_sexp, dec_str, run_cli_mode, ERR

LEVEL = "proof"
ENG = 118

BASIC = ("str", "int", "float", "bool", "list", "List")


# ======================================================================== canonical forms
class OutOfUniverse(Exception):
    pass


def canon_type(t, seen_default=None):
    """implementation type -> canonical tuple; raises OutOfUniverse"""
    from typing import List
    from rpft.parsers.common.rowparser import ParserModel
    for name, o in (("str", str), ("int", int), ("float", float), ("bool", bool), ("list", list)):
        if t is o:
            return name
    if t is List:
        return "List"
    if getattr(t, "__origin__", None) is list and type(t).__module__ == "typing":
        args = getattr(t, "__args__", ())
        if len(args) != 1:
            raise OutOfUniverse(repr(t))
        return ("L", canon_type(args[0]))
    if isinstance(t, type) and issubclass(t, ParserModel) and t is not ParserModel:
        fields = []
        for n, f in t.__fields__.items():
            if f.required:
                raise OutOfUniverse(f"required field {n}")
            fields.append((n, canon_type(f.outer_type_), canon_default(f.default)))
        return ("R", fields)
    raise OutOfUniverse(repr(t))


def canon_default(v):
    from rpft.parsers.common.rowparser import ParserModel
    if v is None:
        return ("none",)
    if isinstance(v, bool):
        return ("b", v)
    if isinstance(v, int):
        return ("i", v)
    if isinstance(v, float):
        return ("f", repr(v))
    if isinstance(v, str):
        return ("s", v)
    if isinstance(v, list):
        return ("l", [canon_default(x) for x in v])
    if isinstance(v, ParserModel):
        return ("r", [(n, canon_default(getattr(v, n))) for n in type(v).__fields__])
    raise OutOfUniverse(repr(v))


def dec_dv(x):
    k = x[0]
    if k == 0:
        return ("none",)
    if k == 1:
        return ("s", dec_str(x[1]))
    if k == 2:
        return ("i", dec_z(x[1]))
    if k == 3:
        return ("f", repr(float(dec_str(x[1]))))
    if k == 4:
        return ("b", x[1] == 1)
    if k == 5:
        return ("l", [dec_dv(y) for y in x[1]])
    return ("r", [(dec_str(f[0]), dec_dv(f[1])) for f in x[1]])


def dec_z(x):
    n = int(dec_str(x[1]))
    return -n if x[0] == 1 else n


def dec_ty(x):
    k = x[0]
    if k <= 5:
        return BASIC[k]
    if k == 6:
        return ("L", dec_ty(x[1]))
    return ("R", [(dec_str(f[0]), dec_ty(f[1]), dec_dv(f[2])) for f in x[1]])


def dec_model_res(line):
    """'(0 (ty dv))' or '(999999 code)' -> ('ok', (ty, dv)) / ('err', code)"""
    if line.startswith(ERR):
        return ("err", parse_sexp(line)[1])
    x = parse_sexp(line)
    return ("ok", (dec_ty(x[1][0]), dec_dv(x[1][1])))


def impl_infer(headers, name="sheet"):
    """('ok', (ty, dv)) / ('err', kind) / ('oou', what) under CLI semantics.
    'oou' = the call met a type outside the universe of the mirror: in its result, or as the
    annotation of a column whose type model_from_headers_rec then discards (only the last entry
    of an index-spread list gives the element type).  The mirror says Err EUnknownType for every
    annotation it cannot name, so it cannot tell these cases from an error (Infer.v, header)."""
    from rpft.parsers.common import model_inference as mi
    met = []
    orig = mi.type_from_string

    def spy(string):
        t = orig(string)
        try:
            canon_type(t)
        except OutOfUniverse as e:
            met.append(str(e))
        return t

    mi.type_from_string = spy
    try:
        with warnings.catch_warnings():
            warnings.simplefilter("ignore")
            r = run_cli_mode(mi.model_from_headers_rec, name, list(headers))
    finally:
        mi.type_from_string = orig
    if r[0] != "ok":
        return ("err", r[1])
    if met:
        return ("oou", met[0])
    try:
        return ("ok", (canon_type(r[1][0]), canon_default(r[1][1])))
    except OutOfUniverse as e:
        return ("oou", str(e))


def sort_ty(t):
    """canonical type with the fields of every class sorted by name ('up to field order')"""
    if isinstance(t, tuple) and t[0] == "R":
        return ("R", sorted([(n, sort_ty(u), sort_dv(d)) for n, u, d in t[1]], key=lambda f: f[0]))
    if isinstance(t, tuple) and t[0] == "L":
        return ("L", sort_ty(t[1]))
    return t


def sort_dv(d):
    if d is None:
        return None
    if d[0] == "r":
        return ("r", sorted([(n, sort_dv(x)) for n, x in d[1]], key=lambda f: f[0]))
    if d[0] == "l":
        return ("l", [sort_dv(x) for x in d[1]])
    return d


def sort_fields(res):
    """on an impl_infer result"""
    if res[0] == "ok":
        return ("ok", (sort_ty(res[1][0]), sort_dv(res[1][1])))
    return (res[0],)


# ======================================================================== schemas (abstract)
# sty  = ("leaf", pads(6 strings), leaf) | ("spread", [sty]) | ("rec", [(name, sty)])
# leaf = ("str", explicit, d|None) | ("int", d|None) | ("float", lit|None) | ("bool", b|None) | ("ann", ann)
# ann  = "str"|"int"|"float"|"bool"|"list"|"List"|("L", ann)
NOPADS = ("", "", "", "", "", "")


def py_render_ann(a):
    return a if isinstance(a, str) else "List[" + py_render_ann(a[1]) + "]"


def py_render_leaf(p, name, lf):
    k = lf[0]
    ttxt = dtxt = None
    if k == "str":
        ttxt = "str" if lf[1] else None
        dtxt = lf[2]
    elif k == "int":
        ttxt, dtxt = "int", (None if lf[1] is None else str(lf[1]))
    elif k == "float":
        ttxt, dtxt = "float", lf[1]
    elif k == "bool":
        ttxt, dtxt = "bool", (None if lf[1] is None else ("True" if lf[1] else "False"))
    else:
        ttxt = py_render_ann(lf[1])
    h = p[0] + name + p[1]
    if ttxt is not None:
        h += ":" + p[2] + ttxt + p[3]
    if dtxt is not None:
        h += "=" + p[4] + dtxt + p[5]
    return h


def py_headers_of_field(name, s):
    if s[0] == "leaf":
        return [py_render_leaf(s[1], name, s[2])]
    if s[0] == "spread":
        subs = []
        for i, e in enumerate(s[1]):
            subs += py_headers_of_field(str(i + 1), e)
    else:
        subs = []
        for n, e in s[1]:
            subs += py_headers_of_field(n, e)
    return [name + "." + h for h in subs]


def py_headers_of(schema):
    out = []
    for n, s in schema:
        out += py_headers_of_field(n, s)
    return out


def py_ann_ty(a):
    return a if isinstance(a, str) else ("L", py_ann_ty(a[1]))


def py_denote_leaf(lf):
    k = lf[0]
    if k == "str":
        return ("str", ("s", lf[2] if lf[2] is not None else ""))
    if k == "int":
        return ("int", ("i", lf[1] if lf[1] is not None else 0))
    if k == "float":
        return ("float", ("f", repr(float(lf[1])) if lf[1] is not None else "0.0"))
    if k == "bool":
        return ("bool", ("b", bool(lf[1]) if lf[1] is not None else False))
    a = lf[1]
    z = {"str": ("s", ""), "int": ("i", 0), "float": ("f", "0.0"), "bool": ("b", False)}
    return (py_ann_ty(a), z.get(a, ("l", [])) if isinstance(a, str) else ("l", []))


def py_denote_sty(s):
    """the explicit model the schema denotes, written from the property text: fields, types,
    defaults; classes list plain-column fields first, then dotted ones (an observation about
    the implementation that the design note records as part of the 'up to')"""
    if s[0] == "leaf":
        return py_denote_leaf(s[2])
    if s[0] == "spread":
        ms = [py_denote_sty(e) for e in s[1]]
        return (("L", ms[-1][0]), ("l", [m[1] for m in ms]))
    fields = [(n, e[0] == "leaf", py_denote_sty(e)) for n, e in s[1]]
    ordered = [f for f in fields if f[1]] + [f for f in fields if not f[1]]
    return (("R", [(n, m[0], m[1]) for n, _, m in ordered]), ("r", [(n, m[1]) for n, _, m in ordered]))


def py_denote(schema):
    return py_denote_sty(("rec", schema))


# ---- encoding for the model
def enc_opt(f, v):
    return "()" if v is None else "(" + f(v) + ")"


def enc_z(z):
    return f"({1 if z < 0 else 0} {enc_str(str(abs(z)))})"


def enc_ann(a):
    return str(BASIC.index(a)) if isinstance(a, str) else "(6 " + enc_ann(a[1]) + ")"


def enc_leaf(lf):
    k = lf[0]
    if k == "str":
        return f"(0 {1 if lf[1] else 0} {enc_opt(enc_str, lf[2])})"
    if k == "int":
        return f"(1 {enc_opt(enc_z, lf[1])})"
    if k == "float":
        return f"(2 {enc_opt(enc_str, lf[1])})"
    if k == "bool":
        return f"(3 {enc_opt(lambda b: '1' if b else '0', lf[1])})"
    return f"(4 {enc_ann(lf[1])})"


def enc_sty(s):
    if s[0] == "leaf":
        return "(0 (" + " ".join(enc_str(x) for x in s[1]) + ") " + enc_leaf(s[2]) + ")"
    if s[0] == "spread":
        return "(1 (" + " ".join(enc_sty(e) for e in s[1]) + "))"
    return "(2 " + enc_fields(s[1]) + ")"


def enc_fields(fs):
    return "(" + " ".join("(" + enc_str(n) + " " + enc_sty(e) + ")" for n, e in fs) + ")"


def enc_headers(hs):
    return "(" + " ".join(enc_str(h) for h in hs) + ")"


# ======================================================================== generators
NAMES = ["a", "b", "c", "f", "x", "y", "ID2", "id", "name", "my field", "Größe", "f1", "1a", "a-b", "a_b",
         "x y z", "é", "q2", "名", "A", "value", "t 1", "k+", "(p)", "a,b", "a;b", "1_", "0x1", "1e3", "-", "lst",
         "custom_field", "row", "2nd", "+", "tr ue", "int", "str", "List[int]", "9z"]
PADS = ["", "", "", "", " ", "  ", "\t", " ", "　 "]
STR_DEFAULTS = ["v", "hello world", "a=b", "1", "True", "", "é ü", "a;b|c", "-", "false", "x = y", "=", "[1]", "5",
                "V", "Hello World", "true", "É Ü", "01"]     # pairs that a normalised (lower / int) cache key would merge
STR_DEFAULTS_COLON = ["x:y", ":", "http://h/p", "a: b"]
DOT_STR_DEFAULTS = ["1.5", "a.b", "e.g.", ".", "www.example.org"]
FLOAT_DEFAULTS = ["2", "-3", "1e3", "1E-2", "inf", "-inf", "nan", "1_0", "+7", "0", "12e+2", "Infinity", "NaN"]
DOT_FLOAT_DEFAULTS = ["1.5", ".5", "5.", "-0.25", "1.5e3"]


def gen_pads(rng, heavy):
    if not heavy:
        return NOPADS
    p = [rng.choice(PADS) for _ in range(6)]
    if rng.random() < 0.8:
        p[0] = ""       # RowParser does not strip a nested leaf name: keep most rows readable
    return tuple(p)


def gen_ann(rng, d=0):
    """an annotation of list kind at d = 0"""
    if d < 3 and rng.random() < 0.35:
        return ("L", gen_ann(rng, d + 1))
    if d == 0:
        return rng.choice(["list", "List", ("L", "int"), ("L", "str")])
    return rng.choice(["str", "int", "float", "bool", "str", "int", "list", "List"])


def gen_leaf(rng, dots=False):
    """a leaf of the family; with dots=True the default contains the header separator"""
    k = rng.choice(["str", "str", "int", "float", "bool", "ann", "str"]) if not dots else rng.choice(["str", "float"])
    if k == "str":
        if dots:
            return ("str", rng.random() < 0.5, rng.choice(DOT_STR_DEFAULTS))
        r = rng.random()
        if r < 0.45:
            return ("str", rng.random() < 0.3, None)
        if r < 0.9:
            return ("str", rng.random() < 0.4, rng.choice(STR_DEFAULTS))
        return ("str", True, rng.choice(STR_DEFAULTS_COLON))
    if k == "int":
        return ("int", None if rng.random() < 0.4 else rng.choice([0, 1, 5, -1, -42, 10, 100, 2 ** 70, -10 ** 20, rng.randrange(-999, 9999)]))
    if k == "float":
        if dots:
            return ("float", rng.choice(DOT_FLOAT_DEFAULTS))
        return ("float", None if rng.random() < 0.4 else rng.choice(FLOAT_DEFAULTS))
    if k == "bool":
        return ("bool", rng.choice([None, True, False]))
    return ("ann", gen_ann(rng))


def gen_sty(rng, depth, heavy, dots=False):
    """depth = remaining nesting budget for dotted fields"""
    r = rng.random()
    if depth <= 0 or r < 0.5:
        return ("leaf", gen_pads(rng, heavy), gen_leaf(rng, dots and rng.random() < 0.7))
    if r < 0.75:
        return ("rec", gen_fields(rng, depth - 1, heavy, rng.choice([1, 2, 2, 3]), dots))
    n = rng.choice([1, 2, 2, 3, 4])
    if rng.random() < 0.5:
        # entries given by plain columns f.1 f.2 ...: same type (80 %) or any leaf types
        first = ("leaf", gen_pads(rng, heavy), gen_leaf(rng))
        es = [first]
        homog = rng.random() < 0.8
        for _ in range(n - 1):
            if homog:
                es.append(("leaf", gen_pads(rng, heavy), same_kind_leaf(rng, first[2])))
            else:
                es.append(("leaf", gen_pads(rng, heavy), gen_leaf(rng)))
        return ("spread", es)
    # entries given by dotted columns: records (same field list, 85 %) or nested spreads
    if rng.random() < 0.7:
        proto = gen_fields(rng, depth - 1, heavy, rng.choice([1, 2, 3]), dots)
        es = []
        for _ in range(n):
            if rng.random() < 0.85:
                es.append(("rec", [(nm, revary(rng, e, heavy)) for nm, e in proto]))
            else:
                es.append(("rec", gen_fields(rng, depth - 1, heavy, rng.choice([1, 2]), dots)))
        return ("spread", es)
    return ("spread", [("spread", [("leaf", gen_pads(rng, heavy), gen_leaf(rng)) for _ in range(rng.choice([1, 2, 3]))])
                       for _ in range(n)])


def same_kind_leaf(rng, lf):
    """same type, possibly another default"""
    k = lf[0]
    if k == "str":
        return ("str", rng.random() < 0.3, rng.choice(STR_DEFAULTS + [None]))
    if k == "int":
        return ("int", rng.choice([None, 3, -7, 12]))
    if k == "float":
        return ("float", rng.choice([None] + FLOAT_DEFAULTS))
    if k == "bool":
        return ("bool", rng.choice([None, True, False]))
    return lf


def revary(rng, s, heavy):
    if s[0] == "leaf":
        return ("leaf", gen_pads(rng, heavy), same_kind_leaf(rng, s[2]))
    if s[0] == "rec":
        return ("rec", [(n, revary(rng, e, heavy)) for n, e in s[1]])
    return ("spread", [revary(rng, e, heavy) for e in s[1]])


def gen_fields(rng, depth, heavy, n, dots=False):
    names = rng.sample(NAMES, n)
    return [(nm, gen_sty(rng, depth, heavy, dots)) for nm in names]


def gen_schema(rng, max_depth=3, dots=False):
    heavy = rng.random() < 0.4
    n = rng.choice([1, 2, 3, 3, 4, 5, 6])
    return gen_fields(rng, rng.choice([0, 1, 2, max_depth, max_depth]), heavy, n, dots)


def schema_depth(fs):
    def d(s):
        if s[0] == "leaf":
            return 0
        if s[0] == "rec":
            return 1 + max(d(e) for _, e in s[1])
        return 1 + max(d(e) for e in s[1])
    return max([d(e) for _, e in fs], default=0)


def schema_features(fs, feats):
    def walk(s):
        if s[0] == "leaf":
            lf = s[2]
            feats["leaf_" + lf[0]] = feats.get("leaf_" + lf[0], 0) + 1
            if lf[0] != "ann" and lf[-1] is not None:
                feats["with_default"] = feats.get("with_default", 0) + 1
            if any(s[1]):
                feats["padded_leaf"] = feats.get("padded_leaf", 0) + 1
        elif s[0] == "rec":
            feats["sub_record"] = feats.get("sub_record", 0) + 1
            for _, e in s[1]:
                walk(e)
        else:
            kind = "spread_of_" + s[1][0][0]
            feats[kind] = feats.get(kind, 0) + 1
            for e in s[1]:
                walk(e)
    for _, e in fs:
        walk(e)


def has_dot_default(fs):
    def w(s):
        if s[0] == "leaf":
            lf = s[2]
            return lf[0] in ("str", "float") and lf[-1] is not None and "." in lf[-1]
        if s[0] == "rec":
            return any(w(e) for _, e in s[1])
        return any(w(e) for e in s[1])
    return any(w(e) for _, e in fs)


def homogeneous(fs):
    """every index-spread list has entries of one *type*, the defaults embedded in the classes
    included (up to field order); the entries' own defaults may differ.  Only then is "the
    explicit model" unambiguous: the inferred List[T] takes T from the last entry."""
    def w(s):
        if s[0] == "leaf":
            return True
        if s[0] == "rec":
            return all(w(e) for _, e in s[1])
        ts = [sort_ty(py_denote_sty(e)[0]) for e in s[1]]
        return all(t == ts[0] for t in ts) and all(w(e) for e in s[1])
    return all(w(e) for _, e in fs)


def blank_defaults(t):
    if isinstance(t, tuple) and t[0] == "R":
        return ("R", [(n, blank_defaults(u), None) for n, u, _ in t[1]])
    if isinstance(t, tuple) and t[0] == "L":
        return ("L", blank_defaults(t[1]))
    return t


# ---- malformed header stream
M_NAMES = ["a", "b", "f", "x", "g h", "1", "2", "3", "0", "-1", "+1", " 1", "1 ", "01", "1_0", "1a", "", " a", "a ", "-2", "12"]
M_TYPES = ["int", "str", "float", "bool", "list", "List", "List[int]", "List[List[str]]", "foo", "Int", "strx", "List[",
           "List[]", "List[foo]", "int:str", "", " int ", "List[list]", "List[List]", "Listint]", "list[int]x", "intt",
           "List[int]]", "[int]", "List[str", "bool "]
M_DEFAULTS = ["5", "abc", "1_0", "+5", "-3", "1e3", "nan", "", " ", "False", "false", "FALSE", "0", "no", "x=y", "x:y",
              "5=6", "_1", "1_", "1__0", "--1", "inf", "1e", "e3", "True", " 7 ", "0x1f", "8"]


def gen_malformed_header(rng):
    segs = [rng.choice(M_NAMES) for _ in range(rng.choice([1, 1, 1, 2, 2, 3, 4]))]
    h = ".".join(segs)
    r = rng.random()
    if r < 0.55:
        h += rng.choice(["", " "]) + ":" + rng.choice(M_TYPES)
    if rng.random() < 0.4:
        h += rng.choice(["", " "]) + "=" + rng.choice(M_DEFAULTS)
    if rng.random() < 0.06:
        h += ":" + rng.choice(M_TYPES)            # double annotation
    if rng.random() < 0.04:
        h += "=" + rng.choice(M_DEFAULTS)
    return h


def gen_malformed(rng):
    n = rng.choice([1, 2, 2, 3, 4, 5, 6])
    hs = [gen_malformed_header(rng) for _ in range(n)]
    if rng.random() < 0.3 and hs:
        hs.append(rng.choice(hs))                 # duplicate column
    return hs


def mutate_valid_headers(rng, hs):
    """a valid header list with one local damage"""
    hs = list(hs)
    if not hs:
        return ["f.0"]
    i = rng.randrange(len(hs))
    k = rng.randrange(8)
    h = hs[i]
    if k == 0:
        hs[i] = h + ":" + rng.choice(M_TYPES)
    elif k == 1:
        hs[i] = h + "=" + rng.choice(M_DEFAULTS)
    elif k == 2:
        hs[i] = h.replace(".", ".0.", 1) if "." in h else h + ".0"
    elif k == 3:
        hs.append(h.split(".")[0] + ".x")          # f.x mixed with f.1 / plain f
    elif k == 4:
        hs.append(h.split(".")[0].split(":")[0].split("=")[0] + ".1")
    elif k == 5:
        hs[i] = h.replace(":", ": ", 1).replace("=", " = ", 1)
    elif k == 6:
        hs.insert(0, hs.pop(i))
    else:
        hs[i] = h.replace("int", "Int").replace("List", "list")
    return hs


# ======================================================================== rows and explicit models
def build_explicit(schema, counter=None, spread_default="faithful"):
    """hand-built pydantic model for the schema: fields in *schema order*, classes created
    with pydantic.v1.create_model on ParserModel — independent of model_inference"""
    from typing import List
    from pydantic.v1 import create_model
    from rpft.parsers.common.rowparser import ParserModel
    counter = counter if counter is not None else [0]
    basic = {"str": str, "int": int, "float": float, "bool": bool, "list": list, "List": List}

    def ann_t(a):
        return basic[a] if isinstance(a, str) else List[ann_t(a[1])]

    def sty_t(s):
        """(type, default)"""
        if s[0] == "leaf":
            lf = s[2]
            k = lf[0]
            if k == "str":
                return str, (lf[2] if lf[2] is not None else "")
            if k == "int":
                return int, (lf[1] if lf[1] is not None else 0)
            if k == "float":
                return float, (float(lf[1]) if lf[1] is not None else 0.0)
            if k == "bool":
                return bool, (bool(lf[1]) if lf[1] is not None else False)
            a = lf[1]
            if isinstance(a, str) and a not in ("list", "List"):
                return basic[a], basic[a]()
            return ann_t(a), []
        if s[0] == "rec":
            m = mk(s[1])
            return m, m()
        tds = [sty_t(e) for e in s[1]]
        return List[tds[-1][0]], ([d for _, d in tds] if spread_default == "faithful" else [])

    def mk(fields):
        counter[0] += 1
        kw = {n: sty_t(e) for n, e in fields}
        return create_model(f"Explicit{counter[0]}", __base__=ParserModel, **kw)

    return mk(schema)


CELL_STR = ["hello", "a b", "x|y", "p;q", "1", "", " padded ", "é", "true", "a\\;b", "q=1", "k:v", "[1, 2]", "a;b|c;d", "0"]


def gen_cell_for_ann(rng, a):
    if a == "str":
        return rng.choice(["u", "v w", "é", "z9"])
    if a == "int":
        return str(rng.choice([0, 1, -2, 33, 1000]))
    if a == "float":
        return rng.choice(["1.5", "2", "-0.25", "1e3"])
    if a == "bool":
        return rng.choice(["true", "false", "True", "FALSE", "yes"])
    if a in ("list", "List"):
        return rng.choice(["a;b", "a|b", "x", "", "1;2|3;4", "a;b|c"])
    inner = a[1]
    if isinstance(inner, str) and inner not in ("list", "List"):
        items = [gen_cell_for_ann(rng, inner) for _ in range(rng.choice([0, 1, 2, 3]))]
        sep = rng.choice("|;")
        return sep.join(items) if len(items) != 1 else rng.choice([items[0], items[0] + sep])
    # list of lists: rows by '|', items by ';' (deeper nesting cannot be written in a cell)
    leaf_t = inner
    while isinstance(leaf_t, tuple):
        leaf_t = leaf_t[1]
    if leaf_t in ("list", "List"):
        leaf_t = "str"
    rows = [";".join(gen_cell_for_ann(rng, leaf_t) for _ in range(rng.choice([1, 2, 3]))) for _ in range(rng.choice([1, 2, 3]))]
    return "|".join(rows) + ("|" if len(rows) == 1 else "")


def gen_cell(rng, lf):
    k = lf[0]
    if k == "str":
        return rng.choice(CELL_STR)
    if k == "int":
        return rng.choice(["0", "7", "-12", " 42 ", "1000000"])
    if k == "float":
        return rng.choice(["1.5", "2", "-0.25", " 3.0", "1e3"])
    if k == "bool":
        return rng.choice(["true", "false", "True", "FALSE", "", "  ", "yes", "0"])
    return gen_cell_for_ann(rng, lf[1])


def leaves_in_header_order(schema):
    out = []

    def w(s):
        if s[0] == "leaf":
            out.append(s[2])
        elif s[0] == "rec":
            for _, e in s[1]:
                w(e)
        else:
            for e in s[1]:
                w(e)
    for _, e in schema:
        w(e)
    return out


def gen_row(rng, schema, headers):
    return {h: gen_cell(rng, lf) for h, lf in zip(headers, leaves_in_header_order(schema))}


def parse_row_with(model, row):
    from rpft.parsers.common.rowparser import RowParser
    from rpft.parsers.common.cellparser import CellParser
    r = run_cli_mode(lambda: RowParser(model, CellParser()).parse_row(dict(row)).dict())
    return r if r[0] == "ok" else ("err", r[1])


def infer_impl_model(headers):
    from rpft.parsers.common.model_inference import model_from_headers
    with warnings.catch_warnings():
        warnings.simplefilter("ignore")
        return model_from_headers("sheet", list(headers))


def nan_safe(x):
    if isinstance(x, float):
        return repr(x)
    if isinstance(x, dict):
        return {k: nan_safe(v) for k, v in x.items()}
    if isinstance(x, list):
        return [nan_safe(v) for v in x]
    return x


def parses_same(schema, headers, rows, counts=None):
    """the oracle of clause 2 on the implementation.  Returns (ok, detail)"""
    inferred = infer_impl_model(headers)
    explicit = build_explicit(schema)
    for row in rows:
        a = parse_row_with(inferred, row)
        b = parse_row_with(explicit, row)
        if a[0] != b[0] or (a[0] == "ok" and nan_safe(a[1]) != nan_safe(b[1])) or (a[0] == "err" and a[1] != b[1]):
            return False, dict(row=row, inferred=repr(a), explicit=repr(b))
        if counts is not None:
            counts["rows_ok" if a[0] == "ok" else "rows_error_under_both"] += 1
            if a[0] == "err":
                counts["row_error_kinds"][a[1]] = counts["row_error_kinds"].get(a[1], 0) + 1
    return True, None


# ---- through the content index (the real fallback of _get_new_data_sheet)
def write_csv(path, headers, rows):
    with open(path, "w", encoding="utf-8", newline="") as f:
        w = csv.writer(f)
        w.writerow(headers)
        for r in rows:
            w.writerow([r[h] for h in headers])


def through_content_index(schema, headers, rowsets, module_name="c18_user_models"):
    """headers gets an ID column in front.  Returns for every row set the pair
    (canonical row_model structure, rows as dicts) without data_model, and the rows with an
    explicit data_model."""
    from rpft.parsers.creation.contentindexparser import ContentIndexParser
    from rpft.parsers.sheets import CSVSheetReader
    out = []
    explicit = build_explicit([("ID", ("leaf", NOPADS, ("str", False, None)))] + schema)
    mod = types.ModuleType(module_name)
    mod.MyModel = explicit
    sys.modules[module_name] = mod
    try:
        for rows in rowsets:
            d = tempfile.mkdtemp(prefix="c18ci")
            try:
                hs = ["ID"] + list(headers)
                full = [dict(r, ID=f"row{i}") for i, r in enumerate(rows)]
                write_csv(os.path.join(d, "mydata.csv"), hs, full)
                with open(os.path.join(d, "content_index.csv"), "w", encoding="utf-8", newline="") as f:
                    w = csv.writer(f)
                    w.writerow(["type", "sheet_name", "data_model"])
                    w.writerow(["data_sheet", "mydata", ""])
                def go(mn):
                    with warnings.catch_warnings():
                        warnings.simplefilter("ignore")
                        cip = ContentIndexParser(CSVSheetReader(d), mn)
                    ds = cip.data_sheets["mydata"]
                    return ds.row_model, [nan_safe(r.dict()) for r in ds.rows.values()]
                r1 = run_cli_mode(go, None)
                with open(os.path.join(d, "content_index.csv"), "w", encoding="utf-8", newline="") as f:
                    w = csv.writer(f)
                    w.writerow(["type", "sheet_name", "data_model"])
                    w.writerow(["data_sheet", "mydata", "MyModel"])
                r2 = run_cli_mode(go, module_name)
                out.append((r1, r2))
            finally:
                shutil.rmtree(d, ignore_errors=True)
    finally:
        sys.modules.pop(module_name, None)
    return out


# ======================================================================== the oracles, reusable by replay
def oracle_infer_headers(schema):
    """structure of model_from_headers(headers_of S) == denote S.  (ok, detail)"""
    hs = py_headers_of(schema)
    got = impl_infer(hs)
    want = py_denote(schema)
    if got[0] != "ok" or got[1] != want:
        return False, dict(headers=hs, inferred=repr(got), denoted=repr(want))
    return True, None


def probe_by_field_name():
    """does this tree look for the header separator in the field name only (True: the repaired
    model_from_headers_rec) or in the whole header, annotations included (False)?  Probed on the
    implementation, independently of the translator's probe (the two are compared in run)."""
    from rpft.parsers.common import model_inference as mi
    r = run_cli_mode(lambda: list(mi.model_from_headers_rec("probe", ["x=a.b"])[0].__fields__.keys()))
    return r[0] == "ok" and r[1] == ["x"]


def is_nested(h, by_name):
    from rpft.parsers.common.rowparser import get_field_name
    return "." in (get_field_name(h) if by_name else h)


def stable_partition(hs, by_name=False):
    return [h for h in hs if not is_nested(h, by_name)] + [h for h in hs if is_nested(h, by_name)]


def oracle_content_independent(schema, headers, rowsets):
    """(ok, detail): every row set that can be read at all gives the row model that the
    headers alone give (the header-only sheet is always readable); and the rows read the same
    with and without an explicit data_model"""
    res = through_content_index(schema, headers, rowsets)
    want = impl_infer(["ID"] + list(headers))
    seen = 0
    for (r1, r2) in res:
        if r1[0] != r2[0] or (r1[0] == "ok" and r1[1][1] != r2[1][1]) or (r1[0] != "ok" and r1[1] != r2[1]):
            return False, dict(kind="row-parses-differently", headers=headers, without_data_model=repr(r1), with_data_model=repr(r2))
        if r1[0] != "ok":
            continue
        seen += 1
        try:
            c = canon_type(r1[1][0])
        except OutOfUniverse as e:
            return False, dict(kind="content-dependent", headers=headers, error=str(e))
        if want[0] != "ok" or c != want[1][0]:
            return False, dict(kind="content-dependent", headers=headers, row_model=repr(c), from_headers=repr(want))
    if seen == 0:
        return False, dict(kind="content-dependent", headers=headers, error="no row set readable, not even the empty one: " + repr(res[-1][0]))
    return True, None


# ======================================================================== run
def run(ctx):
    from rpft.parsers.common import model_inference as mi
    from rpft.parsers.common.rowparser import ParserModel, get_field_name

    v, rng, m = ctx.v, ctx.rng, ctx.model
    thorough = ctx.tier == "thorough"
    stats = ctx.stats
    feats = {}
    nontrivial = set()

    for n in NAMES + M_NAMES:
        s = n.strip()
        assert not s.startswith("_") and not (s and hasattr(ParserModel, s)), f"name pool: {n!r} is special to pydantic"

    def ask(fn, arg):
        return m.ask(f"({ENG} {fn} {arg})")

    seen_keys = {}

    def report(key, summary, rep):
        """v.failing_input, after checking (first two per class, not for known findings) that the single-case replay fails in
        a NEW interpreter: when it does not, the failure needs what this process did before (a cache on a class or a module)
        and the summary says so; the history streams (c18_hist) then give a replay that carries the history"""
        seen_keys[key] = seen_keys.get(key, 0) + 1
        if seen_keys[key] <= 2 and not any(k.get("key") == key for k in v.known):
            import c18_hist
            if not c18_hist.reproduces_in_fresh_process(rep):
                summary = ("[this single case holds in a fresh interpreter: the failure depends on what the process did before; "
                           "see the history-dependent-* violations for a replay with the history] " + summary)
        return v.failing_input(key, summary, rep)

    # which of the two mirrored behaviours does this tree have?  (the regenerated constant
    # inf_nested_by_field_name of the model vs an independent probe of the implementation)
    by_name = probe_by_field_name()
    stats["nested_by_field_name"] = by_name
    if m:
        mflag = parse_sexp(ask(12, "0")) == 1
        if mflag != by_name:
            ctx.disagree("inf_nested_by_field_name (translator probe) vs harness probe", "x=a.b", mflag, by_name)

    # -------------------------------------------------- 1. schemas of the family
    n_schemas = (30000 if thorough else 800) * ctx.scale
    dist = dict(valid=0, dot_default=0, depth={}, headers=0, rows=0, rows_ok=0, rows_error_under_both=0,
                row_error_kinds={}, ci_runs=0, model_says_wf=0, homogeneous=0, bare_List_no_rows=0)
    samples = []
    for it in range(n_schemas):
        dots = rng.random() < 0.04
        deep = 3 if rng.random() < 0.9 or not thorough else 5
        schema = gen_schema(rng, deep, dots)
        hs = py_headers_of(schema)
        dotted = has_dot_default(schema)
        dp = schema_depth(schema)
        dist["depth"][dp] = dist["depth"].get(dp, 0) + 1
        dist["headers"] += len(hs)
        v.coverage["evaluations"] += 1
        if dp >= 1 or any(e[2][0] != "str" or e[2][2] is not None for _, e in schema if e[0] == "leaf"):
            nontrivial.add(repr(hs))
        if len(samples) < 4 and it % 97 == 5:
            samples.append(hs)

        if dotted:
            # full-strength reading of "f=v carries a default": v may contain a period
            # (C18_dot_default_decided: holds on a tree that looks for the header separator in the
            # field name only, refuted on a tree that looks in the whole header)
            dist["dot_default"] += 1
            ok, det = oracle_infer_headers(schema)
            if not ok:
                report("default-contains-dot",
                                f"headers {det['headers']!r}: inferred {det['inferred']} but the schema denotes {det['denoted']}",
                                dict(fn="infer_headers", schema=schema))
            if m:
                if parse_sexp(ask(8, enc_fields(schema))) == 1:
                    ctx.disagree("wf_schema accepts a default containing the header separator", repr(hs), 1, 0)
                if parse_sexp(ask(14, enc_fields(schema))) != 1:
                    ctx.disagree("generator produced a dot-default schema outside wf_schema_full", repr(hs), 0, 1)
            if not by_name:
                if m:
                    mo = dec_model_res(ask(1, enc_headers(hs)))
                    io_ = impl_infer(hs)
                    compare_infer(ctx, hs, mo, io_)
                continue
            # on a tree with the field-name behaviour these schemas are ordinary members of the family

        dist["valid"] += 1
        schema_features(schema, feats)
        hom = homogeneous(schema)
        dist["homogeneous"] += hom

        # (b) oracle infer_headers on the implementation
        if not dotted:
            ok, det = oracle_infer_headers(schema)
            if not ok:
                report("inferred-model-differs",
                                f"headers {det['headers']!r}: inferred {det['inferred']} but the schema denotes {det['denoted']}",
                                dict(fn="infer_headers", schema=schema))
        io_ = impl_infer(hs)

        # (a) correspondence: vocabulary of the theorem and the mirror itself
        if m:
            es = enc_fields(schema)
            mh = [dec_str(x) for x in parse_sexp(ask(5, es))]
            if mh != hs:
                ctx.disagree("headers_of (Coq) vs harness rendering", repr(schema), repr(mh), repr(hs))
            x = parse_sexp(ask(6, es))
            md = (dec_ty(x[0]), dec_dv(x[1]))
            if md != py_denote(schema):
                ctx.disagree("denote (Coq) vs harness denotation", repr(hs), repr(md), repr(py_denote(schema)))
            wf = parse_sexp(ask(14 if dotted else 8, es)) == 1
            dist["model_says_wf"] += wf
            if not wf:
                ctx.disagree("generator produced a schema outside wf_schema", repr(hs), 0, 1)
            mo = dec_model_res(ask(1, enc_headers(hs)))
            compare_infer(ctx, hs, mo, io_)

        # header order: the stable leaf/dotted partition gives the same model (theorem
        # infer_partition); any permutation gives the same model up to field order when
        # every index-spread list is homogeneous
        part = stable_partition(hs, by_name)
        if m and it % 7 == 0:
            mp = [dec_str(x) for x in parse_sexp(ask(13, enc_headers(hs)))]
            if mp != part:
                ctx.disagree("stable_partition (Coq) vs harness", repr(hs), repr(mp), repr(part))
        if part != hs:
            if impl_infer(part) != io_:
                report("partition-changes-model", f"{hs!r} vs {part!r}", dict(fn="partition", headers=hs))
            stats["partition_cases"] = stats.get("partition_cases", 0) + 1
        if hom and len(hs) > 1:
            perm = list(hs)
            rng.shuffle(perm)
            a = impl_infer(perm)
            if sort_fields(a) != sort_fields(io_):
                report("permutation-changes-model", f"{hs!r} vs {perm!r}", dict(fn="permutation", headers=hs, perm=perm))
            stats["permutation_cases"] = stats.get("permutation_cases", 0) + 1
            if m:
                mo2 = dec_model_res(ask(1, enc_headers(perm)))
                compare_infer(ctx, perm, mo2, a)

        # (b) oracle inferred_parses_same (needs entries of one type per spread list: that is
        # what "the explicit model it denotes" means for parsing)
        if hom and io_[0] == "ok":
            if any(bare_list(lf) for lf in leaves_in_header_order(schema)):
                dist["bare_List_no_rows"] += 1      # RowParser cannot read typing.List without argument
            else:
                rows = [gen_row(rng, schema, hs) for _ in range(3 if not thorough else 4)]
                dist["rows"] += len(rows)
                ok, det = parses_same(schema, hs, rows, dist)
                if not ok:
                    report("row-parses-differently",
                                    f"headers {hs!r} row {det['row']!r}: inferred {det['inferred']} explicit {det['explicit']}",
                                    dict(fn="parses_same", schema=schema, rows=[det["row"]]))
                # content independence + the real fallback, on a sub-sample
                if it % (12 if not thorough else 25) == 0 and csv_safe(hs):
                    dist["ci_runs"] += 1
                    rows2 = [gen_row(rng, schema, hs) for _ in range(2)]
                    ok, det = oracle_content_independent(schema, hs, [rows, rows2, []])
                    if not ok:
                        report(det["kind"], f"through the content index: {det}",
                                        dict(fn="content_independent", schema=schema, rowsets=[rows, rows2, []]))
    stats["schemas"] = dist
    stats["schema_features"] = feats

    # -------------------------------------------------- 2. malformed stream
    n_mal = (20000 if thorough else 1500) * ctx.scale
    md = dict(model_ok=0, model_err={}, impl_out_of_universe=0, mutated_valid=0, skipped_big=0)
    for it in range(n_mal):
        if rng.random() < 0.35:
            hs = mutate_valid_headers(rng, py_headers_of(gen_schema(rng, 2)))
            md["mutated_valid"] += 1
        else:
            hs = gen_malformed(rng)
        v.coverage["evaluations"] += 1
        io_ = impl_infer(hs)
        if io_[0] == "oou":
            md["impl_out_of_universe"] += 1
        if m:
            mo = dec_model_res(ask(1, enc_headers(hs)))
            if mo[0] == "ok":
                md["model_ok"] += 1
            else:
                md["model_err"][mo[1]] = md["model_err"].get(mo[1], 0) + 1
                nontrivial.add(repr(hs))
            compare_infer(ctx, hs, mo, io_)
        # content independence by construction on the implementation side too: the call takes
        # the header list only; repeat it and compare (no hidden state between calls)
        if it % 10 == 0 and impl_infer(hs) != io_:
            v.failing_input("inference-not-a-function-of-headers", repr(hs), dict(fn="repeat", headers=hs))
    stats["malformed"] = md

    # -------------------------------------------------- 3. unit functions
    n_unit = (20000 if thorough else 2500) * ctx.scale
    ud = dict(headers=0, int_strings=0, int_accepted=0, float_strings=0, float_accepted=0, type_strings=0)
    if m:
        # get_field_name / parse_header_annotations on single headers (no header separator needed)
        hs = [gen_malformed_header(rng) for _ in range(n_unit)] + \
             [h for _ in range(n_unit // 5) for h in py_headers_of(gen_schema(rng, 1))]
        outs = m.ask_many([f"({ENG} 3 {enc_str(h)})" for h in hs] + [f"({ENG} 2 {enc_str(h)})" for h in hs])
        for i, h in enumerate(hs):
            ud["headers"] += 1
            v.coverage["evaluations"] += 1
            mf = dec_str(parse_sexp(outs[i]))
            if mf != get_field_name(h):
                ctx.disagree("get_field_name", repr(h), repr(mf), repr(get_field_name(h)))
            mo = outs[len(hs) + i]
            r = run_cli_mode(mi.parse_header_annotations, h)
            if r[0] == "ok":
                try:
                    io_ = ("ok", (canon_type(r[1][0]), canon_default(r[1][1])))
                except OutOfUniverse:
                    io_ = ("oou",)
            else:
                io_ = ("err", r[1])
            compare_infer(ctx, h, dec_model_res(mo), io_, what="parse_header_annotations")
        # int() and float() grammars over an alphabet that covers every production
        al = "0123456789_+-.eEinfatyINFANT x"
        strs = []
        for _ in range(n_unit):
            n = rng.choice([1, 2, 2, 3, 3, 4, 5, 8])
            strs.append("".join(rng.choice(al[:14] if rng.random() < 0.6 else al) for _ in range(n)))
        strs += ["", " ", "inf", "-Infinity", "nan", "+nan", "infinit", "1e5", "1_0", "1__0", "3", " 12 ", "1.", ".1", ".", "1e-3", "1E+3", "0x10", "1_000_000"]
        outs = m.ask_many([f"({ENG} 7 {enc_str(s)})" for s in strs] + [f"({ENG} 9 {enc_str(s)})" for s in strs])
        for i, s in enumerate(strs):
            v.coverage["evaluations"] += 1
            ud["int_strings"] += 1
            try:
                want = int(s)
                ud["int_accepted"] += 1
            except ValueError:
                want = None
            x = parse_sexp(outs[i])
            got = None if not x else dec_z(x[0])
            if got != want:
                ctx.disagree("py_int vs int()", repr(s), repr(got), repr(want))
            ud["float_strings"] += 1
            try:
                float(s)
                fw = True
                ud["float_accepted"] += 1
            except ValueError:
                fw = False
            if (parse_sexp(outs[len(strs) + i]) == 1) != fw:
                ctx.disagree("is_float_lit vs float()", repr(s), outs[len(strs) + i], fw)
        # str(z) and the bool words
        zs = [rng.choice([1, -1]) * rng.randrange(0, 10 ** rng.choice([1, 2, 5, 12, 30])) for _ in range(300 * ctx.scale)] + [0, 9, 10, 99, 100, -10]
        outs = m.ask_many([f"({ENG} 10 {enc_z(z)})" for z in zs])
        for z, o in zip(zs, outs):
            v.coverage["evaluations"] += 1
            if dec_str(parse_sexp(o)) != str(z):
                ctx.disagree("str_of_Z vs str()", z, o, str(z))
        from rpft.parsers.common.rowparser import str_to_bool
        for w in ["false", "False", "FALSE", "fAlse", "true", "", "0", "no", "falsey", " false", "False "]:
            if (parse_sexp(ask(11, enc_str(w))) == 1) != bool(str_to_bool(w)):
                ctx.disagree("str_to_bool", repr(w), ask(11, enc_str(w)), str_to_bool(w))
        # type_from_string
        # (stripped strings only: infer_type always strips, and Python's expression syntax
        # would accept surrounding blanks that the mirror does not model)
        ts = [t for t in M_TYPES if t == t.strip()] + [py_render_ann(gen_ann(rng)) for _ in range(200)] \
            + ["str", "dict", "tuple", "object", "None", "Any"]
        for t in ts:
            ud["type_strings"] += 1
            v.coverage["evaluations"] += 1
            r = run_cli_mode(mi.type_from_string, t)
            if r[0] == "ok":
                try:
                    io_ = ("ok", canon_type(r[1]))
                except OutOfUniverse:
                    io_ = ("oou",)
            else:
                io_ = ("err", r[1])
            line = ask(4, enc_str(t))
            mo = ("err", 0) if line.startswith(ERR) else ("ok", dec_ty(parse_sexp(line)[1]))
            compare_infer(ctx, t, mo, io_, what="type_from_string")
    stats["unit"] = ud

    # -------------------------------------------------- 4. histories on long-lived objects (c18_hist.py)
    import c18_hist
    c18_hist.run_histories(ctx, by_name)
    c18_hist.run_call_sequences(ctx, by_name)

    v.coverage["distinct_nontrivial"] = len(nontrivial)
    v.coverage["rule"] = (
        "schemas of the theorem's family (fields str/int/float/bool with optional default, list, List, List[T] nested, "
        "index-spread lists of leaves / of records / of lists, dotted sub-records; generator depth <= 3 (thorough: <= 5); 40 % with "
        "whitespace padding around ':' and '=') rendered to headers: model infer vs model_from_headers_rec (types, field order, "
        "defaults, recursively), Coq headers_of/denote/wf_schema vs independent Python renderings, the three oracles on the "
        "implementation (infer_headers, inferred_parses_same through RowParser/CellParser and through ContentIndexParser, "
        "content independence), header permutations; 4 % of the schemas carry a default with a period (finding class); "
        "malformed stream (unknown type names, double annotations, f.x mixed with f.1, index 0/negative/padded/underscored, "
        "duplicates, bad defaults; 35 % single damages of valid header lists) compared on Ok/Err and on the full structure when Ok; "
        "unit level: get_field_name, parse_header_annotations, type_from_string, int()/float() acceptance and value, str(int). "
        "non-trivial = distinct header list with nesting or a typed/defaulted column, or on which the model reports an error")
    v.coverage["samples"] = samples[:4] + [gen_malformed(rng)]
    v.assumptions += [
        "pydantic field-name rules (leading underscore, names shadowing BaseModel attributes, '*') are not modelled; the name pools avoid them (asserted)",
        "int()/float() on non-ASCII decimal digits is not modelled; generators use ASCII digits",
        "Python expression syntax inside List[...] beyond NAME and nested List[...] (whitespace, parentheses, quotes) is not modelled",
        "VFloat carries the literal; the comparison evaluates it with the running interpreter's float()",
        "model class names (name.title()+field.title()) are outside the compared projection",
        "inferred_parses_same: the Coq statement quantifies over an arbitrary row parser; the clause is decided on the implementation only (row.dict() under the inferred model vs a hand-built pydantic model, through RowParser/CellParser and ContentIndexParser)",
        "type names with a module path (pydoc.locate imports modules: `builtins.int`, `typing.List`) can only be written on a tree that looks for the header separator in the field name; they are not modelled (Err EUnknownType in the mirror) and the generators do not produce them",
    ]


def bare_list(lf):
    def has(a):
        return a == "List" or (isinstance(a, tuple) and has(a[1]))
    return lf[0] == "ann" and has(lf[1])


def csv_safe(hs):
    return all("\n" not in h and "\r" not in h for h in hs)


def compare_infer(ctx, case, mo, io_, what="infer"):
    """model Ok m  <->  implementation returns a model of the universe with the same structure;
    model Err    <->  implementation raises, or returns something outside the universe."""
    if mo[0] == "ok":
        if io_[0] != "ok" or io_[1] != mo[1]:
            ctx.disagree(what, repr(case), repr(mo), repr(io_))
    else:
        if mo[1] == 9:
            ctx.disagree(what + " (model out of fuel)", repr(case), repr(mo), repr(io_))
        elif io_[0] == "ok":
            ctx.disagree(what, repr(case), repr(mo), repr(io_))


# ======================================================================== replay
def fix_schema(fs):
    def sty(s):
        if s[0] == "leaf":
            return ("leaf", tuple(s[1]), leaf(s[2]))
        if s[0] == "spread":
            return ("spread", [sty(e) for e in s[1]])
        return ("rec", [(n, sty(e)) for n, e in s[1]])

    def ann(a):
        return a if isinstance(a, str) else ("L", ann(a[1]))

    def leaf(lf):
        if lf[0] == "ann":
            return ("ann", ann(lf[1]))
        return tuple(lf)
    return [(n, sty(e)) for n, e in fs]


def replay(rep):
    r = rep["replay"]
    fn = r["fn"]
    if fn == "infer_headers":
        return oracle_infer_headers(fix_schema(r["schema"]))[0]
    if fn == "parses_same":
        sc = fix_schema(r["schema"])
        return parses_same(sc, py_headers_of(sc), r["rows"])[0]
    if fn == "content_independent":
        sc = fix_schema(r["schema"])
        return oracle_content_independent(sc, py_headers_of(sc), r["rowsets"])[0]
    if fn == "partition":
        return impl_infer(stable_partition(r["headers"], probe_by_field_name())) == impl_infer(r["headers"])
    if fn == "permutation":
        return sort_fields(impl_infer(r["headers"])) == sort_fields(impl_infer(r["perm"]))
    if fn == "history":
        import c18_hist
        return c18_hist.replay_history(r)
    if fn == "calls":
        import c18_hist
        return c18_hist.replay_calls(r)
    if fn == "repeat":
        return impl_infer(r["headers"]) == impl_infer(r["headers"])
    return True
