"""C14 — workbook format does not matter (CSV folder / XLSX / JSON from `convert`).

(a) correspondence: the Gallina model of Python's csv module (writer, reader, newline
    handling), of the tablib glue and of the toolkit's _sanitize / table<->dicts code is run
    (extracted OCaml) on the same generated inputs as the real libraries / the real readers,
    byte-for-byte;
(b) the property's own oracle on the implementation: the same abstract workbook written as
    a CSV folder (csv module), as XLSX (openpyxl, string cells) and as JSON (the real
    `convert`), read by the three real readers and compiled by the real create_flows,
    compared up to a bijective renaming of invented UUIDs.
"""
import csv
import io
import itertools
import json
import os
import re
import shutil
import subprocess
import sys
import tempfile

from common import enc_str, enc_list, parse_sexp, dec_str, run_cli_mode, impl_env, PY

LEVEL = "proof"

K_EMPTY_ROW = "all-empty row"
K_NO_ROWS = "sheet without rows"
K_GENERIC = "format-disagreement"

# ------------------------------------------------------------------ wire encodings


def enc_rows(rows):
    return enc_list([enc_list([enc_str(c) for c in r]) for r in rows])


def dec_rows(x):
    return [[dec_str(c) for c in r] for r in x]


def enc_table(h, rows):
    return "(" + enc_list([enc_str(c) for c in (h or [])]) + " " + enc_rows(rows) + ")"


def dec_res(s, f):
    """model result -> ('ok', value) | ('err', code)"""
    x = parse_sexp(s)
    if len(x) == 2 and x[0] == 999999:
        return ("err", x[1])
    if x and x[0] in (999998, 999997):
        return ("bad", x[0])
    return ("ok", f(x[1]))


def dec_table(x):
    return ([dec_str(c) for c in x[0]] or None, dec_rows(x[1]))


def dec_xtable(x):
    return ([(dec_str(c[0]) if c else None) for c in x[0]] or None, dec_rows(x[1]))


def enc_opt_str(c):
    return "()" if c is None else "(" + enc_str(c) + ")"


def enc_grid(g):
    return enc_list([enc_list([enc_opt_str(c) for c in r]) for r in g])


def enc_jsheet(content):
    if isinstance(content, dict):       # the object form {"headers": [...], "rows": [[...], ...]}
        return "(2 " + enc_list([enc_str(c) for c in content["headers"]]) + " " + enc_rows(content["rows"]) + ")"
    if content and isinstance(content[0], list):
        return "(1 " + enc_rows(content) + ")"
    return "(0 " + enc_list([enc_list(["(" + enc_str(k) + " " + enc_str(v) + ")" for k, v in d.items()]) for d in content]) + ")"


def dec_jsheet(s):
    x = parse_sexp(s)
    if x[0] == 2:
        return {"headers": [dec_str(c) for c in x[1]], "rows": dec_rows(x[2])}
    if x[0] == 1:
        return dec_rows(x[1])
    return [[(dec_str(k), dec_str(v)) for k, v in d] for d in x[1]]


def jsheet_view(content):
    """parsed JSON of one sheet, comparable with dec_jsheet"""
    if isinstance(content, dict):
        return {"headers": list(content.get("headers")), "rows": [list(r) for r in content.get("rows")]}
    return [list(d.items()) if isinstance(d, dict) else list(d) for d in content]


# ------------------------------------------------------------------ implementation side

def table_view(t):
    """what the property talks about: headers and cell values (raw Python values)"""
    return (list(t.headers) if t.headers else None, [list(t[i]) for i in range(t.height)])


def py_csv_write(rows):
    s = io.StringIO(newline="")
    w = csv.writer(s)
    for r in rows:
        w.writerow(r)
    return s.getvalue()


def py_csv_read(text, newline=""):
    try:
        return ("ok", [list(r) for r in csv.reader(io.StringIO(text, newline=newline))])
    except csv.Error as e:
        return ("err", 1 if "field limit" in str(e) else 2)


XL_ILLEGAL = re.compile(r"[\000-\010]|[\013-\014]|[\016-\037]")


def write_csv_folder(wb, d):
    os.makedirs(d, exist_ok=True)
    for name, (h, rows) in wb.items():
        with open(os.path.join(d, name + ".csv"), "w", newline="", encoding="utf-8") as f:
            f.write(py_csv_write([h] + rows))


def write_xlsx(wb, path, stray=None, sparse=False):
    """stray: {sheet: (row_index, extra_columns)} -- explicit empty string cells to the right of
    the table (a column without header): the same content, but openpyxl then reports a wider
    grid whose last headers are None.
    sparse: a cell without text is not written at all (what a spreadsheet application saves for a cell nobody touched;
    a row without content is then absent from the file) instead of as an empty string cell"""
    import openpyxl

    b = openpyxl.Workbook()
    for s in list(b.worksheets):
        b.remove(s)
    for name, (h, rows) in wb.items():
        ws = b.create_sheet(title=name)
        for i, r in enumerate([h] + rows):
            for j, val in enumerate(r):
                if sparse and val == "" and i > 0:
                    continue
                c = ws.cell(row=i + 1, column=j + 1)
                c.value = val
                c.data_type = "s"      # a string cell, whatever the text looks like
        if stray and name in stray:
            i, extra = stray[name]
            for j in range(len(h), len(h) + extra):
                c = ws.cell(row=min(i, len(rows)) + 1, column=j + 1)
                c.value = ""
                c.data_type = "s"
    b.save(path)


def load_grid(path):
    """the cell values exactly as tablib's XLSX import obtains them from openpyxl"""
    from openpyxl.reader.excel import load_workbook

    with open(path, "rb") as f:
        book = load_workbook(io.BytesIO(f.read()), read_only=True, data_only=True)
    return {ws.title: [[c.value for c in row] for row in ws.rows] for ws in book.worksheets}


def unl(s):
    return s.replace("\r\n", "\n").replace("\r", "\n")


def convert_format_book(wb):
    """the workbook itself in `convert`'s file format, written without going through a reader (a file converted
    earlier, or by another tool): a sheet is the list of its rows as objects keyed by the headers — the form every
    version of `convert` writes for a sheet with rows; a sheet WITHOUT rows cannot be written that way with its
    headers (that is finding "sheet without rows") and is written as `convert` itself writes it"""
    from rpft import converters
    from rpft.parsers import sheets
    import tablib

    class Held(sheets.AbstractSheetReader):
        def __init__(self, sh):
            self._sheets = sh

    out = {}
    for name, (h, rows) in wb.items():
        # (a file `convert` wrote never holds a CR: the CSV and XLSX readers it reads from newline-normalise)
        h, rows = [unl(c) for c in h], [[unl(c) for c in r] for r in rows]
        if rows:
            out[name] = [dict(zip(h, r)) for r in rows]
        else:
            ds = tablib.Dataset()
            ds.headers = list(h)
            one = json.loads(converters.to_json(Held({name: sheets.Sheet(reader=None, name=name, table=ds)})))
            out[name] = one["sheets"][name]
    return {"meta": {"version": "0.1.0"}, "sheets": out}


def read_all_formats(wb, scratch, stray=None, reuse=None, sparse=False):
    """Write wb in the three formats, read with the three real readers.
    Returns dict fmt -> ('ok', {name: (headers, rows)}) | ('err', kind, msg), plus details.
    reuse: a directory an earlier call wrote (its "dir"): the files are overwritten in place, the paths stay the same.
    sparse: see write_xlsx"""
    from rpft import converters
    from rpft.parsers import sheets

    d = reuse or tempfile.mkdtemp(prefix="wb", dir=scratch)
    csv_dir = os.path.join(d, "csv")
    write_csv_folder(wb, csv_dir)
    xlsx = os.path.join(d, "wb.xlsx")
    write_xlsx(wb, xlsx, stray, sparse)
    out = {}
    det = {"dir": d, "csv_dir": csv_dir, "xlsx": xlsx}

    def views(reader):
        return {name: table_view(sh.table) for name, sh in reader.sheets.items()}

    out["csv"] = run_cli_mode(lambda: views(sheets.CSVSheetReader(csv_dir)))
    out["xlsx"] = run_cli_mode(lambda: views(sheets.XLSXSheetReader(xlsx)))
    for src, fmt, key in ((csv_dir, "csv", "json"), (xlsx, "xlsx", "json_from_xlsx")):
        p = os.path.join(d, key + ".json")
        r = run_cli_mode(converters.convert_to_json, src, fmt)
        if r[0] == "ok":
            with open(p, "wb") as f:           # as cli.convert_to_json writes it
                f.write(bytes(r[1], "utf-8"))
            det[key] = p
            det[key + "_text"] = r[1]
            out[key] = run_cli_mode(lambda: views(sheets.JSONSheetReader(p)))
        else:
            out[key] = r
    # the workbook held in convert's format (not produced from one of the two files above)
    r = run_cli_mode(convert_format_book, wb)
    if r[0] == "ok":
        p = os.path.join(d, "json_direct.json")
        with open(p, "wb") as f:
            f.write(bytes(json.dumps(r[1], ensure_ascii=False, indent=2), "utf-8"))
        det["json_direct"] = p
        det["json_direct_book"] = r[1]
        out["json_direct"] = run_cli_mode(lambda: views(sheets.JSONSheetReader(p)))
    else:
        out["json_direct"] = r
    return out, det


def formats_oracle(res):
    """the property, on reader outputs: all four reads succeed and are identical"""
    if any(r[0] != "ok" for r in res.values()):
        # all failing the same way is not agreement on sheets either, but it is not a
        # *difference between formats*: judged equal iff every format fails
        return all(r[0] != "ok" for r in res.values())
    ref = res["csv"][1]
    return all(r[1] == ref for r in res.values())


UUID_RE = re.compile(r"^[0-9a-f]{8}-[0-9a-f]{4}-[0-9a-f]{4}-[0-9a-f]{4}-[0-9a-f]{12}$")


def canon_uuids(obj):
    """rename uuid-shaped strings to #0,#1,.. in order of first occurrence (fixed traversal)"""
    names = {}

    def go(x):
        if isinstance(x, dict):
            return {go(k): go(v) for k, v in x.items()}
        if isinstance(x, list):
            return [go(v) for v in x]
        if isinstance(x, str) and UUID_RE.match(x):
            return names.setdefault(x, f"#{len(names)}")
        return x

    return go(obj)


def compile_all_formats(det):
    from rpft import converters

    out = {}
    for key, fmt, p in (("csv", "csv", det["csv_dir"]), ("xlsx", "xlsx", det["xlsx"]),
                        ("json", "json", det.get("json")), ("json_from_xlsx", "json", det.get("json_from_xlsx")),
                        ("json_direct", "json", det.get("json_direct"))):
        if p is None:
            out[key] = ("err", "convert-failed", "")
            continue
        r = run_cli_mode(converters.create_flows, [p], None, fmt)
        out[key] = ("ok", canon_uuids(r[1])) if r[0] == "ok" else ("err", r[1], r[2])
    return out


def compile_oracle(res):
    if any(r[0] != "ok" for r in res.values()):
        kinds = {(r[0], r[1] if r[0] != "ok" else "") for r in res.values()}
        return len(kinds) == 1          # every format fails, and with the same kind
    ref = res["csv"][1]
    return all(r[1] == ref for r in res.values())


def correspond_workbook(ctx, m, wb, res, det, stray=None):
    """model readers vs real readers, per sheet, on the files read_all_formats wrote (m: the extracted model)"""
    grid = load_grid(det["xlsx"])
    for name, (h, rows) in wb.items():
        text = open(os.path.join(det["csv_dir"], name + ".csv"), "rb").read().decode("utf-8")
        mo = dec_res(m.ask(f"(114 11 {enc_str(text)})"), dec_table)
        im = ("ok", res["csv"][1][name]) if res["csv"][0] == "ok" else ("err",)
        if (mo if mo[0] == "ok" else ("err",)) != im:
            ctx.disagree("CSVSheetReader sheet", repr((name, h, rows)), repr(mo), repr(res["csv"]))
        # library hypothesis (section hypothesis xl_roundtrip): what openpyxl hands back
        g = grid.get(name)
        extra = stray[name][1] if stray and name in stray else 0
        want = [[(unl(c) if c != "" else None) for c in r] + [None] * extra for r in [h] + rows]
        if g != want:
            ctx.disagree("openpyxl string-cell round trip (section hypothesis)", repr((name, h, rows)), repr(want), repr(g))
        if g is not None and all(c is None or isinstance(c, str) for r in g for c in r):
            mx = dec_res(m.ask(f"(114 6 {enc_grid(g)})"), dec_xtable)
            ix = ("ok", res["xlsx"][1][name]) if res["xlsx"][0] == "ok" else ("err",)
            if (mx if mx[0] == "ok" else ("err",)) != ix:
                ctx.disagree("XLSXSheetReader sheet", repr((name, h, rows)), repr(mx), repr(res["xlsx"]))
        # to_json: the JSON text parsed back must be to_dicts of the table the CSV reader produced
        if res["csv"][0] == "ok" and "json_text" in det:
            ch_, cr_ = res["csv"][1][name]
            parsed = json.loads(det["json_text"])  # section hypothesis json_roundtrip: checked below
            content = parsed["sheets"][name]
            mj = dec_jsheet(m.ask(f"(114 12 {enc_table(ch_, cr_)})"))
            ij = jsheet_view(content)
            if mj != ij:
                ctx.disagree("convert (to_json) sheet", repr((name, h, rows)), repr(mj), repr(ij))
            if res["json"][0] == "ok":
                mf = dec_res(m.ask(f"(114 13 {enc_jsheet(content)})"), dec_table)
                if mf != ("ok", res["json"][1][name]):
                    ctx.disagree("JSONSheetReader sheet", repr((name, h, rows)), repr(mf), repr(res["json"][1][name]))
        if res["json_direct"][0] == "ok" and "json_direct_book" in det:
            content = det["json_direct_book"]["sheets"][name]
            mf = dec_res(m.ask(f"(114 13 {enc_jsheet(content)})"), dec_table)
            if mf != ("ok", res["json_direct"][1][name]):
                ctx.disagree("JSONSheetReader sheet (workbook held in convert's format)", repr((name, h, rows)), repr(mf),
                             repr(res["json_direct"][1][name]))


# ------------------------------------------------------------------ workbook classes

def has_empty_row(wb):
    return any(any(not any(r) for r in rows) for (_, rows) in wb.values())


def has_no_rows(wb):
    return any(not rows for (_, rows) in wb.values())


def without_empty_rows(wb, fill):
    """the all-empty rows replaced by filled ones (fill=True), or removed when that leaves at
    least one row (fill=False)"""
    out = {}
    for n, (h, rows) in wb.items():
        if fill:
            out[n] = (h, [r if any(r) else ["x"] * len(h) for r in rows])
        else:
            kept = [r for r in rows if any(r)]
            out[n] = (h, kept if kept or not rows else [["x"] * len(h)])
    return out


def deleted_empty_rows(wb):
    return {n: (h, [r for r in rows if any(r)]) for n, (h, rows) in wb.items()}


def classify(wb, oracle_on, outcome_of=None):
    """A failing workbook: which input class explains the failure?  Neutralise the feature and
    re-run the oracle; the key is the (first) feature whose removal makes it pass.
    outcome_of(wb) = everything the formats returned: when DELETING the rows of empty cells changes nothing in it,
    those rows are not what the formats disagree about (they are omitted everywhere) and the analysis goes on with
    the workbook without them."""
    if has_empty_row(wb):
        bare = deleted_empty_rows(wb)
        if outcome_of is not None and outcome_of(bare) == outcome_of(wb):
            wb = bare
        else:
            for fill in (False, True):
                if oracle_on(without_empty_rows(wb, fill)):
                    return K_EMPTY_ROW
            wb = without_empty_rows(wb, False)
    if has_no_rows(wb):
        for filler in ("x", None):
            w3 = {}
            for n, (h, rows) in wb.items():
                w3[n] = (h, rows if rows else [[(filler or f"r{j}") for j in range(len(h))]])
            if oracle_on(w3):
                return K_NO_ROWS
    return K_GENERIC


# ------------------------------------------------------------------ generators

CELL_POOL = ["", "", "", "a", "b c", " lead", "trail ", "a,b", 'say "hi"', '"', '""', ",", "line1\nline2", "\n",
             "x|y;z", "back\\slash", "\\;", "é", "世界", "😀 ok", "'q'", "=1+2", "123", "1.50", "TRUE", "2020-01-01",
             "\t", "_x000D_", "a, \"b\"\nc", "- item", "@x", "#N/A", " ", "0", "None", "null", "{}", "[1]"]
CELL_ALPHA = list("ab ,\"\n|;\\'é世=1.") + ["😀", "\t"]
HEADER_POOL = ["a", "b", "c", "ID", "row_id", "type", "message_text", "h é", "x.y", "list:1", "a,b", 'q"t', "col 1",
               "世", "with|sep", "semi;colon", "N", "0", "tags.1", "=f", " sp", "line\nbreak",
               "id", "A", "sp", "a ", "n", "Type", "é", "e"]
NAME_POOL = ["content_index", "flow a", "données", "s1", "data-sheet", "T", "x.y", "世界", "sheet_2", "A B C", "n0", "q'q"]


def rand_cell(rng, cr=False):
    x = rng.random()
    if x < 0.45:
        c = rng.choice(CELL_POOL)
    else:
        n = rng.choice([1, 2, 3, 5, 8, 20])
        c = "".join(rng.choice(CELL_ALPHA) for _ in range(n))
    if cr and rng.random() < 0.4:
        k = rng.randrange(len(c) + 1)
        c = c[:k] + rng.choice(["\r", "\r\n", "\r\r", "\n\r"]) + c[k:]
    return c


def rand_table(rng, cr=False, empty_rows=False, no_rows=False):
    w = rng.choice([1, 1, 2, 3, 4, 6])
    h = rng.sample(HEADER_POOL, w)
    n = 0 if no_rows else rng.choice([1, 1, 2, 3, 5, 9])
    rows = []
    for _ in range(n):
        r = [rand_cell(rng, cr) for _ in range(w)]
        if not any(r):
            r[rng.randrange(w)] = "z"
        rows.append(r)
    if empty_rows and rows:
        for _ in range(rng.choice([1, 1, 2])):
            rows.insert(rng.randrange(len(rows) + 1), [""] * w)
    elif empty_rows:
        rows.append([""] * w)
    return (h, rows)


def rand_workbook(rng, cls):
    """cls: 'domain' (the theorem's domain), 'cr' (cells with CR: correspondence + mutual agreement),
    'empty_row', 'no_rows'"""
    k = rng.choice([1, 1, 2, 3, 4])
    names = rng.sample(NAME_POOL, k)
    wb = {}
    special = rng.randrange(k)
    for i, n in enumerate(names):
        wb[n] = rand_table(rng, cr=(cls == "cr"), empty_rows=(cls == "empty_row" and i == special),
                           no_rows=(cls == "no_rows" and i == special))
    return wb


# ---- small valid rpft workbooks ---------------------------------------------------

TEXT_ALPHA = list("abc ,\"\n'é世.!?-") + ["😀", "\\|", "\\;", "\\\\", " "]


def rand_text(rng):
    n = rng.choice([1, 3, 6, 12])
    t = "".join(rng.choice(TEXT_ALPHA) for _ in range(n)).strip()
    return t or "hi"


def rand_rpft_workbook(rng, feature=None):
    """content_index + plain flow + (template flow x data sheet rows).  feature: None |
    'empty_row_flow' | 'empty_row_index' | 'no_rows_data' | 'no_rows_flow'"""
    ci_h = ["type", "sheet_name", "data_sheet", "data_row_id", "new_name", "data_model", "status"]
    ci = []
    wb = {}
    # plain flow
    fh = ["row_id", "type", "from", "condition", "message_text", "choices", "save_name"]
    rows = []
    n = rng.choice([1, 2, 3, 4])
    for i in range(n):
        rows.append([str(i + 1), "send_message", "start" if i == 0 else str(i), "", rand_text(rng),
                     (rand_text(rng).replace("\n", " ") + "|" + rand_text(rng).replace("\n", " ")) if rng.random() < 0.3 else "", ""])
    if rng.random() < 0.5:
        rows.append([str(n + 1), "wait_for_response", str(n), "", "", "", "answer"])
        cond = rng.choice(["yes", "a,b", "ok \"x\"", "é"])
        rows.append([str(n + 2), "send_message", str(n + 1), cond, rand_text(rng), "", ""])
        rows.append([str(n + 3), "send_message", str(n + 1), "", rand_text(rng), "", ""])
    wb["plain flow"] = (fh, rows)
    ci.append(["create_flow", "plain flow", "", "", "", "", ""])
    if rng.random() < 0.7 or feature == "no_rows_data":
        th = ["row_id", "type", "from", "message_text"]
        wb["tpl"] = (th, [["", "send_message", "start", "{{v1}} " + rand_text(rng)],
                          ["", "send_message", "", rand_text(rng) + " {{v2}}"]])
        k = rng.choice([1, 2, 3])
        drows = [[f"r{i}", rand_text(rng), rand_text(rng)] for i in range(k)]
        if feature == "no_rows_data":
            drows = []
        wb["d1"] = (["ID", "v1", "v2"], drows)
        ci.append(["data_sheet", "d1", "", "", "", "", ""])
        if drows and rng.random() < 0.5:
            ci.append(["create_flow", "tpl", "d1", "r0", "one " + rand_text(rng).replace("\n", " "), "", ""])
        else:
            ci.append(["create_flow", "tpl", "d1", "", "", "", ""])
    if feature == "empty_row_flow":
        h, r = wb["plain flow"]
        r = list(r)
        r.insert(rng.randrange(1, len(r) + 1), [""] * len(h))
        wb["plain flow"] = (h, r)
    if feature == "empty_row_index":
        ci.insert(rng.randrange(len(ci) + 1), [""] * len(ci_h))
    if feature == "no_rows_flow":
        wb["plain flow"] = (fh, [])
    out = {"content_index": (ci_h, ci)}
    out.update(wb)
    return out


# ------------------------------------------------------------------ the check

def run(ctx):
    v = ctx.v
    rng = ctx.rng
    m = ctx.model
    thorough = ctx.tier == "thorough"
    scratch = tempfile.mkdtemp(prefix="c14_")
    try:
        _run(ctx, v, rng, m, thorough, scratch)
    finally:
        shutil.rmtree(scratch, ignore_errors=True)


def _run(ctx, v, rng, m, thorough, scratch):
    from rpft.parsers import sheets
    import tablib

    nontrivial = set()
    stats = ctx.stats

    # ============================================================ (a1) csv codec: reader on arbitrary text
    alpha = [",", '"', "\r", "\n", "a", " "]
    maxlen = 7 if thorough else 6
    if ctx.scale > 1:
        maxlen = 7
    texts = [""]
    for n in range(1, maxlen + 1):
        texts += ["".join(t) for t in itertools.product(alpha, repeat=n)]
    n_rand = (30000 if thorough else 3000) * ctx.scale
    alpha2 = alpha + ["b", "é", "😀", "\t", "\x00", "'", ";", "\x0b", " "]
    for _ in range(n_rand):
        n = rng.choice([3, 8, 8, 15, 30, 60])
        texts.append("".join(rng.choice(alpha2 if rng.random() < 0.5 else alpha) for _ in range(n)))
    stats["csv_reader_texts"] = {"exhaustive_len<=%d_over_%r" % (maxlen, "".join(alpha)): len(texts) - n_rand, "random": n_rand}
    CH = 20000
    n_err = 0
    for off in range(0, len(texts), CH):
        chunk = texts[off:off + CH]
        outs = None
        if m:
            reqs = []
            for t in chunk:
                e = enc_str(t)
                reqs += [f"(114 2 {e})", f"(114 3 {e})", f"(114 10 {e})"]
            outs = m.ask_many(reqs)
        for i, t in enumerate(chunk):
            v.coverage["evaluations"] += 1
            raw = py_csv_read(t, "")
            tr = io.StringIO(t, newline=None).read()
            txt = py_csv_read(t, None)
            if raw[0] == "err":
                n_err += 1
            if '"' in t or "\r" in t:
                nontrivial.add(t)
            if outs:
                mo = dec_res(outs[3 * i], dec_rows)
                if mo != raw:
                    ctx.disagree("csv.reader (newline='')", repr(t), repr(mo), repr(raw))
                mt = dec_str(parse_sexp(outs[3 * i + 1]))
                if mt != tr:
                    ctx.disagree("universal newline translation", repr(t), repr(mt), repr(tr))
                mo2 = dec_res(outs[3 * i + 2], dec_rows)
                if mo2 != txt:
                    ctx.disagree("csv.reader (newline=None)", repr(t), repr(mo2), repr(txt))
    stats["csv_reader_texts"]["rejected_by_csv_module"] = n_err

    # ============================================================ (a2) csv codec: writer, round trip (library oracle)
    n_rows = (20000 if thorough else 2500) * ctx.scale
    cases = [[[]], [[""]], [["", ""]], [[], [""], []], [], [["a"], []], [['"']], [["\r"]], [["\n"]], [["\r\n"]], [[","]]]
    small = ["", "a", ",", '"', "\r", "\n"]
    for n in range(1, 4):
        for t in itertools.product(small, repeat=n):
            cases.append([list(t)])
    for a in itertools.product(small, repeat=2):
        for b in itertools.product(small, repeat=2):
            cases.append([list(a), list(b)])
    n_struct = len(cases)
    for _ in range(n_rows):
        k = rng.choice([1, 1, 2, 3])
        rows = []
        for _ in range(k):
            w = rng.choice([0, 1, 1, 2, 3, 5])
            rows.append([rand_cell(rng, cr=rng.random() < 0.3) for _ in range(w)])
        cases.append(rows)
    stats["csv_writer_cases"] = {"enumerated": n_struct, "random": n_rows}
    outs = m.ask_many([f"(114 1 {enc_rows(r)})" for r in cases]) if m else None
    rt_fail = 0
    for i, rows in enumerate(cases):
        v.coverage["evaluations"] += 1
        text = py_csv_write(rows)
        if outs:
            mo = dec_str(parse_sexp(outs[i]))
            if mo != text:
                ctx.disagree("csv.writer", repr(rows), repr(mo), repr(text))
        # library-level round trip (the content of theorem csv_roundtrip, on the real module)
        back = py_csv_read(text, "")
        if back != ("ok", rows):
            rt_fail += 1
            ctx.disagree("csv module round trip (theorem csv_roundtrip on the real library)", repr(rows), "Ok rows", repr(back))
        back2 = py_csv_read(text, None)
        if back2 != ("ok", [[unl(c) for c in r] for r in rows]):
            ctx.disagree("csv module text-mode round trip (theorem csv_text_roundtrip)", repr(rows), "Ok (map unl rows)", repr(back2))
        if any(any(ch in c for ch in ',"\r\n') for r in rows for c in r):
            nontrivial.add(repr(rows))

    # field size limit (boundary), once
    lim = csv.field_size_limit()
    if m:
        for n, quoted in ((lim, False), (lim + 1, False), (lim, True), (lim + 1, True)):
            t = ('"' + "a" * n + '"') if quoted else ("a" * n)
            mo = dec_res(m.ask(f"(114 2 {enc_str(t)})"), lambda x: [[len(c) for c in r] for r in x])
            im = py_csv_read(t, "")
            im = ("ok", [[len(c) for c in r] for r in im[1]]) if im[0] == "ok" else im
            v.coverage["evaluations"] += 1
            if mo != im:
                ctx.disagree("csv field size limit", f"{n} chars quoted={quoted}", repr(mo), repr(im))
    # witness of theorem csv_roundtrip_unguarded_refuted, replayed on the real module
    v.coverage["evaluations"] += 1
    back = py_csv_read(py_csv_write([["a" * (lim + 1)]]), "")
    if back != ("err", 1):
        ctx.disagree("csv field limit witness (theorem csv_roundtrip_unguarded_refuted on the real library)",
                     f"[['a'*{lim + 1}]]", "Err EFieldLimit", repr(back)[:200])
    stats["csv_field_limit"] = lim

    # ============================================================ (a3) load_csv on real files + tablib import/export
    n_files = (3000 if thorough else 400) * ctx.scale
    file_dist = {"written_from_table": 0, "mutated_text": 0, "impl_error": 0}
    fdir = os.path.join(scratch, "files")
    os.makedirs(fdir)
    file_cases = []
    for k in range(n_files):
        h, rows = rand_table(rng, cr=rng.random() < 0.25, empty_rows=rng.random() < 0.15, no_rows=rng.random() < 0.1)
        text = py_csv_write([h] + rows)
        if rng.random() < 0.3:
            # malformed stream: ragged rows, blank lines, stray quotes, bare CR/LF, no final newline
            file_dist["mutated_text"] += 1
            for _ in range(rng.choice([1, 1, 2, 3])):
                pos = rng.randrange(len(text) + 1)
                op = rng.choice(["ins", "ins", "del", "blank"])
                if op == "ins":
                    text = text[:pos] + rng.choice([",", '"', "\r", "\n", "\r\n", "x", ",,", '""']) + text[pos:]
                elif op == "del" and text:
                    text = text[:pos - 1] + text[pos:]
                else:
                    text = text.replace("\r\n", "\r\n\r\n", 1)
        else:
            file_dist["written_from_table"] += 1
            # tablib's own export must be the model's csv_export_set, byte for byte
            ds = tablib.Dataset(headers=h)
            for r in rows:
                ds.append(r)
            exp = ds.export("csv")
            if exp != text:
                ctx.disagree("tablib csv export vs csv.writer", repr((h, rows)), repr(text), repr(exp))
            if m:
                mo = dec_str(parse_sexp(m.ask(f"(114 5 {enc_table(h, rows)})")))
                if mo != exp:
                    ctx.disagree("csv_export_set", repr((h, rows)), repr(mo), repr(exp))
        file_cases.append(text)
    outs = m.ask_many([f"(114 4 {enc_str(t)})" for t in file_cases]) if m else None
    for i, text in enumerate(file_cases):
        v.coverage["evaluations"] += 1
        p = os.path.join(fdir, f"f{i}.csv")
        with open(p, "wb") as f:
            f.write(text.encode("utf-8"))
        r = run_cli_mode(lambda: table_view(sheets.load_csv(p)))
        os.unlink(p)
        im = ("ok", r[1]) if r[0] == "ok" else ("err",)
        if r[0] != "ok":
            file_dist["impl_error"] += 1
        if outs:
            mo = dec_res(outs[i], dec_table)
            mo = mo if mo[0] == "ok" else ("err",)
            if mo != im:
                ctx.disagree("sheets.load_csv on a file", repr(text), repr(mo), repr(r))
    stats["load_csv_files"] = file_dist

    # ============================================================ (a4) _sanitize and table<->dicts, direct
    n_san = (20000 if thorough else 2500) * ctx.scale
    san_dist = {"ok": 0, "err": 0, "dropped_row_cases": 0, "trailing_none_headers": 0}
    xr = object.__new__(sheets.XLSXSheetReader)
    grids = [[], [[None]], [[None, None]], [["a", None]], [["a"], [None]], [[None, "a"], ["x", "y"]], [["a", None], ["x", "y"]],
             [["a", "b"], ["x"]], [["a"], ["x", "y"]], [["a", "b"], [None, ""], ["", "q"]]]
    for _ in range(n_san):
        w = rng.choice([1, 2, 3, 4])
        h = [rng.choice(["a", "b", "h é", "ID", None, None if rng.random() < 0.3 else "t"]) for _ in range(w)]
        if rng.random() < 0.8 and h[0] is None:
            h[0] = "first"
        g = [h]
        for _ in range(rng.choice([0, 1, 2, 3, 5])):
            ww = w if rng.random() < 0.9 else rng.choice([max(1, w - 1), w + 1])
            g.append([rng.choice([None, None, "", "x", " ", "0", "é\n,", rand_cell(rng)]) for _ in range(ww)])
        grids.append(g)
    # How `_sanitize` can be driven on this tree: directly on a tablib Dataset (what XLSXSheetReader.__init__ hands it on /repo) or,
    # when the private helper takes something else (a reader re-organised without a change of behaviour), through
    # XLSXSheetReader on a written file — the model is then asked about the grid AS openpyxl REPORTS IT for that file.
    def probe_direct():
        ds = tablib.Dataset()
        ds.headers = ["a"]
        ds.append(["x"])
        return table_view(xr._sanitize(ds))

    pr = run_cli_mode(probe_direct)
    direct = pr[0] == "ok" and pr[1] == (["a"], [["x"]])
    san_dist["driver"] = "direct: _sanitize on a Dataset" if direct else \
        "file: XLSXSheetReader on a written XLSX (_sanitize does not take a Dataset on this tree: %r)" % (pr[1:],)
    file_reads = {}
    if not direct:
        import openpyxl
        grids = [g for g in grids[:10] if g] + grids[10:10 + (1500 if thorough else 250) * ctx.scale]   # (each grid costs a file)
        sdir = os.path.join(scratch, "sanitize_files")
        os.makedirs(sdir, exist_ok=True)
        eff = []
        for k, g in enumerate(grids):
            b = openpyxl.Workbook()
            ws = b.active
            ws.title = "s"
            for i, row in enumerate(g):
                for j, val in enumerate(row):
                    if val is not None:
                        c = ws.cell(row=i + 1, column=j + 1)
                        c.value = val
                        c.data_type = "s"
            pth = os.path.join(sdir, f"g{k}.xlsx")
            b.save(pth)
            g2 = load_grid(pth).get("s") or []
            file_reads[k] = run_cli_mode(lambda: table_view(sheets.XLSXSheetReader(pth).sheets["s"].table))
            os.unlink(pth)
            eff.append(g2)
        grids = eff
    outs = m.ask_many([f"(114 6 {enc_grid(g)})" for g in grids]) if m else None
    for i, g in enumerate(grids):
        v.coverage["evaluations"] += 1

        def impl_sanitize():
            if not direct:
                r0 = file_reads[i]
                if r0[0] != "ok":
                    raise RuntimeError(r0[1:])
                return r0[1]
            ds = tablib.Dataset()
            # XLSXFormat.import_sheet, on the cell values
            for k, row_vals in enumerate(g):
                row_vals = list(row_vals)
                if k == 0:
                    ds.headers = row_vals
                else:
                    if len(row_vals) < ds.width:
                        row_vals += [""] * (ds.width - len(row_vals))
                    ds.append(row_vals)
            return table_view(xr._sanitize(ds))

        r = run_cli_mode(impl_sanitize)
        im = ("ok", r[1]) if r[0] == "ok" else ("err",)
        san_dist["ok" if r[0] == "ok" else "err"] += 1
        if r[0] == "ok" and not direct:
            if len(r[1][1]) < len(g) - 1:
                san_dist["dropped_row_cases"] += 1
                nontrivial.add("san" + repr(g))
            if g and g[0] and g[0][-1] is None:
                san_dist["trailing_none_headers"] += 1
        if r[0] == "ok" and direct:
            # theorem sanitize_idempotent on the real function
            def impl_again():
                ds = tablib.Dataset()
                ds.headers = list(r[1][0])
                for row in r[1][1]:
                    ds.append(list(row))
                return table_view(xr._sanitize(ds))
            r2 = run_cli_mode(impl_again)
            if r2[0] != "ok" or r2[1] != r[1]:
                ctx.disagree("_sanitize idempotence (theorem sanitize_idempotent on the real function)", repr(g), repr(r[1]), repr(r2)[:300])
            if len(r[1][1]) < len(g) - 1:
                san_dist["dropped_row_cases"] += 1
                nontrivial.add("san" + repr(g))
            if g and g[0] and g[0][-1] is None:
                san_dist["trailing_none_headers"] += 1
        if outs:
            mo = dec_res(outs[i], dec_xtable)
            mo = mo if mo[0] == "ok" else ("err",)
            if mo != im:
                ctx.disagree("import_sheet + _sanitize", repr(g), repr(mo), repr(r))
    stats["sanitize_cases"] = san_dist

    n_js = (20000 if thorough else 2500) * ctx.scale
    js_dist = {"getter": 0, "setter_ok": 0, "setter_err": 0, "duplicate_headers": 0}
    get_cases, set_cases = [], []
    for _ in range(n_js):
        w = rng.choice([1, 2, 3, 4])
        pool = ["a", "b", "c", "h é", "ID"]
        h = [rng.choice(pool) for _ in range(w)] if rng.random() < 0.25 else rng.sample(pool, w)
        if rng.random() < 0.05:
            h = None
        rows = [[rand_cell(rng) for _ in range(w)] for _ in range(rng.choice([0, 1, 2, 3]))]
        get_cases.append((h, rows))
        # setter input: mostly what the getter produces, sometimes re-ordered / ragged / lists
        x = rng.random()
        if x < 0.6:
            content = [dict(zip(h, r)) for r in rows] if h else [list(r) for r in rows]
        elif x < 0.8:
            content = []
            for r in rows:
                ks = list(h or ["k"] * w)
                items = list(zip(ks, r))
                rng.shuffle(items)
                if rng.random() < 0.3 and items:
                    items.pop()
                content.append(dict(items))
        elif x < 0.9:
            content = [[rand_cell(rng) for _ in range(rng.choice([w, w, w + 1]))] for _ in range(rng.choice([1, 2, 3]))]
        else:
            content = []
        set_cases.append(content)
    if m:
        outs_g = m.ask_many([f"(114 7 {enc_table(h, rows)})" for h, rows in get_cases])
        outs_s = m.ask_many([f"(114 8 {enc_jsheet(c)})" for c in set_cases])
    for i, (h, rows) in enumerate(get_cases):
        v.coverage["evaluations"] += 2
        ds = tablib.Dataset(headers=h)
        for r in rows:
            ds.append(r)
        got = ds.dict
        js_dist["getter"] += 1
        if h and len(set(h)) < len(h):
            js_dist["duplicate_headers"] += 1
        im = [list(d.items()) if isinstance(d, dict) else list(d) for d in got]
        content = set_cases[i]

        def impl_set():
            t = tablib.Dataset()
            t.dict = content
            return table_view(t)

        r = run_cli_mode(impl_set)
        js_dist["setter_ok" if r[0] == "ok" else "setter_err"] += 1
        if h and rows and len(set(h)) == len(h):
            # theorem json_table_roundtrip on the real tablib
            def impl_rt():
                t = tablib.Dataset()
                t.dict = got
                return table_view(t)
            rr = run_cli_mode(impl_rt)
            js_dist["roundtrip_in_domain"] = js_dist.get("roundtrip_in_domain", 0) + 1
            if rr[0] != "ok" or rr[1] != (list(h), [list(x) for x in rows]):
                ctx.disagree("Dataset.dict round trip (theorem json_table_roundtrip on the real tablib)", repr((h, rows)), "Ok t", repr(rr)[:300])
        if m:
            mo = dec_jsheet(outs_g[i])
            if mo != im:
                ctx.disagree("Dataset.dict getter (to_json)", repr((h, rows)), repr(mo), repr(im))
            ms = dec_res(outs_s[i], dec_table)
            ms = ms if ms[0] == "ok" else ("err",)
            ims = ("ok", r[1]) if r[0] == "ok" else ("err",)
            if ms != ims:
                ctx.disagree("Dataset.dict setter (JSONSheetReader)", repr(content), repr(ms), repr(r))
    # witness of theorem json_table_roundtrip_duplicate_header_refuted, replayed on the real tablib
    v.coverage["evaluations"] += 1
    dsw = tablib.Dataset(headers=["a", "a"])
    dsw.append(["x", "y"])
    tw = tablib.Dataset()
    tw.dict = dsw.dict
    if table_view(tw) != (["a"], [["y"]]):
        ctx.disagree("duplicate-header witness (theorem json_table_roundtrip_duplicate_header_refuted on the real tablib)",
                     "headers ['a','a'], row ['x','y']", "(['a'], [['y']])", repr(table_view(tw)))
    stats["dict_cases"] = js_dist

    # ============================================================ (a5) the toolkit's readers / convert, one sheet at a time
    # (rows of empty cells in every position, sheets without rows, the object form {"headers", "rows"}: what the tree
    #  at hand does with them is probed by the translator — Gen/Tables.v — and the model must follow)
    from rpft import converters

    class Held(sheets.AbstractSheetReader):
        def __init__(self, sh):
            self._sheets = sh

    n_rd = (6000 if thorough else 600) * ctx.scale
    rd_dist = {"csv_reader": 0, "to_json": 0, "json_reader": 0, "json_reader_err": 0, "tables_with_empty_rows": 0,
               "tables_without_rows": 0, "object_form": 0}
    rdir = os.path.join(scratch, "readers")
    os.makedirs(rdir)
    fixed = [(["a"], [[""]]), (["a"], []), (["a"], [["x"], [""]]), (["a", "b"], [["", ""], ["x", ""], ["", ""]]),
             (["a", "b"], [["", ""]]), (["a", "b"], [])]
    csv_cases, tj_cases, jr_cases = [], [], []
    for k in range(n_rd):
        if k < len(fixed):
            h, rows = fixed[k]
        else:
            h, rows = rand_table(rng, cr=rng.random() < 0.15, empty_rows=rng.random() < 0.4, no_rows=rng.random() < 0.2)
        if any(not any(r) for r in rows):
            rd_dist["tables_with_empty_rows"] += 1
        if not rows:
            rd_dist["tables_without_rows"] += 1
        csv_cases.append((h, rows))
        hh = h if rng.random() < 0.95 else None
        tj_cases.append((hh, rows))
        # what JSONSheetReader may find in a file: the two forms `convert` writes, plus re-ordered / ragged objects,
        # lists of lists, the object form with ragged rows
        x = rng.random()
        if x < 0.4:
            content = [dict(zip(h, r)) for r in rows]
        elif x < 0.75:
            rr = [list(r) for r in rows]
            if rr and rng.random() < 0.15:
                rr[rng.randrange(len(rr))].append("extra")
            content = {"headers": list(h), "rows": rr}
            rd_dist["object_form"] += 1
        elif x < 0.85:
            content = [list(r) for r in rows]
        else:
            content = []
            for r in rows:
                items = list(zip(h, r))
                rng.shuffle(items)
                content.append(dict(items))
        jr_cases.append(content)
    outs_c = outs_t = outs_j = None
    csv_texts = [py_csv_write([h] + rows) for (h, rows) in csv_cases]
    if m:
        outs_c = m.ask_many([f"(114 11 {enc_str(t)})" for t in csv_texts])
        outs_t = m.ask_many([f"(114 12 {enc_table(h, rows)})" for (h, rows) in tj_cases])
        outs_j = m.ask_many([f"(114 13 {enc_jsheet(c)})" for c in jr_cases])
    for i in range(n_rd):
        v.coverage["evaluations"] += 3
        dd = os.path.join(rdir, f"d{i}")
        os.makedirs(dd)
        with open(os.path.join(dd, "s.csv"), "w", newline="", encoding="utf-8") as f:
            f.write(csv_texts[i])
        r = run_cli_mode(lambda: table_view(sheets.CSVSheetReader(dd).sheets["s"].table))
        rd_dist["csv_reader"] += 1
        if outs_c:
            mo = dec_res(outs_c[i], dec_table)
            if (mo if mo[0] == "ok" else ("err",)) != (("ok", r[1]) if r[0] == "ok" else ("err",)):
                ctx.disagree("CSVSheetReader on one file", repr(csv_cases[i]), repr(mo), repr(r)[:300])
        hh, rows = tj_cases[i]

        def impl_to_json():
            ds = tablib.Dataset()
            if hh:
                ds.headers = list(hh)
            for row in rows:
                ds.append(list(row))
            return json.loads(converters.to_json(Held({"s": sheets.Sheet(reader=None, name="s", table=ds)})))["sheets"]["s"]

        r = run_cli_mode(impl_to_json)
        rd_dist["to_json"] += 1
        if outs_t:
            mo = dec_jsheet(outs_t[i])
            if r[0] != "ok" or mo != jsheet_view(r[1]):
                ctx.disagree("converters.to_json on one sheet", repr(tj_cases[i]), repr(mo), repr(r)[:300])
        pj = os.path.join(dd, "b.json")
        with open(pj, "w", encoding="utf-8") as f:
            json.dump({"meta": {"version": "0.1.0"}, "sheets": {"s": jr_cases[i]}}, f, ensure_ascii=False)
        r = run_cli_mode(lambda: table_view(sheets.JSONSheetReader(pj).sheets["s"].table))
        rd_dist["json_reader" if r[0] == "ok" else "json_reader_err"] += 1
        if outs_j:
            mo = dec_res(outs_j[i], dec_table)
            if (mo if mo[0] == "ok" else ("err",)) != (("ok", r[1]) if r[0] == "ok" else ("err",)):
                ctx.disagree("JSONSheetReader on one sheet", repr(jr_cases[i]), repr(mo), repr(r)[:300])
        if any(not any(row) for row in csv_cases[i][1]) or not csv_cases[i][1]:
            nontrivial.add("rd%d" % i)
        shutil.rmtree(dd, ignore_errors=True)
    if m:
        rd_dist["tree_flags[csv_drop,json_drop,json_table_form,to_json_table_form]"] = parse_sexp(m.ask("(114 14)"))
    stats["reader_sheet_cases"] = rd_dist

    # ============================================================ (b1) the three real readers on the same workbook
    n_wb = (1500 if thorough else 120) * ctx.scale
    classes = ["domain"] * 14 + ["cr"] * 2 + ["empty_row"] * 2 + ["no_rows"] * 2
    wb_dist = {"domain": 0, "cr": 0, "empty_row": 0, "no_rows": 0, "sheets": 0, "rows": 0, "cells": 0,
               "cells_needing_quotes": 0, "non_ascii_cells": 0, "multiline_cells": 0}
    # the two minimal witnesses of the refutation theorems, first
    directed = [("empty_row", {"s": (["a"], [[""]])}), ("no_rows", {"s": (["a"], [])}),
                ("empty_row", {"s": (["a"], [["x"], [""]])}),       # the witness of C14_empty_row_witness
                ("empty_row", {"s": (["a", "b"], [["x", ""], ["", ""], ["", "y"]])}),
                ("domain", {"s": (["a"], [["x"]])})]
    n_fail = {K_EMPTY_ROW: 0, K_NO_ROWS: 0}
    for k in range(n_wb + len(directed)):
        if k < len(directed):
            cls, wb = directed[k]
        else:
            cls = rng.choice(classes)
            wb = rand_workbook(rng, cls)
        wb_dist[cls] += 1
        wb_dist["sheets"] += len(wb)
        for h, rows in wb.values():
            wb_dist["rows"] += len(rows)
            for r in rows:
                for c in r:
                    wb_dist["cells"] += 1
                    wb_dist["cells_needing_quotes"] += any(ch in c for ch in ',"\r\n')
                    wb_dist["non_ascii_cells"] += any(ord(ch) > 127 for ch in c)
                    wb_dist["multiline_cells"] += "\n" in c
        v.coverage["evaluations"] += 1
        stray = None
        if rng.random() < 0.25:
            sn = rng.choice(sorted(wb))
            stray = {sn: (rng.randrange(len(wb[sn][1]) + 1), rng.choice([1, 2]))}
            wb_dist["xlsx_with_stray_empty_column"] = wb_dist.get("xlsx_with_stray_empty_column", 0) + 1
        res, det = read_all_formats(wb, scratch, stray)
        nontrivial.add("wb%d" % k)
        # ---- correspondence: model readers vs real readers, per sheet
        if m:
            correspond_workbook(ctx, m, wb, res, det, stray)
        # ---- the property's oracle on the implementation
        # (class 'cr': the CSV and XLSX readers newline-normalise a CR, so "cells intact" is not asked;
        #  the three formats must still agree with each other and all succeed: theorem formats_agree_normalised)
        if True:
            ok = formats_oracle(res)
            if cls == "cr" and res["csv"][0] != "ok":
                ok = False
            # expected content: exactly the abstract workbook (cells intact)
            if ok and res["csv"][0] == "ok":
                want = {n: (h, rows) for n, (h, rows) in wb.items()}
                if res["csv"][1] != want and cls == "domain":
                    ok = False
            if cls == "domain" and res["csv"][0] != "ok":
                ok = False
            # rows of empty cells / sheets without rows: whatever the formats agree on, it is the workbook itself, with
            # or without its rows of empty cells — names, headers and every other row intact
            if ok and cls in ("empty_row", "no_rows") and res["csv"][0] == "ok":
                if res["csv"][1] not in ({n: (h, rows) for n, (h, rows) in wb.items()}, deleted_empty_rows(wb)):
                    ok = False
            if not ok:
                def oracle_on(w2):
                    r2, d2 = read_all_formats(w2, scratch, stray)
                    shutil.rmtree(d2["dir"], ignore_errors=True)
                    return formats_oracle(r2) and r2["csv"][0] == "ok"

                def outcome_of(w2):
                    # (without json_direct: a held file is written differently for a sheet with and without rows)
                    r2, d2 = read_all_formats(w2, scratch, stray)
                    shutil.rmtree(d2["dir"], ignore_errors=True)
                    return {f: x for f, x in r2.items() if f != "json_direct"}
                key = classify(wb, oracle_on, outcome_of)
                if key in n_fail:
                    n_fail[key] += 1
                summary = {f: (r[0], r[1] if r[0] == "ok" else r[1:]) for f, r in res.items()}
                v.failing_input(key, f"readers disagree on {wb!r} (stray={stray!r}): {summary!r}"[:1500], dict(fn="readers", wb=wb, stray=stray))
        # ---- the same paths, a revised workbook: the files are overwritten in place (same sheet names, other cells) and
        # read again in this process; what is read must be the revised content, in every format
        if cls == "domain" and rng.random() < 0.3:
            wb_rev = {n: (h, [[(c + "~" + str(i)) if c else c for c in r] for i, r in enumerate(rows)]) for n, (h, rows) in wb.items()}
            if wb_rev != wb:
                wb_dist["revised_in_place"] = wb_dist.get("revised_in_place", 0) + 1
                v.coverage["evaluations"] += 1
                res2, det2 = read_all_formats(wb_rev, scratch, stray, reuse=det["dir"])
                ok2 = formats_oracle(res2) and res2["csv"][0] == "ok" and res2["csv"][1] == {n: (h, rows) for n, (h, rows) in wb_rev.items()}
                if not ok2:
                    summary = {f: (r[0], r[1] if r[0] == "ok" else r[1:]) for f, r in res2.items()}
                    v.failing_input("stale-read-after-revision",
                                    f"a workbook overwritten in place ({wb!r} -> {wb_rev!r}, same paths) is not read as revised: {summary!r}"[:1500],
                                    dict(fn="readers_revision", wb=wb, wb_rev=wb_rev, stray=stray))
        shutil.rmtree(det["dir"], ignore_errors=True)
    stats["reader_workbooks"] = wb_dist
    stats["reader_findings_seen"] = n_fail

    # ============================================================ (b1s) sheet SHAPES: long runs of rows / columns without content,
    # very long / very wide sheets, content far from the origin, many sheets (harness/c14_shapes.py)
    import c14_shapes
    shape_samples = c14_shapes.run_shapes(ctx, scratch, nontrivial)

    # ============================================================ (b2) create_flows on the three formats, convert-then-compile
    n_c = (1500 if thorough else 150) * ctx.scale
    features = [None] * 16 + ["empty_row_flow", "empty_row_index", "no_rows_data", "no_rows_flow"]
    c_dist = {"plain": 0, "empty_row_flow": 0, "empty_row_index": 0, "no_rows_data": 0, "no_rows_flow": 0,
              "compiled_ok": 0, "compile_error_all_formats": 0, "flows": 0, "nodes": 0}
    directed = ["empty_row_flow", "empty_row_index", "no_rows_data", "no_rows_flow"]
    c_fail = {K_EMPTY_ROW: 0, K_NO_ROWS: 0}
    for k in range(n_c + len(directed)):
        feat = directed[k] if k < len(directed) else rng.choice(features)
        wb = rand_rpft_workbook(rng, feat)
        c_dist[feat or "plain"] += 1
        v.coverage["evaluations"] += 1
        res, det = read_all_formats(wb, scratch)
        comp = compile_all_formats(det)
        shutil.rmtree(det["dir"], ignore_errors=True)
        ok = compile_oracle(comp)
        if comp["csv"][0] == "ok":
            c_dist["compiled_ok"] += 1
            c_dist["flows"] += len(comp["csv"][1].get("flows", []))
            c_dist["nodes"] += sum(len(f.get("nodes", [])) for f in comp["csv"][1].get("flows", []))
            nontrivial.add("c%d" % k)
        elif ok:
            c_dist["compile_error_all_formats"] += 1
        if feat is None and comp["csv"][0] != "ok":
            # the generator promises valid workbooks: a failure here is a harness bug or a defect
            ok = False
        if not ok:
            def oracle_on(w2):
                r2, d2 = read_all_formats(w2, scratch)
                c2 = compile_all_formats(d2)
                shutil.rmtree(d2["dir"], ignore_errors=True)
                return compile_oracle(c2) and c2["csv"][0] == "ok"

            def outcome_of(w2):
                r2, d2 = read_all_formats(w2, scratch)
                c2 = compile_all_formats(d2)
                shutil.rmtree(d2["dir"], ignore_errors=True)
                return ({f: x for f, x in r2.items() if f != "json_direct"}, {f: x for f, x in c2.items() if f != "json_direct"})
            key = classify(wb, oracle_on, outcome_of)
            if key in c_fail:
                c_fail[key] += 1
            summary = {f: (r[0], "…" if r[0] == "ok" else r[1:]) for f, r in comp.items()}
            v.failing_input(key, f"create_flows differs between formats on {wb!r}: {summary!r}"[:1500], dict(fn="compile", wb=wb))
    stats["compile_workbooks"] = c_dist
    stats["compile_findings_seen"] = c_fail

    # ============================================================ (b3) the real CLI (convert, create_flows) and a non-UTF-8 locale
    n_cli = (6 if thorough else 1) * (1 if ctx.scale == 1 else 2)
    cli_ok = 0
    for k in range(n_cli):
        wb = rand_rpft_workbook(rng, None)
        wb["plain flow"][1][0][4] = "héllo, \"wörld\"\n世界 😀"
        v.coverage["evaluations"] += 1
        if cli_oracle(wb, scratch, v):
            cli_ok += 1
    stats["cli_workbooks"] = {"run": n_cli, "ok": cli_ok}

    v.coverage["distinct_nontrivial"] = len(nontrivial)
    v.coverage["rule"] = (
        "csv reader: every text of length <= %d over %r plus random texts (half over a wider alphabet incl. NUL, VT, U+2028, "
        "astral) through csv.reader with newline='' and newline=None and through the model; csv writer: enumerated rows over "
        "%r plus random rows (30%% with CR) byte-for-byte, and the round trip on the real module; load_csv on real files "
        "(70%% written tables incl. all-empty rows / header-only, 30%% mutated text: ragged, blank lines, stray quotes); "
        "_sanitize on grids with None cells / trailing None headers / short and long rows; Dataset.dict getter+setter incl. "
        "duplicate headers and re-ordered dicts; CSVSheetReader / converters.to_json / JSONSheetReader one sheet at a time "
        "(40%% of the tables with rows of empty cells, 20%% without rows; JSON sheets as lists of objects, in the object form "
        "{headers, rows} incl. ragged rows, as lists of lists, re-ordered); then whole workbooks through the three real readers "
        "and through JSONSheetReader on the workbook held in convert's own format (70%% in the theorem's "
        "domain, 10%% CR cells [correspondence + mutual agreement of the formats], 10%% all-empty rows, 10%% header-only sheets) and small valid rpft "
        "workbooks through create_flows in all formats (80%% valid, 20%% carrying one of the two defect features); SHAPES: "
        "workbooks drawn by shape — blocks of content separated by runs of rows without content (run lengths 1 .. 2100, "
        "clustered around 10, 100, 256, 500, 512, 1000, 1024, 1200, 2048), content far below the header / far right, trailing "
        "runs, columns without content (up to 300 columns), 1000-3000 content rows, 100-400 columns, 12-64 sheets, mixtures, "
        "valid rpft workbooks with such runs inside the flow / index / data sheets (also compiled) — XLSX cells without text "
        "written as empty strings or not at all, all formats compared with each other, with the workbook minus its rows "
        "without content, and with the model readers (distribution: stats.sheet_shapes). "
        "non-trivial = distinct text with a quote or CR / rows with a cell needing quotes / grid where a row was dropped / "
        "workbook read / workbook compiled / shape workbook") % (maxlen, "".join(alpha), small)
    v.coverage["samples"] = [texts[min(len(texts) - 1, 5000)], cases[min(len(cases) - 1, 1800)], file_cases[0][:200],
                             grids[min(len(grids) - 1, 40)], {n: t for n, t in list(rand_workbook(rng, "domain").items())[:1]}] + shape_samples
    v.assumptions += [
        "UTF-8 file encoding/decoding is the identity on code-point strings (not modelled)",
        "openpyxl returns for a string cell: None for '', the text with CR/CRLF turned into LF otherwise (section hypothesis xl_roundtrip; checked on every generated workbook of this run, cells <= 32767 chars, no XML-illegal control characters)",
        "json.loads(json.dumps(book, ensure_ascii=False, indent=2)) == book with object order kept (section hypothesis json_roundtrip; exercised through the real convert + JSONSheetReader on every generated workbook)",
        "XLSX cells are written as string cells; number/date typing of XLSX cells is not modelled",
        "sheet names are valid both as file stems and as XLSX titles",
    ]


def cli_oracle(wb, scratch, v):
    """python -m rpft.cli convert / create_flows on files, in a scratch cwd; additionally the CSV
    read is repeated under a non-UTF-8 locale (LC_ALL=C, no coercion, no UTF-8 mode)."""
    d = tempfile.mkdtemp(prefix="cli", dir=scratch)
    csv_dir = os.path.join(d, "csv")
    write_csv_folder(wb, csv_dir)
    xlsx = os.path.join(d, "wb.xlsx")
    write_xlsx(wb, xlsx)
    env = impl_env()

    def cli(*args, env=env):
        p = subprocess.run([PY, "-m", "rpft.cli", *args], cwd=d, env=env, stdout=subprocess.PIPE, stderr=subprocess.PIPE, timeout=120)
        return p.returncode

    outs = {}
    rc = {}
    rc["convert"] = cli("convert", "-f", "csv", csv_dir, "wb.json")
    rc["convert_x"] = cli("convert", "-f", "xlsx", xlsx, "wbx.json")
    for key, fmt, src in (("csv", "csv", csv_dir), ("xlsx", "xlsx", xlsx), ("json", "json", "wb.json"), ("json_from_xlsx", "json", "wbx.json")):
        rc[key] = cli("create_flows", "-f", fmt, "-o", key + ".out.json", src)
        p = os.path.join(d, key + ".out.json")
        outs[key] = canon_uuids(json.load(open(p, encoding="utf-8"))) if rc[key] == 0 and os.path.exists(p) else None
    env2 = dict(env)
    env2.update({"LC_ALL": "C", "LANG": "C", "PYTHONCOERCECLOCALE": "0", "PYTHONUTF8": "0"})
    env2.pop("PYTHONIOENCODING", None)
    rc["csv_C_locale"] = cli("create_flows", "-f", "csv", "-o", "csvc.out.json", csv_dir, env=env2)
    p = os.path.join(d, "csvc.out.json")
    outs["csv_C_locale"] = canon_uuids(json.load(open(p, encoding="utf-8"))) if rc["csv_C_locale"] == 0 and os.path.exists(p) else None
    ok = all(c == 0 for c in rc.values()) and all(o == outs["csv"] and o is not None for o in outs.values())
    if not ok:
        v.failing_input("cli-format-disagreement", f"rpft CLI: exit codes {rc}, outputs equal: { {k: o == outs['csv'] for k, o in outs.items()} }",
                        dict(fn="cli", wb=wb))
    shutil.rmtree(d, ignore_errors=True)
    return ok


def replay(rep):
    r = rep["replay"]
    scratch = tempfile.mkdtemp(prefix="c14r_")
    try:
        if r["fn"] == "shape":
            import c14_shapes
            return c14_shapes.replay_shape(r, scratch)
        wb = {n: (list(t[0]), [list(x) for x in t[1]]) for n, t in r["wb"].items()}
        if r["fn"] == "readers":
            stray = {n: tuple(x) for n, x in r["stray"].items()} if r.get("stray") else None
            res, det = read_all_formats(wb, scratch, stray)
            for f, x in res.items():
                print(" ", f, x)
            return formats_oracle(res) and res["csv"][0] == "ok"
        if r["fn"] == "readers_revision":
            stray = {n: tuple(x) for n, x in r["stray"].items()} if r.get("stray") else None
            wb_rev = {n: (list(t[0]), [list(x) for x in t[1]]) for n, t in r["wb_rev"].items()}
            res, det = read_all_formats(wb, scratch, stray)
            res2, det2 = read_all_formats(wb_rev, scratch, stray, reuse=det["dir"])
            for f, x in res2.items():
                print(" ", f, x)
            return formats_oracle(res2) and res2["csv"][0] == "ok" and res2["csv"][1] == {n: (h, rows) for n, (h, rows) in wb_rev.items()}
        if r["fn"] == "compile":
            res, det = read_all_formats(wb, scratch)
            comp = compile_all_formats(det)
            for f, x in comp.items():
                print(" ", f, x[0], (json.dumps(x[1])[:200] if x[0] == "ok" else x[1:]))
            return compile_oracle(comp) and comp["csv"][0] == "ok"
        if r["fn"] == "cli":
            from common import Verdict
            class V:
                def failing_input(self, *a):
                    print(" ", a[1])
            return cli_oracle(wb, scratch, V())
    finally:
        shutil.rmtree(scratch, ignore_errors=True)
    return True
