"""C06, sheet level — explicit uuids that come from the sheets (`obj_id`) on their way into the
rendered container.

The container-level check (c06.py) builds RapidProContainer objects directly.  Real runs reach the
container through ContentIndexParser / FlowParser: an `obj_id` on an add_to_group / remove_from_group
/ split_by_group / start_new_flow row is either put on the object the row creates, or recorded into
"the" container of the FlowParser that reads the row — and rows reach a FlowParser by several
routes: written in the flow sheet, inside begin_block / begin_for, in a template instantiated with
data rows, or in a template pulled in with insert_as_block (nested, with data rows or template
arguments), which is parsed by a nested FlowParser.  Whatever the route, the property asks the
same: the explicit uuid wins, two different ones are rejected.

This module generates ABSTRACT workbooks (what is referenced where, with which obj_id, by which
route), writes them out as sheets from the documented sheet syntax, and expands them — on its own,
without the parser — to the list of reference rows each flow consists of.  That expansion is what
the oracle and the request to the Gallina model (Uuid/Sheet.v) are computed from.

Histories: one long-lived ContentIndexParser per workbook; operations P (parse_all: a new
container), R (render of the current container), run in sequences like P R R P R; and, for the
FlowParser level, one long-lived RapidProContainer with flow sheets parsed into it one after the
other, mixed with record_*_uuid / add_campaign / add_trigger / render.
"""
import copy
import json
import os
import shutil
import tempfile

from common import enc_str, run_cli_mode

GROUPS = ["g1", "g2", "g3", "Ünï grp", "g 4"]
EXT_FLOWS = ["ext1", "ext 2"]
FLOW_SHEETS = ["fa", "fb", "fc", "fd"]
BLOCKS = ["blk1", "blk2", "blk3"]
UPOOL = ["U1", "U2", "U3"]
REF_ROW_TYPES = ["add_to_group", "remove_from_group", "split_by_group", "start_new_flow"]
KIND_OF_ROW = {"add_to_group": "G", "remove_from_group": "G", "split_by_group": "G", "start_new_flow": "F"}
# rows that an edge with condition_type=has_group may leave (besides split_by_group): the test lands on the row's own
# switch router (wait_for_response, split_by_value), on the router of a no_op decision, or on a switch router created
# behind an action node (send_message, add_to_group) — operand "@input.text" or the condition_var, never "@contact.groups"
ROUTER_ROW_TYPES = ["wait_for_response", "split_by_value", "no_op", "send_message", "add_to_group"]
PLAIN_TYPES = ["send_message", "save_value", "save_flow_result", "set_contact_language", "wait_for_response"]

FLOW_HEADERS = ["row_id", "type", "from", "condition", "condition_var", "condition_type", "loop_variable", "include_if", "message_text", "save_name",
                "obj_id", "data_sheet", "data_row_id", "template_arguments"]
INDEX_HEADERS = ["type", "sheet_name", "data_sheet", "data_row_id", "new_name", "data_model", "template_arguments",
                 "status", "group"]
CAMPAIGN_HEADERS = ["offset", "unit", "event_type", "delivery_hour", "message", "relative_to", "start_mode", "flow",
                    "base_language"]
TRIGGER_HEADERS = ["type", "keywords", "flow", "groups", "exclude_groups", "channel", "match_type"]


def designated(kind, name):
    return f"{kind}-{name}-id"


# ------------------------------------------------------------------------------ generator
def gen_wb(rng, malformed=False, big=False):
    """-> abstract workbook (plain JSON-able dict)"""
    groups = rng.sample(GROUPS, rng.randint(1, 4))
    n_flows = rng.choice([1, 2, 2, 3, 4] if big else [1, 1, 2, 2, 3])
    sheets = FLOW_SHEETS[:n_flows]
    n_blocks = rng.choice([0, 1, 1, 2, 3])
    blocks = BLOCKS[:n_blocks]
    use_data = rng.random() < 0.45
    data_rows = []
    if use_data:
        for i in range(rng.choice([1, 2, 2, 3] if big else [1, 1, 2])):
            g = rng.choice(groups)
            f = rng.choice(EXT_FLOWS)
            data_rows.append({"ID": f"r{i + 1}", "grp": g, "gid": None, "flw": f, "fid": None})

    def uu(kind, name):
        r = rng.random()
        if malformed and r < 0.25:
            return rng.choice(UPOOL + [designated(kind, rng.choice(groups if kind == "G" else EXT_FLOWS))])
        if r < 0.45:
            return designated(kind, name)
        return ""

    for dr in data_rows:
        dr["gid"] = uu("G", dr["grp"])
        dr["fid"] = uu("F", dr["flw"])

    # which flow sheets are instantiated with data rows: None | "all" | row id
    flow_defs = []
    for s in sheets:
        d = None
        if use_data and rng.random() < 0.5:
            d = rng.choice(["all"] + [r["ID"] for r in data_rows])
        flow_defs.append({"sheet": s, "data": d, "new_name": rng.choice(["", "", "", s + " renamed"])})
    # a sheet may be instantiated twice under another name (same rows parsed again into the same container)
    if rng.random() < 0.15:
        fd = dict(rng.choice(flow_defs))
        fd["new_name"] = fd["sheet"] + " again"
        flow_defs.append(fd)
    if malformed and rng.random() < 0.1:
        flow_defs.append(dict(rng.choice(flow_defs)))     # the very same flow name twice: the later one replaces it

    def flow_names_of(fd):
        base = fd["new_name"] or fd["sheet"]
        if fd["data"] is None:
            return [base]
        if fd["data"] == "all":
            return [f"{base} - {r['ID']}" for r in data_rows]
        return [f"{base} - {fd['data']}"]

    defined = []
    for fd in flow_defs:
        for n in flow_names_of(fd):
            if n not in defined:
                defined.append(n)

    def ref_row(env_vars, depth):
        ty = rng.choice(["add_to_group", "add_to_group", "remove_from_group", "start_new_flow", "start_new_flow"])
        kind = KIND_OF_ROW[ty]
        if env_vars and rng.random() < 0.5:
            # name and obj_id come from the data row / template argument
            if kind == "G":
                name, oid = ("{{grp}}", rng.choice(["{{gid}}", "{{gid}}", ""])) if "grp" in env_vars else ("{{ga}}", "")
            elif "flw" in env_vars:
                name, oid = "{{flw}}", rng.choice(["{{fid}}", "{{fid}}", ""])
            else:
                name, oid = rng.choice(EXT_FLOWS), None
        elif kind == "G":
            name, oid = rng.choice(groups), None
        else:
            pool = EXT_FLOWS + (defined if rng.random() < 0.4 else [])
            name, oid = rng.choice(pool), None
        if oid is None:
            oid = uu(kind, name)
            if kind == "F" and name in defined and not malformed:
                oid = ""         # the definition carries a uuid of its own: an obj_id here is a conflict
        return {"t": "row", "type": ty, "name": name, "obj_id": oid,
                "include": rng.choice(["", "", "", "TRUE", "FALSE"])}

    def plain_row():
        return {"t": "row", "type": rng.choice(PLAIN_TYPES), "name": "text", "obj_id": rng.choice(["", "", "X-ignored"]),
                "include": rng.choice(["", "", "", "FALSE"])}

    def split(env_vars):
        if env_vars and "grp" in env_vars and rng.random() < 0.4:
            name, oid = "{{grp}}", rng.choice(["{{gid}}", ""])
        elif env_vars and "ga" in env_vars and rng.random() < 0.4:
            name, oid = "{{ga}}", uu("G", "g1") if malformed else ""
        else:
            name = rng.choice(groups)
            oid = uu("G", name)
        cases = [name]
        for _ in range(rng.choice([0, 0, 1, 2])):
            c = rng.choice(groups)
            if c not in cases and "{{" not in name:
                cases.append(c)
        children = []
        for c in cases:
            ch = ref_row(env_vars, 9) if rng.random() < 0.4 else plain_row()
            ch["include"] = ""
            children.append([c, ch])
        return {"t": "split", "name": name, "obj_id": oid, "children": children}

    def router(env_vars, rtype=None):
        """a row of any type with conditional edges, some of them has_group tests"""
        rtype = rtype or rng.choice(ROUTER_ROW_TYPES)
        var = "@fields.age" if rtype == "no_op" else rng.choice(["", "@fields.age"]) if rtype in ("send_message", "add_to_group") else ""
        name, oid = "text", ""
        if rtype == "add_to_group":
            name = rng.choice(groups)
            oid = uu("G", name)
        children, seen = [], set()
        for _ in range(rng.choice([1, 2, 2, 3])):
            if rng.random() < 0.7:
                if env_vars and rng.random() < 0.3:
                    c = "{{grp}}" if "grp" in env_vars else "{{ga}}"
                else:
                    c = rng.choice(groups)
                ct = "has_group"
            else:
                c, ct = rng.choice(["yes", "no", "g1"]), rng.choice(["", "has_phrase"])
            if (c, ct) in seen or ("{{" in c and seen):     # add_choice merges a case with equal type and arguments
                continue
            seen.add((c, ct))
            ch = ref_row(env_vars, 9) if rng.random() < 0.4 else plain_row()
            ch["include"] = ""
            children.append([c, ct, ch])
        return {"t": "router", "rtype": rtype, "var": var, "name": name, "obj_id": oid, "children": children}

    def items(env_vars, depth, block_pool, n=None):
        out = []
        n = n if n is not None else rng.choice(([1, 2, 3, 4] if depth else [2, 3, 4, 5, 6]) if big else ([1, 1, 2] if depth else [1, 2, 3, 4]))
        for _ in range(n):
            r = rng.random()
            if r < 0.30:
                out.append(ref_row(env_vars, depth))
            elif r < 0.42:
                out.append(router(env_vars))
            elif r < 0.55:
                out.append(split(env_vars))
            elif r < 0.65:
                out.append(plain_row())
            elif r < 0.85 and block_pool:
                b = rng.choice(block_pool)
                ins = {"t": "insert", "block": b, "data": None, "args": []}
                if use_data and rng.random() < 0.5:
                    ins["data"] = rng.choice([r_["ID"] for r_ in data_rows])
                if rng.random() < 0.5:
                    ins["args"] = [rng.choice(groups)]
                out.append(ins)
            elif r < 0.93 and depth < 2:
                out.append({"t": "group", "items": items(env_vars, depth + 1, block_pool)})
            elif depth < 2:
                vals = rng.sample(["1", "2", "3"], rng.choice([1, 2, 2, 3] if big else [1, 2]))
                body = items(env_vars, depth + 1, block_pool, n=rng.choice([1, 2]))
                if rng.random() < 0.6:
                    body.append({"t": "row", "type": rng.choice(["add_to_group", "remove_from_group"]), "name": "g{{x}}",
                                 "obj_id": rng.choice(["", designated("G", "g{{x}}")]), "include": ""})
                out.append({"t": "for", "var": "x", "values": vals, "items": body})
            else:
                out.append(plain_row())
        return out

    wb = {"malformed": malformed, "groups": groups, "data_rows": data_rows, "flow_defs": flow_defs, "blocks": {}, "flows": {}}
    # blocks may use the variables of a data row (when inserted with one) and their template argument `ga`;
    # a variable that is not provided would be a templating error (not C06's business), so a block declares
    # what it needs and is only inserted accordingly
    for i, b in enumerate(blocks):
        needs_data = use_data and rng.random() < 0.5
        env = (["grp", "gid", "flw", "fid"] if needs_data else []) + ["ga"]
        wb["blocks"][b] = {"needs_data": needs_data, "items": items(env, 1, blocks[i + 1:])}
    for fd in flow_defs:
        if fd["sheet"] not in wb["flows"]:
            env = ["grp", "gid", "flw", "fid"] if fd["data"] is not None else []
            wb["flows"][fd["sheet"]] = items(env, 0, blocks)
    # every insert of a block that needs a data row gets one
    def fix_inserts(its):
        for it in its:
            if it["t"] == "insert":
                if wb["blocks"][it["block"]]["needs_data"]:
                    it["data"] = it["data"] or rng.choice([r_["ID"] for r_ in data_rows])
                else:
                    it["data"] = it["data"] if use_data else None
            elif it["t"] in ("group", "for"):
                fix_inserts(it["items"])
    for b in wb["blocks"].values():
        fix_inserts(b["items"])
    for its in wb["flows"].values():
        fix_inserts(its)
    # flows that share a sheet with a data instantiation but are themselves plain would meet undefined variables:
    for fd in flow_defs:
        first = next(f for f in flow_defs if f["sheet"] == fd["sheet"])
        fd["data"] = first["data"] if (first["data"] is None) != (fd["data"] is None) else fd["data"]

    known_flows = defined + EXT_FLOWS
    camps = []
    for i in range(rng.choice([0, 0, 1, 2])):
        evs = []
        for _ in range(rng.choice([0, 1, 2])):
            ty = rng.choice(["F", "F", "M"])
            evs.append({"type": ty, "flow": rng.choice(known_flows) if (ty == "F" or rng.random() < 0.3) else ""})
        camps.append({"name": f"camp{i + 1}", "group": rng.choice(groups), "events": evs})
    wb["campaigns"] = camps
    trigs = []
    for _ in range(rng.choice([0, 0, 1, 2])):
        pool = defined if not (malformed and rng.random() < 0.3) else known_flows + ["ghost"]
        trigs.append({"flow": rng.choice(pool), "groups": rng.sample(groups, rng.choice([0, 1, min(2, len(groups))])),
                      "exclude": rng.sample(groups, rng.choice([0, 0, 1]))})
    wb["triggers"] = trigs
    wb["two_readers"] = bool(blocks) and rng.random() < 0.2
    wb["via_files"] = rng.random() < 0.06
    # P = ContentIndexParser.parse_all() (a new container), R = render() of the current container.
    # (CampaignParser objects live in the ContentIndexParser and parse() appends the events to the same Campaign
    # again: a second parse_all duplicates campaign events — not a matter of C06, see design.d/C06.md — so
    # histories with more than one P are generated for workbooks without campaigns only.)
    hist = [["P", "R"], ["P", "R"], ["P", "R", "R"], ["P", "R", "R", "R"]]
    if not camps:
        hist += [["P", "R", "P", "R"], ["P", "P", "R"], ["P", "R", "R", "P", "R"]]
    wb["ops"] = rng.choice(hist)
    return wb


# ------------------------------------------------------------------------------ abstract workbook -> sheets
def _cell_list(vals):
    vals = list(vals)
    if not vals:
        return ""
    if len(vals) == 1:
        return vals[0] + ";"
    return ";".join(vals)


class _Emit:
    """rows of one sheet; every row gets an explicit `from`"""

    def __init__(self):
        self.rows = []
        self.n = 0
        self.tail = ("start", "")       # (from, condition) the next row continues from
        self.plain_tail = True

    def rid(self):
        self.n += 1
        return f"r{self.n}"

    def add(self, **kw):
        row = {h: "" for h in FLOW_HEADERS}
        row.update(kw)
        self.rows.append(row)
        return row

    def sep(self):
        if not self.plain_tail:
            r = self.rid()
            self.add(row_id=r, type="send_message", **{"from": self.tail[0], "condition": self.tail[1]}, message_text="sep")
            self.tail, self.plain_tail = (r, ""), True

    def row(self, it, frm=None, ctype="", cvar=""):
        r = self.rid()
        frm = frm or self.tail
        kw = dict(row_id=r, type=it["type"], **{"from": frm[0], "condition": frm[1]}, include_if=it.get("include", ""),
                  obj_id=it["obj_id"], condition_type=ctype, condition_var=cvar)
        ty = it["type"]
        if ty in KIND_OF_ROW:
            kw["message_text"] = it["name"]
        elif ty == "wait_for_response":
            kw["message_text"] = ""
        else:
            kw["message_text"] = it["name"]
            if ty in ("save_value", "save_flow_result"):
                kw["save_name"] = "field"
        self.add(**kw)
        if it.get("include", "") == "FALSE":
            return None
        return (r, "completed") if ty == "start_new_flow" else (r, "")

    def items(self, its):
        for it in its:
            t = it["t"]
            if t == "row":
                if it.get("include", "") == "FALSE":
                    self.row(it)
                    continue
                tl = self.row(it)
                self.tail, self.plain_tail = tl, it["type"] != "start_new_flow"
            elif t == "split":
                self.sep()
                r = self.rid()
                self.add(row_id=r, type="split_by_group", **{"from": self.tail[0], "condition": self.tail[1]},
                         message_text=it["name"], obj_id=it["obj_id"])
                last = None
                for case, ch in it["children"]:
                    last = (self.row(ch, frm=(r, case)), ch["type"])
                self.tail, self.plain_tail = last[0], False
                self.sep()
            elif t == "router":
                self.sep()
                r = self.rid()
                rt = it["rtype"]
                self.add(row_id=r, type=rt, **{"from": self.tail[0], "condition": self.tail[1]}, obj_id=it["obj_id"],
                         message_text={"wait_for_response": "", "split_by_value": "@fields.age", "no_op": ""}.get(rt, it["name"]))
                last = (r, "")
                for cond, ctype, ch in it["children"]:
                    last = self.row(ch, frm=(r, cond), ctype=ctype, cvar=it["var"])
                self.tail, self.plain_tail = last, False
                self.sep()
            elif t == "insert":
                self.sep()
                r = self.rid()
                self.add(row_id=r, type="insert_as_block", **{"from": self.tail[0], "condition": ""}, message_text=it["block"],
                         data_sheet="ds1" if it["data"] else "", data_row_id=it["data"] or "",
                         template_arguments=_cell_list(it["args"]))
                self.tail, self.plain_tail = (r, ""), False
                self.sep()
            elif t == "group":
                self.sep()
                self.add(type="begin_block", **{"from": self.tail[0], "condition": ""})
                self.tail = ("", "")
                self.items([{"t": "row", "type": "send_message", "name": "in block", "obj_id": "", "include": ""}] + it["items"])
                self.sep()
                self.add(type="end_block")
                self.tail, self.plain_tail = ("", ""), False
                self.sep()
            elif t == "for":
                self.sep()
                self.add(type="begin_for", **{"from": self.tail[0], "condition": ""}, loop_variable=it["var"],
                         message_text=_cell_list(it["values"]))
                self.tail = ("", "")
                self.items([{"t": "row", "type": "send_message", "name": "in loop {{x}}", "obj_id": "", "include": ""}] + it["items"])
                self.sep()
                self.add(type="end_for")
                self.tail, self.plain_tail = ("", ""), False
                self.sep()


def sheet_rows(its):
    e = _Emit()
    e.items([{"t": "row", "type": "send_message", "name": "first", "obj_id": "", "include": ""}] + its)
    return e.rows


def flow_sheet(its):
    """(headers, rows) with only the columns the sheet uses (every cell costs the parser a template compilation)"""
    rows = sheet_rows(its)
    keep = ["row_id", "type", "from", "message_text"]
    headers = [h for h in FLOW_HEADERS if h in keep or any(r.get(h) for r in rows)]
    return headers, rows


def render_sheets(wb):
    """-> list of readers, each {sheet name: (headers, [row dict])}; later readers override earlier ones"""
    index = []
    if wb["data_rows"]:
        index.append(dict(type="data_sheet", sheet_name="ds1"))
    for b, bd in wb["blocks"].items():
        index.append(dict(type="template_definition", sheet_name=b, template_arguments="ga;;g1|"))
    for fd in wb["flow_defs"]:
        index.append(dict(type="create_flow", sheet_name=fd["sheet"], new_name=fd["new_name"],
                          data_sheet="ds1" if fd["data"] is not None else "",
                          data_row_id="" if fd["data"] in (None, "all") else fd["data"]))
    for c in wb["campaigns"]:
        index.append(dict(type="create_campaign", sheet_name=c["name"], group=c["group"]))
    if wb["triggers"]:
        index.append(dict(type="create_triggers", sheet_name="trig"))
    main = {"content_index": (INDEX_HEADERS, index)}
    if wb["data_rows"]:
        main["ds1"] = (["ID", "grp", "gid", "flw", "fid"], [dict(r) for r in wb["data_rows"]])
    for s, its in wb["flows"].items():
        main[s] = flow_sheet(its)
    blocks = {b: flow_sheet(bd["items"]) for b, bd in wb["blocks"].items()}
    for c in wb["campaigns"]:
        rows = []
        for e in c["events"]:
            rows.append(dict(offset="1", unit="H", event_type=e["type"], delivery_hour="", message="hi" if e["type"] == "M" else "",
                             relative_to="Created On", start_mode="I", flow=e["flow"], base_language=""))
        main[c["name"]] = (CAMPAIGN_HEADERS, rows)
    if wb["triggers"]:
        main["trig"] = (TRIGGER_HEADERS, [dict(type="K", keywords="kw" + str(i), flow=t["flow"], groups=_cell_list(t["groups"]),
                                                exclude_groups=_cell_list(t["exclude"]), channel="", match_type="")
                                           for i, t in enumerate(wb["triggers"])])
    if wb.get("two_readers") and blocks:
        # an earlier workbook holds an older version of the block templates (other references, other uuids) and its
        # own content index; the later workbook's sheets of the same name are the active ones
        old = {}
        for b in blocks:
            old[b] = flow_sheet([
                {"t": "row", "type": "add_to_group", "name": wb["groups"][0], "obj_id": "OLD-" + b, "include": ""},
                {"t": "split", "name": wb["groups"][-1], "obj_id": "OLD-S-" + b,
                 "children": [[wb["groups"][-1], {"t": "row", "type": "send_message", "name": "x", "obj_id": "", "include": ""}]]}])
        old["content_index"] = (INDEX_HEADERS, [dict(type="template_definition", sheet_name=b, template_arguments="ga;;g1|") for b in blocks])
        main.update(blocks)
        return [old, main]
    main.update(blocks)
    return [main]


# ------------------------------------------------------------------------------ expansion (independent of the parser)
def _subst(s, env):
    for k, v in env.items():
        s = s.replace("{{" + k + "}}", v)
    return s


def expand_items(wb, its, env, in_block, route):
    """-> list of model items: ["row", type, name, obj_id, [case names], in_block(bool), route] | ["block", [items]]"""
    out = []
    for it in its:
        t = it["t"]
        if t == "row":
            if it.get("include", "") == "FALSE":
                continue
            if it["type"] in KIND_OF_ROW:
                out.append(["row", it["type"], _subst(it["name"], env), _subst(it["obj_id"], env), [], in_block, route])
            else:
                out.append(["row", it["type"], "", "", [], in_block, route])
        elif t == "split":
            out.append(["row", "split_by_group", _subst(it["name"], env), _subst(it["obj_id"], env),
                        [_subst(c, env) for c, _ in it["children"]], in_block, route])
            out += expand_items(wb, [ch for _, ch in it["children"]], env, in_block, route)
        elif t == "router":
            tests = []
            for c, ct, _ in it["children"]:
                c = _subst(c, env)
                # SwitchRouter.add_choice: a case with the same type and arguments exists already -> only the
                # destination is updated ("{{grp}}" and a literal name may denote the same group)
                if ct == "has_group" and c not in tests:
                    tests.append(c)
            if it["rtype"] in KIND_OF_ROW:
                out.append(["row", it["rtype"], _subst(it["name"], env), _subst(it["obj_id"], env), tests, in_block, route])
            else:
                out.append(["row", it["rtype"], "", "", tests, in_block, route])
            out += expand_items(wb, [ch for _, _, ch in it["children"]], env, in_block, route)
        elif t == "insert":
            benv = {}
            if it["data"]:
                dr = next(r for r in wb["data_rows"] if r["ID"] == it["data"])
                benv.update({k: v for k, v in dr.items()})
            benv["ga"] = it["args"][0] if it["args"] else "g1"
            inner = [["row", "send_message", "", "", [], True, route + "/insert"]] \
                + expand_items(wb, wb["blocks"][it["block"]]["items"], benv, True, route + "/insert")
            out.append(["block", inner])
        elif t == "group":
            out.append(["row", "send_message", "", "", [], in_block, route])
            out += expand_items(wb, it["items"], env, in_block, route + "/begin_block")
        elif t == "for":
            for v in it["values"]:
                e2 = dict(env)
                e2[it["var"]] = v
                out.append(["row", "send_message", "", "", [], in_block, route])
                out += expand_items(wb, it["items"], e2, in_block, route + "/for")
    return out


def expand(wb):
    """-> dict(flows=[(flow name, [items])] in parse order, campaigns, triggers)"""
    flows = []
    for fd in wb["flow_defs"]:
        base = fd["new_name"] or fd["sheet"]
        its = wb["flows"][fd["sheet"]]
        if fd["data"] is None:
            insts = [(base, {}, "sheet")]
        else:
            rows = wb["data_rows"] if fd["data"] == "all" else [r for r in wb["data_rows"] if r["ID"] == fd["data"]]
            insts = [(f"{base} - {r['ID']}", dict(r), "sheet+data") for r in rows]
        for name, env, route in insts:
            flows.append((name, [["row", "send_message", "", "", [], False, route]] + expand_items(wb, its, env, False, route)))
    camps = [{"group": c["group"], "events": [{"type": e["type"], "flow": e["flow"] or None} for e in c["events"]]} for c in wb["campaigns"]]
    return dict(flows=flows, campaigns=camps, triggers=[dict(t) for t in wb["triggers"]])


def all_rows(items, acc=None):
    acc = [] if acc is None else acc
    for it in items:
        if it[0] == "row":
            acc.append(it)
        else:
            all_rows(it[1], acc)
    return acc


# ------------------------------------------------------------------------------ implementation
class _MemReader:
    """an in-memory sheet reader (what CSVSheetReader holds after loading)"""

    def __init__(self, name, sheets):
        import tablib
        from rpft.parsers.sheets import Sheet
        self.name = name
        self._sheets = {}
        for sname, (headers, rows) in sheets.items():
            t = tablib.Dataset()
            t.headers = list(headers)
            for r in rows:
                t.append([r.get(h, "") or "" for h in headers])
            self._sheets[sname] = Sheet(reader=self, name=sname, table=t)

    def get_sheets_by_name(self, name):
        s = self._sheets.get(name)
        return [s] if s else []


def make_parser(readers, via_files=False):
    """-> (ContentIndexParser, scratch dir or None)"""
    from rpft.parsers.creation.contentindexparser import ContentIndexParser
    from rpft.parsers.creation.tagmatcher import TagMatcher
    from rpft.parsers.sheets import CompositeSheetReader
    if via_files:
        import flowutil
        from rpft import converters
        d = tempfile.mkdtemp(prefix="rpftc06")
        paths = []
        for i, sheets in enumerate(readers):
            p = os.path.join(d, f"book{i}")
            os.mkdir(p)
            for name, (headers, rows) in sheets.items():
                flowutil.write_csv(os.path.join(p, name + ".csv"), headers, [{k: (v or "") for k, v in r.items()} for r in rows])
            paths.append(p)
        try:
            return converters.get_content_index_parser(paths, "csv", None, []), d
        except BaseException:
            shutil.rmtree(d, ignore_errors=True)
            raise
    comp = CompositeSheetReader([_MemReader(f"book{i}", sheets) for i, sheets in enumerate(readers)])
    return ContentIndexParser(comp, None, TagMatcher([])), None


def run_impl(wb):
    """-> dict(renders=[doc...], stop=None|(op index, error class), render_ops=[op index of each render])"""
    readers = render_sheets(wb)
    res = dict(renders=[], render_ops=[], stop=None, containers=0)
    scratch = None
    try:
        r = run_cli_mode(make_parser, readers, wb.get("via_files", False))
        if r[0] != "ok":
            res["stop"] = (-1, r[1], r[2])
            return res
        parser, scratch = r[1]
        cont = None
        for i, o in enumerate(wb["ops"]):
            if o == "P":
                r = run_cli_mode(parser.parse_all)
                if r[0] == "ok":
                    cont = r[1]
                    res["containers"] += 1
            else:
                r = run_cli_mode(cont.render)
                if r[0] == "ok":
                    res["renders"].append(copy.deepcopy(r[1]))
                    res["render_ops"].append(i)
            if r[0] != "ok":
                res["stop"] = (i, r[1], r[2])
                break
    finally:
        if scratch:
            shutil.rmtree(scratch, ignore_errors=True)
    return res


# ------------------------------------------------------------------------------ the property on the implementation
def explicit_sources(ex):
    """(kind, name) -> {uuid: [(row type, route, in_block)]}; flow definitions are sources of their own (their
    uuid is not known before the run: marked None)"""
    src = {}
    for fname, items in ex["flows"]:
        for it in all_rows(items):
            _, ty, name, oid, _, in_block, route = it
            if ty in KIND_OF_ROW and oid:
                src.setdefault((KIND_OF_ROW[ty], name), {}).setdefault(oid, []).append((ty, route, in_block))
    return src


def lost_key(prefix, lost):
    """finding class of a set of ignored sources [(row type, route, in_block)]"""
    if all(b for _, _, b in lost):
        return "block-objid-lost:" + "+".join(sorted(set(t for t, _, _ in lost)))
    return prefix + ":" + "+".join(sorted(set(f"{t}@{'block' if b else 'sheet'}" for t, _, b in lost)))


def doc_bindings(doc, bad, label):
    import c06
    occ = c06.occs_generic(doc, [])
    bind = {}
    for k, n, u, where in occ:
        if not u:
            bad.append(("missing-uuid", f"{label}: {k} {n!r} has uuid {u!r} at a {where}"))
        if (k, n) in bind and bind[(k, n)] != u:
            bad.append(("inconsistent-uuid", f"{label}: {k} {n!r} carries {bind[(k, n)]!r} and {u!r} ({where})"))
        bind.setdefault((k, n), u)
    top = [g["name"] for g in doc["groups"]]
    for k, n, u, where in occ:
        if k == "G" and top.count(n) != 1:
            bad.append(("group-not-listed-once", f"{label}: group {n!r} ({where}) occurs {top.count(n)} times in the top-level list"))
    return bind


def canon_doc(doc, explicit_uuids):
    """the document with every uuid that is not an explicit one replaced by its rank of first appearance
    (node, exit, category, action uuids are invented on every parse)"""
    seen = {}

    def go(x, key=None):
        if isinstance(x, dict):
            return {k: go(v, k) for k, v in x.items()}
        if isinstance(x, list):
            return [go(v, key) for v in x]
        if isinstance(x, str) and len(x) == 36 and x.count("-") == 4 and x not in explicit_uuids:
            return "#%d" % seen.setdefault(x, len(seen))
        return x
    d = go(doc)
    # `_ui` is keyed by node uuid
    for f in d.get("flows", []):
        ui = f.get("_ui", {}).get("nodes")
        if isinstance(ui, dict):
            f["_ui"]["nodes"] = {("#%d" % seen[k] if k in seen else k): v for k, v in ui.items()}
    return d


def oracle(wb, res, ex=None):
    """-> list of (key, summary)"""
    bad = []
    ex = ex or expand(wb)
    src = explicit_sources(ex)
    defined = [n for n, _ in ex["flows"]]
    flow_refs = set()
    for fname, items in ex["flows"]:
        for it in all_rows(items):
            if it[1] == "start_new_flow":
                flow_refs.add(it[2])
    for c in ex["campaigns"]:
        for e in c["events"]:
            flow_refs.add(e["flow"])
    recorded_flows = set(n for (k, n) in src if k == "F")
    unknown = [t["flow"] for t in ex["triggers"] if t["flow"] not in defined and t["flow"] not in flow_refs]
    # a trigger flow that only an obj_id record mentions counts as known (DESIGN: "unknown to the container")
    conflicts = {kn: us for kn, us in src.items() if len(us) > 1}
    # a start_new_flow obj_id for a flow the workbook defines competes with the definition's own uuid
    def_conflicts = [(k, n) for (k, n) in src if k == "F" and n in defined]
    stop = res["stop"]
    ri = 0
    docs_of_parse = []
    for i, o in enumerate(wb["ops"]):
        if stop is not None and stop[0] <= i:
            break
        if o == "P":
            continue
        doc = res["renders"][ri]
        ri += 1
        label = f"render #{ri}"
        bind = doc_bindings(doc, bad, label)
        for (k, n), us in src.items():
            if (k, n) in conflicts or (k, n) in def_conflicts:
                continue
            u = next(iter(us))
            if (k, n) in bind and bind[(k, n)] != u:
                bad.append((lost_key("sheet-explicit-overridden", us[u]),
                            f"{label}: the sheets give {k} {n!r} the uuid {u!r} (obj_id of {sorted(set(t for t, _, _ in us[u]))}, "
                            f"routes {sorted(set(r for _, r, _ in us[u]))}) but the container renders {bind[(k, n)]!r}"))
        for (k, n), us in conflicts.items():
            b = bind.get((k, n))
            lost = [s for u, ss in us.items() if u != b for s in ss]
            bad.append((lost_key("sheet-conflict-accepted", lost),
                        f"{label} succeeded although the sheets give {k} {n!r} the uuids {sorted(us)} "
                        f"(rendered: {b!r}; ignored obj_id of {sorted(set((t, r) for t, r, _ in lost))})"))
        for (k, n) in def_conflicts:
            if (k, n) in conflicts:
                continue
            b = bind.get((k, n))
            us = src[(k, n)]
            u = next(iter(us))
            if b != u:
                bad.append((lost_key("sheet-conflict-accepted", us[u]),
                            f"{label} succeeded although start_new_flow rows give the defined flow {n!r} the uuid {u!r} "
                            f"and its definition has {b!r}"))
        if unknown:
            unk = [n for n in unknown if n not in recorded_flows]
            if unk:
                bad.append(("unknown-trigger-flow-accepted", f"{label} succeeded although a trigger names flow {unk[0]!r}, "
                            "which no flow sheet, start_new_flow row or campaign event mentions"))
        docs_of_parse.append((i, doc))
    # history independence: every render of the history is the same document up to invented uuids
    expl = set(u for us in src.values() for u in us)
    canon = [(i, canon_doc(d, expl)) for i, d in docs_of_parse]
    for (i, a), (j, b) in zip(canon, canon[1:]):
        if a != b:
            same_container = all(o == "R" for o in wb["ops"][i:j + 1])
            bad.append(("render-not-idempotent" if same_container else "parse-all-history-dependent",
                        f"operation #{j} renders another document than operation #{i} "
                        f"({'same container' if same_container else 'a later parse_all of the same ContentIndexParser'})"))
            break
    return bad


# ------------------------------------------------------------------------------ request to the model
def enc_name(n):
    import c06
    return c06.enc_name(n)


def enc_item(it):
    import c06
    if it[0] == "block":
        return "(1 " + c06.enc_l(enc_item(x) for x in it[1]) + ")"
    _, ty, name, oid, cases = it[:5]
    return "(0 " + enc_str(ty) + " " + enc_str(name) + " " + c06.enc_u(oid) + " " + c06.enc_l(enc_str(c) for c in cases) + ")"


def enc_wb(ex):
    import c06
    fl = c06.enc_l("(" + enc_str(n) + " " + c06.enc_l(enc_item(x) for x in its) + ")" for n, its in ex["flows"])
    cs = c06.enc_l(c06.enc_campaign({"events": [{"type": e["type"], "flow": [e["flow"], None]} for e in c["events"]],
                                      "group": [c["group"], None]}) for c in ex["campaigns"])
    ts = c06.enc_l(c06.enc_trigger({"flow": [t["flow"], None], "groups": [[g, None] for g in t["groups"]],
                                     "exclude": [[g, None] for g in t["exclude"]]}) for t in ex["triggers"])
    return "(" + fl + " " + cs + " " + ts + ")"


def describe(wb):
    return json.dumps(wb, ensure_ascii=False)


def enc_ops_wb(wb, ex):
    w = enc_wb(ex)
    return "(106 3 (" + " ".join("(7 " + w + ")" if o == "P" else "(5)" for o in wb["ops"]) + "))"


def compare_trace(ops_kinds, res, snaps, mstop, explicit):
    """ops_kinds: per operation 'new' (a new container starts: invented uuids are unrelated to earlier ones),
    'render' or 'other'.  -> None or (what, model, impl)"""
    import c06
    istop = res["stop"]
    if istop is not None and istop[0] < 0:
        return ("the implementation could not even read the content index", "-", repr(istop))
    ist = None if istop is None else (istop[0], istop[1])
    if (mstop is None) != (ist is None) or (mstop is not None and (mstop[0] != ist[0] or mstop[1] != ist[1])):
        return ("where/how the history stops", repr(mstop), repr(istop))
    if len(snaps) != len(res["renders"]):
        return ("number of successful renders", len(snaps), len(res["renders"]))
    fresh_of, inv_of = {}, {}
    si = 0
    for oi, kind in enumerate(ops_kinds):
        if istop is not None and oi >= istop[0]:
            break
        if kind == "new":
            fresh_of, inv_of = {}, {}
        if kind != "render":
            continue
        (mocc, vis), doc = snaps[si], res["renders"][si]
        si += 1
        m = [o for o, v in zip(mocc, vis) if v]
        im = c06.occs_in_order(doc)
        if [(k, n) for k, n, _ in m] != [(k, n) for k, n, _ in im]:
            return (f"render #{si}: occurrence names", repr([(k, n) for k, n, _ in m]), repr([(k, n) for k, n, _ in im]))
        for (k, n, mu), (_, _, iu) in zip(m, im):
            if mu is None:
                ok = iu is None
            elif mu[0] == "given":
                ok = iu == mu[1]
            else:
                ok = isinstance(iu, str) and iu not in explicit and fresh_of.setdefault(mu[1], iu) == iu \
                    and inv_of.setdefault(iu, mu[1]) == mu[1] and len(iu) == 36
            if not ok:
                return (f"render #{si}: uuid of {k} {n!r}", repr(mu), repr(iu))
    return None


# ------------------------------------------------------------------------------ FlowParser-level histories
# One long-lived RapidProContainer; the flow sheets of the workbook are parsed INTO it one after the other with
# FlowParser(container, name, table, context, content_index_parser).parse() (the API the tests use), mixed with
# record_group_uuid / record_flow_uuid / add_campaign / add_trigger / render.
def instantiations(wb):
    """[(flow name, sheet, data row id | None)] in content-index order"""
    out = []
    for fd in wb["flow_defs"]:
        base = fd["new_name"] or fd["sheet"]
        if fd["data"] is None:
            out.append((base, fd["sheet"], None))
        else:
            rows = wb["data_rows"] if fd["data"] == "all" else [r for r in wb["data_rows"] if r["ID"] == fd["data"]]
            out += [(f"{base} - {r['ID']}", fd["sheet"], r["ID"]) for r in rows]
    return out


def gen_hist(rng, wb):
    """-> list of operations on one container"""
    malformed = wb["malformed"]
    insts = []
    for i, inst in enumerate(instantiations(wb)):
        if inst[0] not in [x[1] for x in insts]:
            insts.append(["pf", inst[0], i])
    pre = []
    for _ in range(rng.choice([0, 0, 1, 2])):
        if rng.random() < 0.5:
            n = rng.choice(wb["groups"])
            pre.append(["rg", n, rng.choice([designated("G", n), "", None] + (UPOOL if malformed else []))])
        else:
            n = rng.choice(EXT_FLOWS)
            pre.append(["rf", n, rng.choice([designated("F", n), "", None] + (UPOOL if malformed else []))])
    body = pre + insts + [["ac", i] for i in range(len(wb["campaigns"]))]
    rng.shuffle(body)
    trig_ops = [["at", i] for i in range(len(wb["triggers"]))]
    if malformed:
        for t in trig_ops:
            body.insert(rng.randint(0, len(body)), t)
    else:
        body += trig_ops
    n_render = rng.choice([1, 2, 2, 3])
    cut = sorted(rng.randint(0, len(body)) for _ in range(n_render - 1))
    ops, prev = [], 0
    for c in cut:
        ops += body[prev:c] + [["render"]]
        prev = c
    ops += body[prev:] + [["render"]]
    if rng.random() < 0.4:
        ops.append(["render"])
    return ops


def run_impl_hist(wb, ops):
    from rpft.parsers.creation.flowparser import FlowParser
    from rpft.rapidpro.models.containers import RapidProContainer
    readers = render_sheets(wb)
    res = dict(renders=[], stop=None, flow_uuids={})
    r = run_cli_mode(make_parser, readers, False)
    if r[0] != "ok":
        res["stop"] = (-1, r[1], r[2])
        return res
    cip, _ = r[1]
    cont = RapidProContainer()
    insts = instantiations(wb)
    trigs = None

    def parse_flow(name, sheet, rid):
        ts = cip.get_template_sheet(sheet)
        ctx = dict(cip.get_data_sheet_row("ds1", rid)) if rid else {}
        ctx = cip.map_template_arguments_to_context(ts.argument_definitions, [], ctx)
        flow = FlowParser(cont, name, ts.table, context=ctx, content_index_parser=cip).parse()
        return flow.uuid

    for i, o in enumerate(ops):
        if o[0] == "pf":
            r = run_cli_mode(parse_flow, *insts[o[2]])
            if r[0] == "ok":
                res["flow_uuids"][o[1]] = r[1]
        elif o[0] == "rg":
            r = run_cli_mode(cont.record_group_uuid, o[1], o[2])
        elif o[0] == "rf":
            r = run_cli_mode(cont.record_flow_uuid, o[1], o[2])
        elif o[0] == "ac":
            name = wb["campaigns"][o[1]]["name"]
            r = run_cli_mode(lambda: cont.add_campaign(cip.campaign_parsers[name][1].parse()))
        elif o[0] == "at":
            def add_trigger(j=o[1]):
                nonlocal trigs
                if trigs is None:
                    trigs = [t for _, tp in cip.trigger_parsers.values() for t in tp.parse()]
                cont.add_trigger(trigs[j])
            r = run_cli_mode(add_trigger)
        else:
            r = run_cli_mode(cont.render)
            if r[0] == "ok":
                res["renders"].append(copy.deepcopy(r[1]))
        if r[0] != "ok":
            res["stop"] = (i, r[1], r[2])
            break
    return res


def enc_ops_hist(wb, ex, ops):
    import c06
    out = []
    for o in ops:
        if o[0] == "pf":
            name, its = ex["flows"][o[2]]
            out.append("(6 (" + enc_str(name) + " " + c06.enc_l(enc_item(x) for x in its) + "))")
        elif o[0] == "rg":
            out.append("(0 " + enc_str(o[1]) + " " + c06.enc_u(o[2]) + ")")
        elif o[0] == "rf":
            out.append("(1 " + enc_str(o[1]) + " " + c06.enc_u(o[2]) + ")")
        elif o[0] == "ac":
            c = ex["campaigns"][o[1]]
            out.append("(3 " + c06.enc_campaign({"events": [{"type": e["type"], "flow": [e["flow"], None]} for e in c["events"]],
                                                "group": [c["group"], None]}) + ")")
        elif o[0] == "at":
            t = ex["triggers"][o[1]]
            out.append("(4 " + c06.enc_trigger({"flow": [t["flow"], None], "groups": [[g, None] for g in t["groups"]],
                                               "exclude": [[g, None] for g in t["exclude"]]}) + ")")
        else:
            out.append("(5)")
    return "(106 3 (" + " ".join(out) + "))"


def oracle_hist(wb, ops, res, ex=None):
    """the property along a history on ONE container -> list of (key, summary)"""
    bad = []
    ex = ex or expand(wb)
    src = {}            # (kind, name) -> {uuid: [(what, route, in_block)]}
    flows_known = set()
    defined = {}
    triggers = []
    stop = res["stop"]
    if stop is not None and stop[0] < 0:
        return bad
    ri = 0
    prev_doc, prev_bind = None, {}

    def note(k, n, u, d):
        if u:
            src.setdefault((k, n), {}).setdefault(u, []).append(d)

    for i, o in enumerate(ops):
        if stop is not None and stop[0] == i:
            return bad               # an error is a rejection: nothing more to observe
        if o[0] == "rg":
            note("G", o[1], o[2], ("record_group_uuid", "api", False))
        elif o[0] == "rf":
            note("F", o[1], o[2], ("record_flow_uuid", "api", False))
            flows_known.add(o[1])
        elif o[0] == "pf":
            name, its = ex["flows"][o[2]]
            defined[name] = res["flow_uuids"].get(name)
            note("F", name, defined[name], ("flow definition", "api", False))
            flows_known.add(name)
            for it in all_rows(its):
                _, ty, n, oid, _, in_block, route = it
                if ty in KIND_OF_ROW:
                    note(KIND_OF_ROW[ty], n, oid, (ty, route, in_block))
                if ty == "start_new_flow":
                    flows_known.add(n)
        elif o[0] == "ac":
            for e in ex["campaigns"][o[1]]["events"]:
                flows_known.add(e["flow"])
        elif o[0] == "at":
            triggers.append(ex["triggers"][o[1]])
        if o[0] != "render":
            prev_doc = None
            continue
        doc = res["renders"][ri]
        ri += 1
        label = f"render #{ri}"
        bind = doc_bindings(doc, bad, label)
        conflicts = {kn: us for kn, us in src.items() if len(us) > 1}
        for (k, n), us in src.items():
            if (k, n) in conflicts:
                continue
            u = next(iter(us))
            if (k, n) in bind and bind[(k, n)] != u:
                bad.append((lost_key("sheet-explicit-overridden", us[u]),
                            f"{label}: {k} {n!r} was given the uuid {u!r} ({sorted(set((t, r) for t, r, _ in us[u]))}) "
                            f"but the container renders {bind[(k, n)]!r}"))
        for (k, n), us in conflicts.items():
            b = bind.get((k, n))
            lost = [s for u, ss in us.items() if u != b for s in ss]
            bad.append((lost_key("sheet-conflict-accepted", lost),
                        f"{label} succeeded although {k} {n!r} was given the uuids {sorted(us)} "
                        f"(rendered: {b!r}; ignored: {sorted(set((t, r) for t, r, _ in lost))})"))
        unk = [t["flow"] for t in triggers if t["flow"] not in flows_known]
        if unk:
            bad.append(("unknown-trigger-flow-accepted", f"{label} succeeded although a trigger names flow {unk[0]!r}, "
                        "which nothing parsed or recorded so far mentions"))
        for key, u in prev_bind.items():
            if key in bind and bind[key] != u:
                bad.append(("uuid-changed-between-renders", f"{label}: {key[0]} {key[1]!r} had {u!r}, now {bind[key]!r}"))
        if prev_doc is not None and prev_doc != doc:
            bad.append(("render-not-idempotent", f"{label} differs from the render before it with no operation in between"))
        prev_bind.update(bind)
        prev_doc = doc
        for (k, n), u in bind.items():
            if u and not ((k, n) in src and u in src[(k, n)]):
                # what a render bound is explicit for everything that follows
                if (k, n) not in src:
                    src.setdefault((k, n), {}).setdefault(u, []).append(("rendered", "api", False))
        for t in triggers:
            flows_known.add(t["flow"])
    return bad


# ------------------------------------------------------------------------------ directed workbooks
ROUTES = ["sheet", "begin_block", "for", "data", "insert", "insert-nested", "insert-data", "insert-arg", "insert-in-for"]


def directed_wbs():
    """every reference row type x every route by which a row reaches a FlowParser x (the obj_id is the only explicit
    uuid of its name | another sheet gives the same name another uuid)"""
    out = []
    plain = {"t": "row", "type": "send_message", "name": "x", "obj_id": "", "include": ""}
    for ty in REF_ROW_TYPES:
        kind = KIND_OF_ROW[ty]
        name = "g1" if kind == "G" else "ext1"
        u = designated(kind, name)
        for route in ROUTES:
            if route == "insert-arg" and kind != "G":
                continue
            for mode in ("only", "conflict"):
                templ = route in ("data", "insert-data")
                nm = ("{{grp}}" if kind == "G" else "{{flw}}") if templ else "{{ga}}" if route == "insert-arg" else name
                oid = ("{{gid}}" if kind == "G" else "{{fid}}") if templ else u
                if ty == "split_by_group":
                    item = {"t": "split", "name": nm, "obj_id": oid, "children": [[nm, dict(plain)]]}
                else:
                    item = {"t": "row", "type": ty, "name": nm, "obj_id": oid, "include": ""}
                wb = {"malformed": mode == "conflict", "groups": ["g1"], "blocks": {}, "flows": {}, "campaigns": [], "triggers": [],
                      "data_rows": [{"ID": "r1", "grp": "g1", "gid": designated("G", "g1"), "flw": "ext1", "fid": designated("F", "ext1")}]
                      if templ else [],
                      "flow_defs": [{"sheet": "fa", "data": "r1" if route == "data" else None, "new_name": ""},
                                    {"sheet": "fb", "data": None, "new_name": ""}],
                      "two_readers": False, "via_files": False, "ops": ["P", "R", "R"], "directed": f"{ty}/{route}/{mode}"}
                if route in ("sheet", "data"):
                    fa = [item]
                elif route == "begin_block":
                    fa = [{"t": "group", "items": [item]}]
                elif route == "for":
                    fa = [{"t": "for", "var": "x", "values": ["1", "2"], "items": [item]}]
                else:
                    ins = {"t": "insert", "block": "blk1", "data": "r1" if route == "insert-data" else None,
                           "args": ["g1"] if route == "insert-arg" else []}
                    fa = [{"t": "for", "var": "x", "values": ["1", "2"], "items": [ins]}] if route == "insert-in-for" else [ins]
                    if route == "insert-nested":
                        wb["blocks"]["blk1"] = {"needs_data": False, "items": [{"t": "insert", "block": "blk2", "data": None, "args": []}]}
                        wb["blocks"]["blk2"] = {"needs_data": False, "items": [item]}
                    else:
                        wb["blocks"]["blk1"] = {"needs_data": route == "insert-data", "items": [item]}
                wb["flows"]["fa"] = fa
                other = "OTHER-id" if mode == "conflict" else ""
                if kind == "G":
                    wb["flows"]["fb"] = [{"t": "row", "type": "remove_from_group" if ty == "add_to_group" else "add_to_group",
                                          "name": "g1", "obj_id": other, "include": ""},
                                         {"t": "split", "name": "g1", "obj_id": "", "children": [["g1", dict(plain)]]}]
                    wb["campaigns"] = [{"name": "camp1", "group": "g1", "events": [{"type": "F", "flow": "fa"}]}]
                    wb["triggers"] = [{"flow": "fa", "groups": ["g1"], "exclude": ["g1"]}]
                else:
                    wb["flows"]["fb"] = [{"t": "row", "type": "start_new_flow", "name": "ext1", "obj_id": other, "include": ""}]
                    wb["campaigns"] = [{"name": "camp1", "group": "g1", "events": [{"type": "F", "flow": "ext1"}]}]
                    wb["triggers"] = [{"flow": "ext1", "groups": [], "exclude": []}]
                out.append(wb)
    return out


def directed_test_wbs():
    """a has_group condition on an edge leaving every kind of row x every route x (the test is the only mention of the
    group | an add_to_group row of another sheet gives the group an obj_id, campaign and trigger name it too)"""
    out = []
    plain = {"t": "row", "type": "send_message", "name": "x", "obj_id": "", "include": ""}
    for rtype in ROUTER_ROW_TYPES:
        for route in ("sheet", "begin_block", "for", "insert", "insert-nested", "insert-in-for"):
            for mode in ("only", "explicit"):
                item = {"t": "router", "rtype": rtype, "var": "@fields.age" if rtype == "no_op" else "",
                        "name": "g2" if rtype == "add_to_group" else "text", "obj_id": "",
                        "children": [["yes", "", dict(plain)], ["g1", "has_group", dict(plain)]]}
                wb = {"malformed": False, "groups": ["g1", "g2"], "blocks": {}, "flows": {}, "campaigns": [], "triggers": [],
                      "data_rows": [], "flow_defs": [{"sheet": "fa", "data": None, "new_name": ""}, {"sheet": "fb", "data": None, "new_name": ""}],
                      "two_readers": False, "via_files": False, "ops": ["P", "R", "R"], "directed": f"has_group-edge@{rtype}/{route}/{mode}"}
                if route == "sheet":
                    fa = [item]
                elif route == "begin_block":
                    fa = [{"t": "group", "items": [item]}]
                elif route == "for":
                    fa = [{"t": "for", "var": "x", "values": ["1", "2"], "items": [item]}]
                else:
                    ins = {"t": "insert", "block": "blk1", "data": None, "args": []}
                    fa = [{"t": "for", "var": "x", "values": ["1", "2"], "items": [ins]}] if route == "insert-in-for" else [ins]
                    if route == "insert-nested":
                        wb["blocks"]["blk1"] = {"needs_data": False, "items": [{"t": "insert", "block": "blk2", "data": None, "args": []}]}
                        wb["blocks"]["blk2"] = {"needs_data": False, "items": [item]}
                    else:
                        wb["blocks"]["blk1"] = {"needs_data": False, "items": [item]}
                wb["flows"]["fa"] = fa
                if mode == "explicit":
                    wb["flows"]["fb"] = [{"t": "row", "type": "add_to_group", "name": "g1", "obj_id": designated("G", "g1"), "include": ""}]
                    wb["campaigns"] = [{"name": "camp1", "group": "g1", "events": [{"type": "F", "flow": "fa"}]}]
                    wb["triggers"] = [{"flow": "fa", "groups": ["g1"], "exclude": []}]
                else:
                    wb["flows"]["fb"] = [dict(plain)]
                out.append(wb)
    return out


def route_class(route, in_block):
    """coarse label of a route for the statistics"""
    parts = route.split("/")
    lab = "block" if in_block else "sheet"
    if parts.count("insert") > 1:
        lab += "+nested"
    if "sheet+data" in parts:
        lab += "+datarows"
    if "for" in parts or "begin_block" in parts:
        lab += "+loop/begin_block"
    return lab
