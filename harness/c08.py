"""C08 — cell syntax.  Correspondence E1 <-> CellParser (exhaustive small scope + random),
and the property's own oracle evaluated on the implementation."""
import itertools

import c08_sessions
from common import enc_str, enc_list, parse_sexp, dec_str, run_cli_mode

LEVEL = "proof"
ALPHA = ["|", ";", "\\", " ", "a", "\x01", "\n"]


# ---- encodings -------------------------------------------------------------------
def enc_nv(v):
    if isinstance(v, str):
        return "(0 " + enc_str(v) + ")"
    return "(1 (" + " ".join(enc_nv(x) for x in v) + "))"


def dec_nv(x):
    if x[0] == 0:
        return dec_str(x[1])
    return [dec_nv(y) for y in x[1]]


def dec_split(x):
    if x[0] == 0:
        return dec_str(x[1])
    return [dec_str(y) for y in x[1]]


# ---- reference notions written from the property text (trusted, small) --------------
def trim(v):
    return v.strip() if isinstance(v, str) else [trim(x) for x in v]


def depth(v):
    return 0 if isinstance(v, str) else 1 + max([depth(x) for x in v], default=0)


def strings_of(v):
    if isinstance(v, str):
        yield v
    else:
        for x in v:
            yield from strings_of(x)


def wf(v, tmp=None):
    """depth <= 2, lists non-empty, a list of >= 2 elements does not end in ''; and, when the code's
    cleanse goes through a temporary character tmp (the model's cleanse_tmp, regenerated from the code;
    None on a tree with the one-pass un-escape), no string contains it"""
    def str_ok(s):
        return tmp is None or tmp not in s

    def last_ok(l):
        return len(l) < 2 or l[-1] != ""

    def elem_ok(e):
        if isinstance(e, str):
            return str_ok(e)
        return len(e) > 0 and last_ok(e) and all(isinstance(x, str) and str_ok(x) for x in e)

    if isinstance(v, str):
        return str_ok(v)
    return len(v) > 0 and last_ok(v) and all(elem_ok(e) for e in v)


def wf_statement(v):
    """the domain of the property statement: no condition on the strings"""
    return wf(v, tmp=None)


def subst_nv(v, a, b):
    return v.replace(a, b) if isinstance(v, str) else [subst_nv(x, a, b) for x in v]


def u1_key(r, other):
    """class of a failure on the replay record r: the finding "value-contains-U+0001" (the temporary character of
    the three-replace cleanse) when the input contains U+0001 AND the same input with every U+0001 replaced by an
    ordinary letter satisfies the property, i.e. U+0001 is the cause; otherwise the failure is its own class"""
    vals = [x for k, x in r.items() if k != "fn"]
    if not any("\x01" in s for x in vals for s in strings_of(x)):
        return other
    r2 = {k: (x if k == "fn" else subst_nv(x, "\x01", "a")) for k, x in r.items()}
    try:
        return "value-contains-U+0001" if holds(r2) else other
    except Exception:
        return other


def has_unescaped(s, seps="|;"):
    i = 0
    while i < len(s):
        if s[i] == "\\":
            i += 2
            continue
        if s[i] in seps:
            return True
        i += 1
    return False


def ends_escaped(s):
    i = 0
    while i < len(s):
        if s[i] == "\\":
            if i + 1 >= len(s):
                return True
            i += 2
        else:
            i += 1
    return False


RAISED = "<raised>"


def safe(fn, *a):
    """implementation call that may raise on a mutated tree: the exception becomes a value no oracle accepts"""
    try:
        return fn(*a)
    except Exception as e:
        return (RAISED, type(e).__name__)


def inert_expect(cp, lpre, rpost, d):
    shape = cp.split_into_lists(lpre + "Q" + rpost)
    return trim(subst(shape, "Q", d))


def subst(v, a, b):
    return v.replace(a, b) if isinstance(v, str) else [subst(x, a, b) for x in v]


# ---- value generators ----------------------------------------------------------------
POOL = ["", "a", " ", "|", ";", "\\", "a|b", " a ", "\\;", "b\\", "é", "\n", "\x01", "x;y|z", "\\\\|", "a\x01b", "\\\x01", "\x01;\x01|"]


def rand_str(rng, maxlen=6):
    n = rng.choice([0, 1, 1, 2, 3, 4, maxlen])
    al = ALPHA + ["b", "é", "　", "\t", "😀"]
    return "".join(rng.choice(al) for _ in range(n))


def rand_nv(rng, d, wf_bias=True):
    if d == 0 or rng.random() < 0.3:
        return rng.choice(POOL) if rng.random() < 0.5 else rand_str(rng)
    n = rng.choice([0, 1, 1, 2, 2, 3, 4]) if not wf_bias else rng.choice([1, 1, 2, 2, 3, 4])
    l = [rand_nv(rng, d - 1, wf_bias) for _ in range(n)]
    if wf_bias and len(l) >= 2 and l[-1] == "":
        l[-1] = "z"
    return l


def run(ctx):
    from rpft.parsers.common.cellparser import CellParser

    cp = CellParser()
    seps = CellParser.SEPARATORS
    v = ctx.v
    rng = ctx.rng
    thorough = ctx.tier == "thorough"
    m = ctx.model

    # which un-escape does the code have?  The model follows the regenerated constant cleanse_tmp
    # (Some t: three replaces through t; None: one pass).  Its value only steers the correspondence of
    # wfb and the alphabet (a temporary character other than U+0001 must be exercised too); the ORACLE
    # never looks at it: U+0001 and every other character are ordinary values of the statement.
    tmp = None
    alpha = list(ALPHA)
    if m:
        t = parse_sexp(m.ask("(1 10)"))
        tmp = chr(t[0]) if t else None
        if tmp is not None and tmp not in alpha:
            alpha.append(tmp)
    ctx.stats["model_cleanse_tmp"] = repr(tmp) if m else "model not built"

    # ------------------------------------------------ exhaustive small scope (strings)
    maxlen = 7 if thorough else 5
    if ctx.scale > 1:
        maxlen = min(maxlen + 1, 7)
    strings = [""]
    for n in range(1, maxlen + 1):
        strings += ["".join(t) for t in itertools.product(alpha, repeat=n)]
    ctx.count("exhaustive_strings", len(strings))

    nontrivial = set()

    def impl_all(s):
        return (
            cp.split_by_separator(s, seps[0]),
            cp.split_by_separator(s, seps[1]),
            cp.split_into_lists(s),
            cp.cleanse(s),
            CellParser.escape_string(s),
        )

    CH = 20000
    for off in range(0, len(strings), CH):
        chunk = strings[off:off + CH]
        if m:
            reqs = []
            for s in chunk:
                e = enc_str(s)
                reqs += [f"(1 1 {e} 0)", f"(1 1 {e} 1)", f"(1 2 {e})", f"(1 3 {e})", f"(1 4 {e})",
                         f"(1 12 {enc_str(s.strip())})"]
            outs = m.ask_many(reqs)
        for i, s in enumerate(chunk):
            try:
                im = impl_all(s)
            except Exception as e:
                # a cell function raising on a plain string: the cell is then neither a string nor a list
                v.coverage["evaluations"] += 1
                rr = dict(fn="split_into_lists", s=s)
                v.failing_input(u1_key(rr, "cell-function-raises"), f"a CellParser function raised {type(e).__name__} on {s!r}", rr)
                continue
            v.coverage["evaluations"] += 1
            if has_unescaped(s) or "\\" in s:
                nontrivial.add(s)
            if m:
                o = outs[6 * i:6 * i + 6]
                mo = (dec_split(parse_sexp(o[0])), dec_split(parse_sexp(o[1])), dec_nv(parse_sexp(o[2])),
                      dec_str(parse_sexp(o[3])), dec_str(parse_sexp(o[4])))
                if mo != im:
                    ctx.disagree("cell functions on a string", repr(s), repr(mo), repr(im))
                # the one-pass un-escape IS cleanse: on every string when the code has no temporary
                # character, on every string without it otherwise (theorem phases_one_pass)
                if tmp is None or tmp not in s:
                    mu = dec_str(parse_sexp(o[5]))
                    if mu != im[3]:
                        ctx.disagree("unescape(strip s) vs cleanse", repr(s), repr(mu), repr(im[3]))
            # oracle (C08-3): no unescaped separator <=> plain string
            r = im[2]
            if has_unescaped(s) != isinstance(r, list):
                v.failing_input("string-vs-list", f"split_into_lists({s!r}) = {r!r}", dict(fn="split_into_lists", s=s))
            # oracle (C08-1): every string survives escape + split, trimmed
            back = safe(lambda: cp.split_into_lists(cp.join_from_lists(s)))
            if back != s.strip():
                rr = dict(fn="roundtrip", value=s)
                v.failing_input(u1_key(rr, "string-roundtrip"), f"split(join({s!r})) = {back!r}", rr)

    # ------------------------------------------------ nested values: join, wf, round trip
    n_vals = (60000 if thorough else 6000) * ctx.scale
    vals = []
    # structured enumeration: all depth-1 lists of length <= 3 over a pool of 9 strings
    small = ["", "a", " ", "|", ";", "\\", "b\\", "\\;", "\x01"]
    for n in range(0, 4):
        for t in itertools.product(small, repeat=n):
            vals.append(list(t))
    # all depth-2 values with <= 2 elements of <= 2 leaves over 5 strings
    leaves = ["", "a", ";", "\\", "\x01"]
    elems = list(leaves) + [list(t) for n in range(0, 3) for t in itertools.product(leaves, repeat=n)]
    for n in range(1, 3):
        for t in itertools.product(elems, repeat=n):
            vals.append(list(t))
    for _ in range(n_vals):
        d = rng.choice([1, 1, 2, 2, 2, 3])
        vals.append(rand_nv(rng, d, wf_bias=rng.random() < 0.85))
    dist = {"wf": 0, "not_wf": 0, "depth3+": 0, "join_error": 0}
    if m:
        reqs = []
        for x in vals:
            e = enc_nv(x)
            reqs += [f"(1 5 {e})", f"(1 6 {e})", f"(1 7 {e})", f"(1 11 {e})"]
        outs = m.ask_many(reqs)
    seen = set()
    for i, x in enumerate(vals):
        v.coverage["evaluations"] += 1
        key = repr(x)
        try:
            j = cp.join_from_lists(x)
        except Exception as e:
            j = None
        if j is None:
            dist["join_error"] += 1
        if depth(x) >= 3:
            dist["depth3+"] += 1
        is_wf = wf(x, tmp)
        dist["wf" if is_wf else "not_wf"] += 1
        if m:
            mj = parse_sexp(outs[4 * i])
            mj = dec_str(mj[0]) if mj else None
            mwf = parse_sexp(outs[4 * i + 1]) == 1
            mtrim = dec_nv(parse_sexp(outs[4 * i + 2]))
            mshape = parse_sexp(outs[4 * i + 3]) == 1
            if mshape != wf_statement(x):
                ctx.disagree("shape_ok vs the statement's domain", repr(x), mshape, wf_statement(x))
            if mj != j:
                ctx.disagree("join_from_lists", repr(x), repr(mj), repr(j))
            if mwf != is_wf:
                ctx.disagree("wfb vs harness wf", repr(x), mwf, is_wf)
            if mtrim != trim(x):
                ctx.disagree("trim", repr(x), repr(mtrim), repr(trim(x)))
        if wf_statement(x):
            if key not in seen and not isinstance(x, str):
                seen.add(key)
                if any(("|" in s or ";" in s or "\\" in s) for s in strings_of(x)):
                    nontrivial.add(key)
            if j is None:
                v.failing_input("join-error", f"join_from_lists({x!r}) raised", dict(fn="roundtrip", value=x))
                continue
            back = safe(cp.split_into_lists, j)
            # parse (= strip the cell, then split) additionally needs that no list ends in a
            # *blank* element: the domain of the statement is wf(x) and wf(trim(x))
            back_parse = safe(cp.parse, j) if wf_statement(trim(x)) else trim(x)
            if back != trim(x) or back_parse != trim(x):
                rr = dict(fn="roundtrip", value=x)
                v.failing_input(u1_key(rr, "list-roundtrip"), f"split(join({x!r})) = {back!r}", rr)
    ctx.stats["nested_values"] = dist

    # ------------------------------------------------ random long strings (incl. unicode spaces)
    n_long = (20000 if thorough else 3000) * ctx.scale
    longs = [rand_str(rng, rng.choice([8, 12, 30])) for _ in range(n_long)]
    # every code point str.strip() removes, re-enumerated against the running interpreter
    ws = [chr(c) for c in range(0x110000) if chr(c).strip() == ""] if thorough else \
        [chr(c) for c in list(range(0, 0x3100)) if chr(c).strip() == ""]
    ctx.stats["python_whitespace_code_points"] = len(ws)
    longs += [w + "a" + w for w in ws] + [w for w in ws]
    if m:
        outs = m.ask_many([f"(1 2 {enc_str(s)})" for s in longs] + [f"(1 8 {enc_str(s)})" for s in longs])
        for i, s in enumerate(longs):
            v.coverage["evaluations"] += 1
            mo = dec_nv(parse_sexp(outs[i]))
            im = safe(cp.split_into_lists, s)
            if isinstance(im, tuple) and im[:1] == (RAISED,):
                rr = dict(fn="split_into_lists", s=s)
                v.failing_input(u1_key(rr, "cell-function-raises"), f"split_into_lists raised {im[1]} on {s!r}", rr)
            if mo != im:
                ctx.disagree("split_into_lists (long/unicode)", repr(s), repr(mo), repr(im))
            ms = dec_str(parse_sexp(outs[len(longs) + i]))
            if ms != s.strip():
                ctx.disagree("strip", repr(s), repr(ms), repr(s.strip()))
    if thorough and m:
        # strip's whitespace set over the whole code space: model says is_ws c <=> chr(c).strip()==''
        outs = m.ask_many([f"(1 8 ({c}))" for c in range(0, 0x110000) if not (0xD800 <= c <= 0xDFFF)])
        k = 0
        for c in range(0, 0x110000):
            if 0xD800 <= c <= 0xDFFF:
                continue
            if (outs[k] == "()") != (chr(c).strip() == ""):
                ctx.disagree("is_ws", c, outs[k], chr(c).strip() == "")
            k += 1
        ctx.stats["is_ws_code_points_checked"] = k

    # ------------------------------------------------ C08-4/5: templates expanded before split; escape inert
    n_t = (4000 if thorough else 600) * ctx.scale
    n_inert = 0
    for _ in range(n_t):
        pre, post, d = rand_str(rng, 4), rand_str(rng, 4), rand_str(rng, 5)
        for bad in ("{", "}"):
            pre, post = pre.replace(bad, ""), post.replace(bad, "")
        v.coverage["evaluations"] += 1
        tmpl = pre + "{{x|escape}}" + post
        r = run_cli_mode(cp.parse, tmpl, {"x": d})
        if r[0] != "ok":
            rr = dict(fn="inert", pre=pre, post=post, d=d)
            v.failing_input(u1_key(rr, "template-error"), f"parse({tmpl!r}, x={d!r}) -> {r}", rr)
            continue
        got = r[1]
        # expanded before split: parse strips the *template*, renders, then splits the text
        lpre, rpost = pre.lstrip(), post.rstrip()
        expanded = lpre + CellParser.escape_string(d) + rpost
        if got != safe(cp.split_into_lists, expanded):
            rr = dict(fn="inert", pre=pre, post=post, d=d)
            v.failing_input(u1_key(rr, "expand-then-split"), f"parse({tmpl!r}, x={d!r}) = {got!r}", rr)
        if m:
            mo = dec_nv(parse_sexp(m.ask(f"(1 2 {enc_str(expanded)})")))
            if mo != got:
                ctx.disagree("parse with escape filter", repr((pre, d, post)), repr(mo), repr(got))
        if not ends_escaped(lpre) and d != "":
            # inert: same shape as with a placeholder letter, the data restored verbatim.
            # (EMPTY data is excluded from this placeholder comparison: when it is the last element of
            # a list — end of cell, or directly before the closing separator of an inner list, e.g.
            # `;{{x|escape}}|` — the trailing-separator rule drops the final empty element, which is
            # not a split caused by the data; a false alarm of the first version of this oracle, found
            # under VERIF_SEED=1.  Empty data is still covered by expand-then-split above and by the
            # theorem escape_inert, which speaks about separator positions.)
            n_inert += 1
            want = safe(inert_expect, cp, lpre, rpost, d)
            if got != want:
                rr = dict(fn="inert", pre=pre, post=post, d=d)
                v.failing_input(u1_key(rr, "escape-not-inert"), f"parse({tmpl!r}, x={d!r}) = {got!r}, expected {want!r}", rr)
    ctx.stats["inertness_cases"] = n_inert

    # ------------------------------------------------ HISTORIES: sequences of calls on one long-lived CellParser
    # (every stream above hands each cell to the functions one call at a time; a real run hands all the cells of a
    # sheet to ONE object) — harness/c08_sessions.py
    history_samples = c08_sessions.run_sessions(ctx, nontrivial)

    v.coverage["distinct_nontrivial"] = len(nontrivial)
    v.coverage["exhaustive"] = True
    v.coverage["rule"] = (
        f"exhaustive: every string of length <= {maxlen} over {alpha!r} through split_by_separator (both separators), "
        "split_into_lists, cleanse, escape_string on model and implementation; enumerated + random nested values "
        "(85% well-formed by construction, 15% malformed incl. empty lists, depth 3, trailing blanks) through "
        "join_from_lists/wfb/trim and the round-trip oracle; random long/unicode strings; templates with the escape filter; "
        "HISTORIES: generated sequences of 2-15 calls of the whole API on one long-lived CellParser (plain cells on the fast path, "
        "under a context, {{ }} templates, native {@ @} cells, failing calls, None / non-string values, the direct functions, repeated "
        "texts, shared context objects, a second object beside it), every step compared with a fresh object, with the same call in an "
        "isolated process, with the property's statements and with the extracted state machine cp_run (distribution: stats.histories). "
        "non-trivial = distinct string containing a backslash or an unescaped separator, or distinct well-formed list "
        "with a separator or backslash inside a leaf")
    v.coverage["samples"] = [strings[min(len(strings) - 1, 777)], strings[-1], vals[700] if len(vals) > 700 else vals[-1], vals[-1], longs[0]] \
        + [dict(history=h) for h in history_samples[:2]]
    v.assumptions += [
        "str.strip() whitespace set = model's is_ws (re-enumerated on this run)",
        "Jinja2 renders {{x|escape}} by calling CellParser.escape_string (checked behaviourally here)",
        "histories: templates outside the mini-Jinja sub-language of Tmpl/MiniJinja.v are judged on the implementation only "
        "(fresh object / isolated process / property statements), the model answers 'unsupported' for them",
    ]


def holds(r):
    """the property's oracle on one replay record (the same judgements as in run)"""
    from rpft.parsers.common.cellparser import CellParser

    cp = CellParser()
    if r["fn"] == "session":
        return c08_sessions.replay_session(r)
    if r["fn"] == "roundtrip":
        x = r["value"]
        try:
            j = cp.join_from_lists(x)
        except Exception:
            return False
        ok = cp.split_into_lists(j) == trim(x)
        if wf_statement(trim(x)):
            ok = ok and cp.parse(j) == trim(x)
        return ok
    if r["fn"] == "split_into_lists":
        try:
            cp.cleanse(r["s"])
            return has_unescaped(r["s"]) == isinstance(cp.split_into_lists(r["s"]), list)
        except Exception:
            return False
    if r["fn"] == "inert":
        pre, post, d = r["pre"], r["post"], r["d"]
        res = run_cli_mode(cp.parse, pre + "{{x|escape}}" + post, {"x": d})
        if res[0] != "ok":
            return False
        lpre, rpost = pre.lstrip(), post.rstrip()
        if res[1] != cp.split_into_lists(lpre + CellParser.escape_string(d) + rpost):
            return False
        if not ends_escaped(lpre) and d != "":
            return res[1] == inert_expect(cp, lpre, rpost, d)
        return True
    return True


def replay(rep):
    return holds(rep["replay"])
