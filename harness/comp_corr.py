"""Correspondence between the compiler MODEL (coq/theories/Comp/Compile.v, extracted; engine 120) and the
implementation (rpft.converters.create_flows on the CSV text of the same abstract rows).

Compared, per generated sheet: the Ok/Err verdict with the error class (each LOGGER.critical site and each kind
of uncaught exception is one class) and, when both compile, the whole rendered flow: node order, per node the
canonical action payloads, the router kind / operand / wait / result name, cases (type, arguments, category),
categories (name, exit), exits (destination), the default category — up to a bijective renaming of INVENTED
uuids (renamed by first occurrence in one fixed traversal on both sides; a GIVEN `_nodeId` must be kept
literally).  Not compared: the VALUE of argument 0 of a two-argument has_group case (the group uuid written by
update_global_uuids: identifiers of groups are C06's subject and are not modelled); the number of arguments is.

The model is given the rows AS THE RENDERED SHEET HOLDS THEM (sheetgen.written_rows): with the edges.N.* headers every
row has as many edge entries as the widest row, the missing ones blank - what FlowParser's row parser hands to
_parse_next_row.  Whether such a padding entry is an edge is the model's to say (Gen/Tables.v:
padding_edges_dropped_at_read), as is the shape of a has_group test outside a group split (has_group_edges_by_name,
has_group_by_name_from_noop; a has_group case with one argument is an IndexError when the container is validated).

Sheets: the core generator (well-formed and ill-formed), sheets with merged rows, block-structured sheets (the
reference desugaring of generated loops/blocks: begin_block/end_block only), a directed list that exercises
every construct and every error class, and random mutations of generated sheets that provoke the errors."""
import copy
import json
import re

import flowutil
import rowref
import sheetgen
from common import enc_str, parse_sexp

INV_BASE = 1114112      # Wire/CompWire.v: wire_fresh k = [1114112 + k]

ERR_NAMES = {1: "block-conditional-edge", 2: "block-no-loose-exit", 3: "entry-of-no_op", 4: "no_op-condition-without-variable",
             5: "no-default-exit", 6: "edge-from-missing-row", 7: "go_to-destination-count", 8: "merge-wrong-source",
             9: "merge-needs-one-unconditional-edge", 10: "unterminated-block", 11: "wrong-block-terminator",
             12: "unexpected-end-of-flow", 13: "category-name-too-long", 14: "duplicate-node-uuid", 15: "crash",
             16: "MODEL-INTERNAL", 17: "MODEL-OUT-OF-FUEL", 18: "category-name-taken"}
CRASH_NAMES = {1: "KeyError", 2: "IndexError", 3: "AttributeError", 4: "ValueError", 5: "RapidProActionError"}
CRITICAL_PATTERNS = [
    (1, "Cannot attach conditional edges to a block"), (2, "Block has no loose exit"),
    (3, "go_to not implemented to link to no_op"), (4, "Condition must have a variable"),
    (5, "does not support default exits"), (6, "which does not exist"), (7, "number of destinations"),
    (8, "edge must come from a node with name"), (9, "exactly one unconditional incoming edge"),
    (10, "Sheet has unterminated block"), (11, "Wrong block terminator"), (12, "Unexpected end of flow"),
    (13, "Category name too long"), (14, "is used by more than one node"), (18, "is taken by the default or")]


# ---------------------------------------------------------------- rows -> model input
def kind_sexp(row):
    t = row["type"]
    sv = enc_str(row.get("save_name", "") or "")
    if t in ("send_message", "save_value", "add_to_group", "remove_from_group", "save_flow_result"):
        return "(0)"
    if t == "wait_for_response":
        to = row.get("no_response", "")
        return "(2 %d %s)" % (int(to) if to else 0, sv)
    if t == "split_by_value":
        return "(3 %s %s)" % (enc_str(row.get("arg", "")), sv)
    if t == "split_by_group":
        return "(4 %s)" % sv
    if t == "split_random":
        return "(5 %s)" % sv
    if t == "start_new_flow":
        return "(6 %s)" % enc_str(row.get("arg", ""))
    if t == "call_webhook":
        return "(7 %s)" % sv
    if t == "transfer_airtime":
        return "(8 %s)" % sv
    return "(1)"


def crow_sexp(row):
    return "(%s %s %s)" % (rowref.row_sexp(row), kind_sexp(row), enc_str(row.get("node_uuid", "") or ""))


def rows_sexp(rows):
    return "(" + " ".join(crow_sexp(r) for r in rows) + ")"


# ---------------------------------------------------------------- model output -> flow dict
def _id(x):
    if len(x) == 1 and x[0] >= INV_BASE:
        return "\x00inv%d" % (x[0] - INV_BASE)
    return "".join(chr(c) for c in x)


def _s(x):
    return "".join(chr(c) for c in x)


def model_flow(x):
    nodes = []
    for n in x[2]:
        nd = {"uuid": _id(n[0]), "actions": [{"uuid": _id(a[0]), "payload": a[1]} for a in n[1]],
              "exits": [{"uuid": _id(e[0]), "destination_uuid": (_id(e[1][0]) if e[1] else None)} for e in n[2]]}
        if n[3]:
            r = n[3][0]
            if r[0] == 1:
                rt = {"type": "switch", "operand": _s(r[1]),
                      "cases": [{"uuid": _id(k[0]), "type": _s(k[1]), "arguments": [(_s(a[0]) if a else None) for a in k[2]],
                                 "category_uuid": _id(k[3])} for k in r[2]],
                      "categories": [{"uuid": _id(c[0]), "name": _s(c[1]), "exit_uuid": _id(c[2])} for c in r[3]],
                      "default_category_uuid": _id(r[4])}
                w = r[5]
                rt["wait"] = None if w[0] == 0 else ({"type": "msg"} if w[0] == 1 else
                                                     {"type": "msg", "timeout": {"seconds": w[1], "category_uuid": _id(w[2])}})
                rt["result_name"] = _s(r[6][0]) if r[6] else None
            else:
                rt = {"type": "random", "categories": [{"uuid": _id(c[0]), "name": _s(c[1]), "exit_uuid": _id(c[2])} for c in r[1]],
                      "result_name": _s(r[2][0]) if r[2] else None}
            nd["router"] = rt
        nodes.append(nd)
    return {"uuid": _id(x[0]), "name": _s(x[1]), "nodes": nodes}


def impl_flow(f):
    """the rendered JSON of the implementation in the same shape (payloads as parsed S-expressions)"""
    nodes = []
    for n in f["nodes"]:
        nd = {"uuid": n["uuid"],
              "actions": [{"uuid": a.get("uuid"), "payload": parse_sexp(flowutil.json_sexp(flowutil.canon_action(a)))} for a in n.get("actions", [])],
              "exits": [{"uuid": e["uuid"], "destination_uuid": e.get("destination_uuid")} for e in n["exits"]]}
        r = n.get("router")
        if r is not None:
            rt = {"type": r["type"], "categories": [{"uuid": c["uuid"], "name": c["name"], "exit_uuid": c["exit_uuid"]} for c in r["categories"]],
                  "result_name": r.get("result_name") or None}
            if r["type"] == "switch":
                rt["operand"] = r["operand"]
                rt["cases"] = [{"uuid": k["uuid"], "type": k["type"], "arguments": list(k["arguments"]), "category_uuid": k["category_uuid"]} for k in r["cases"]]
                rt["default_category_uuid"] = r["default_category_uuid"]
                w = r.get("wait")
                rt["wait"] = None if w is None else ({"type": "msg", "timeout": {"seconds": int(w["timeout"]["seconds"]), "category_uuid": w["timeout"]["category_uuid"]}}
                                                     if "timeout" in w else {"type": "msg"})
            nd["router"] = rt
        nodes.append(nd)
    return {"uuid": f["uuid"], "name": f["name"], "nodes": nodes}


def canon(flow, given):
    """rename invented uuids by first occurrence (one fixed traversal); given ones stay"""
    ren = {}

    def r(u):
        if u is None:
            return None
        if u in given:
            return "given:" + u
        if u not in ren:
            ren[u] = "#%d" % len(ren)
        return ren[u]

    out = {"name": flow["name"], "uuid": r(flow["uuid"]), "nodes": []}
    for n in flow["nodes"]:
        nd = {"uuid": r(n["uuid"]), "actions": [(r(a["uuid"]), a["payload"]) for a in n["actions"]],
              "exits": [(r(e["uuid"]), r(e["destination_uuid"])) for e in n["exits"]]}
        rt = n.get("router")
        if rt is not None:
            c = {"type": rt["type"], "result_name": rt["result_name"],
                 "categories": [(r(x["uuid"]), x["name"], r(x["exit_uuid"])) for x in rt["categories"]]}
            if rt["type"] == "switch":
                c["operand"] = rt["operand"]
                c["cases"] = [(r(k["uuid"]), k["type"],
                               (["<group uuid>"] + list(k["arguments"][1:]) if k["type"] == "has_group" and len(k["arguments"]) >= 2 else list(k["arguments"])),
                               r(k["category_uuid"]))
                              for k in rt["cases"]]
                c["default"] = r(rt["default_category_uuid"])
                w = rt["wait"]
                c["wait"] = None if w is None else (("msg", w["timeout"]["seconds"], r(w["timeout"]["category_uuid"])) if "timeout" in w else ("msg",))
            nd["router"] = c
        out["nodes"].append(nd)
    return out


def first_difference(a, b, path=""):
    if type(a) != type(b):
        return f"{path}: {a!r} vs {b!r}"
    if isinstance(a, dict):
        for k in sorted(set(a) | set(b)):
            if k not in a or k not in b:
                return f"{path}.{k}: present on one side only"
            d = first_difference(a[k], b[k], f"{path}.{k}")
            if d:
                return d
        return None
    if isinstance(a, (list, tuple)):
        if len(a) != len(b):
            return f"{path}: length {len(a)} vs {len(b)}"
        for i, (x, y) in enumerate(zip(a, b)):
            d = first_difference(x, y, f"{path}[{i}]")
            if d:
                return d
        return None
    return None if a == b else f"{path}: {a!r} vs {b!r}"


# ---------------------------------------------------------------- the two sides
def model_compile(m, rows, name="f1"):
    res = m.ask("(120 1 %s %s)" % (enc_str(name), rows_sexp(rows)))
    x = parse_sexp(res)
    if not isinstance(x, list) or not x or x[0] not in (0, 1):
        return ("bad", res[:200])
    if x[0] == 0:
        return ("ok", model_flow(x[1]))
    e = x[1]
    if e[0] == 15:
        return ("err", "crash:" + CRASH_NAMES.get(e[1], str(e[1])))
    return ("err", ERR_NAMES.get(e[0], str(e[0])))


def impl_error_class(r):
    if r[1] == "critical":
        for code, pat in CRITICAL_PATTERNS:
            if pat in r[2]:
                return ERR_NAMES[code]
        return "critical:" + r[2][:80]
    return "crash:" + r[1]


LAST_IMPL_ERROR = [None]


def impl_compile(rows, rng, name="f1"):
    headers, cells = sheetgen.render_sheet(rows, rng)
    r = flowutil.compile_workbook(flowutil.single_flow_workbook(name, headers, cells))
    if r[0] == "ok":
        return ("ok", impl_flow(r[1]["flows"][0]), r[1]), (headers, cells)
    LAST_IMPL_ERROR[0] = r
    return ("err", impl_error_class(r)), (headers, cells)


def ascii_only(rows):
    """str.title()/lower() are modelled for ASCII: a category name generated from a non-ASCII value is outside"""
    for r in rows:
        for e in r["edges"]:
            if any(ord(ch) > 127 for ch in e["value"] + e["name"]):
                return False
    return True


def compare(ctx, rows, label, stats, doc_sink=None):
    m = ctx.model
    for r in rows:
        stats["rows_" + r["type"]] = stats.get("rows_" + r["type"], 0) + 1
    stats["sheets_" + label] = stats.get("sheets_" + label, 0) + 1
    try:
        rows_sexp(rows)
    except (ValueError, KeyError) as e:
        stats["outside_vocabulary"] = stats.get("outside_vocabulary", 0) + 1
        return None
    im, (headers, cells) = impl_compile(rows, ctx.rng)
    if doc_sink is not None and im[0] == "ok":
        doc_sink.append((im[2], rows, headers, [[c.get(h, "") for h in headers] for c in cells]))
    if m is None:
        return im
    wrows = sheetgen.written_rows(rows, headers)
    if len(wrows[0]["edges"]) != len(rows[0]["edges"]) or any(len(a["edges"]) != len(b["edges"]) for a, b in zip(wrows, rows)):
        stats["sheets_with_padding_entries"] = stats.get("sheets_with_padding_entries", 0) + 1
        for a, b in zip(wrows, rows):
            if len(a["edges"]) != len(b["edges"]):
                stats["padded_rows_" + a["type"]] = stats.get("padded_rows_" + a["type"], 0) + 1
    for r in rows:
        for e in r["edges"]:
            if e["ctype"] == "has_group":
                stats["has_group_conditions"] = stats.get("has_group_conditions", 0) + 1
    mo = model_compile(m, wrows)
    case = dict(label=label, rows=wrows, headers=headers, cells=[[c.get(h, "") for h in headers] for c in cells])
    if mo[0] == "bad":
        ctx.disagree("compiler model could not read the sheet", case, mo[1], im[0])
        return im
    if mo[0] != im[0]:
        stats["verdict_disagreements"] = stats.get("verdict_disagreements", 0) + 1
        ctx.disagree("compile verdict differs (model vs create_flows)", case, repr(mo[:2] if mo[0] == "err" else "ok"),
                     repr((im[:2], LAST_IMPL_ERROR[0]) if im[0] == "err" else "ok"))
        return im
    if mo[0] == "err":
        stats["err_" + im[1]] = stats.get("err_" + im[1], 0) + 1
        if mo[1] != im[1]:
            ctx.disagree("error class differs (model vs create_flows)", case, mo[1], repr((im[1], LAST_IMPL_ERROR[0])))
        return im
    stats["both_compile"] = stats.get("both_compile", 0) + 1
    given = {r.get("node_uuid") for r in rows if r.get("node_uuid")}
    cm, ci = canon(mo[1], given), canon(im[1], given)
    if not ascii_only(rows):
        stats["non_ascii_condition(names not compared)"] = stats.get("non_ascii_condition(names not compared)", 0) + 1
        for c in (cm, ci):
            for n in c["nodes"]:
                if "router" in n:
                    n["router"]["categories"] = [(u, "", x) for (u, _, x) in n["router"]["categories"]]
    d = first_difference(cm, ci)
    if d:
        ctx.disagree("compiled flow differs (model vs create_flows): " + d, case, json.dumps(cm)[:1500], json.dumps(ci)[:1500])
    else:
        stats["flows_equal"] = stats.get("flows_equal", 0) + 1
        nn = len(cm["nodes"])
        stats["nodes_compared"] = stats.get("nodes_compared", 0) + nn
        stats["routers_compared"] = stats.get("routers_compared", 0) + sum(1 for n in cm["nodes"] if "router" in n)
    return im


# ---------------------------------------------------------------- directed sheets
E = sheetgen.edge
S = "start"
N1 = "11111111-1111-4111-8111-111111111111"
N2 = "22222222-2222-4222-8222-222222222222"


def msg(rid, frm, text="hi", **kw):
    es = frm if isinstance(frm, list) else [E(frm=frm)]
    return dict({"type": "send_message", "row_id": rid, "edges": es, "arg": text}, **kw)


def wait(rid, frm, **kw):
    es = frm if isinstance(frm, list) else [E(frm=frm)]
    return dict({"type": "wait_for_response", "row_id": rid, "edges": es, "arg": ""}, **kw)


def row(t, rid, frm, arg="", **kw):
    es = frm if isinstance(frm, list) else [E(frm=frm)]
    return dict({"type": t, "row_id": rid, "edges": es, "arg": arg}, **kw)


def bblock(rid, frm):
    es = frm if isinstance(frm, list) else [E(frm=frm)]
    return {"type": "begin_block", "row_id": rid, "edges": es}


EB = {"type": "end_block", "row_id": "", "edges": [E()]}


def directed():
    hook = dict(webhook_url="http://h/x", webhook_method="POST", webhook_headers=[], save_name="hook one")
    out = [
        ("plain chain", [msg("1", S), msg("2", "1"), msg("3", "")]),
        ("router rows", [msg("1", S), wait("2", "1", save_name="ans", no_response="60"),
                         msg("3", [E("2", value="yes"), E("2", value="no", name="Cat No")]), msg("4", [E("2")]),
                         msg("5", [E("2", value="No Response")]), msg("6", [E("2", value="maybe", name="Cat No")])]),
        ("implicit router after an action row", [msg("1", S), msg("2", [E("1", value="a", variable="@fields.x")]), msg("3", [E("1")]),
                                                 msg("4", [E("1", value="b")]), msg("5", [E("1", value="a")])]),
        ("implicit wait after an action row", [msg("1", S), msg("2", [E("1", value="a")]), msg("3", [E("1", value="b", ctype="has_phrase")])]),
        ("split_by_value / group / random", [row("split_by_value", "1", S, "@fields.a", save_name="r"), msg("2", [E("1", value="x"), E("1", value="y")]),
                                             row("split_by_group", "3", "1", ["g one"]), msg("4", [E("3", value="g one")]), msg("5", [E("3")]),
                                             row("split_random", "6", "4"), msg("7", [E("6", value="b1"), E("6", value="b2")]), msg("8", [E("6")]),
                                             msg("9", [E("6", name="b1")])]),
        ("outcome rows", [row("start_new_flow", "1", S, "child"), msg("2", [E("1", value="Completed")]), msg("3", [E("1", value="expired")]),
                          dict(row("call_webhook", "4", "2", "body"), **hook), msg("5", [E("4", value="Success")]), msg("6", [E("4")]),
                          row("transfer_airtime", "7", "5", [["KES", "10"]], save_name="air"), msg("8", [E("7", value="failure")]),
                          msg("9", [E("7", value="success"), E("1", value="other")])]),
        ("go_to cycle", [msg("1", S), wait("2", "1"), msg("3", [E("2", value="again")]), row("go_to", "", [E("3")], ["1"]),
                         row("go_to", "", [E("2", value="x"), E("2", value="y")], ["3", "1"])]),
        ("no_op forwarding and decision", [msg("1", S), msg("2", "1"), wait("3", "2"), row("no_op", "n", [E("2"), E("3", value="a")]), msg("4", "n"),
                                           row("no_op", "d", [E("3", value="b")]), msg("5", [E("d", value="p", variable="@fields.k")]),
                                           msg("6", [E("d", variable="@fields.k")]), msg("7", [E("d", value="q")]), msg("8", [E("d", ctype="has_text")])]),
        ("hard and loose exits", [msg("1", S), wait("2", "1"), row("hard_exit", "", [E("2", value="stop")]), row("loose_exit", "", [E("2", value="go")]), msg("3", "2")]),
        ("blocks", [msg("1", S), bblock("B", "1"), msg("b1", ""), wait("b2", "b1"), msg("b3", [E("b2", value="a")]), row("hard_exit", "", [E("b2", value="q")]), EB,
                    msg("2", "B"), bblock("C", ""), msg("c1", ""), bblock("D", "c1"), msg("d1", ""), EB, EB, msg("3", "")]),
        ("starting block", [bblock("B", S), msg("b1", S), msg("b2", ""), EB, msg("2", "B"), row("go_to", "", [E("2")], ["B"])]),
        ("merged rows", [msg("1", S, node_uuid=N1), msg("2", "1", "again", node_uuid=N1), msg("3", "2", "third", node_uuid=N1), msg("4", "3"),
                         msg("5", S, node_name="nn"), msg("", "", "x", node_name="nn")]),
        ("given node ids", [msg("1", S, node_uuid=N1), wait("2", "1", node_uuid=N2), msg("3", [E("2", value="a")])]),
        ("category reuse / default names", [wait("1", S), msg("2", [E("1", value="other"), E("1", value="Other", name="Other"), E("1", value="x", name="Other")]),
                                            msg("3", [E("1", value="yes"), E("1", value="YES"), E("1", value="yes")]), msg("4", [E("1", ctype="has_text"), E("1", ctype="has_text")])]),
        ("retargeting", [msg("1", S), msg("2", "1"), msg("3", "1"), wait("4", "3"), msg("5", [E("4")]), msg("6", [E("4")])]),
        ("anonymous rows and blank from", [msg("", S), msg("", ""), wait("", ""), msg("", [E("", value="a")]), msg("x", "")]),
        # ---- rectangular sheets: blank padding entries in rows of every type (written literally: rendered with edges.N.* headers)
        ("padding: go_to / no_op / exits", sheetgen.pad_rows([
            msg("1", S), wait("2", "1"), msg("3", [E("2", value="a"), E("2", value="b")]), row("go_to", "", [E("3")], ["1"]),
            msg("4", [E("2", value="c")]), row("no_op", "n", [E("4")]), msg("5", "n"), row("hard_exit", "", [E("2", value="d")]),
            msg("6", [E("2", value="e")]), row("loose_exit", "", [E("2", value="f")]), msg("7", [E("6"), E("5")])])),
        ("padding: blocks and merged rows", sheetgen.pad_rows([
            msg("1", S, node_uuid=N1), msg("2", "1", "again", node_uuid=N1), wait("3", "2"), bblock("B", [E("3", value="a")]), msg("b1", ""), msg("b2", "b1"), EB,
            msg("4", [E("B"), E("3", value="b")]), msg("5", "4", node_name="nn"), msg("6", "5", "more", node_name="nn")])),
        ("padding: blank first edge, starting block", sheetgen.pad_rows([
            bblock("B", S), msg("b1", S), msg("b2", ""), EB, wait("2", "B"), msg("3", [E("2", value="x"), E("2", value="y")]), msg("4", "")])),
        ("padding: go_to with several targets", sheetgen.pad_rows([
            msg("1", S), wait("2", "1"), msg("3", [E("2", value="p"), E("2", value="q"), E("2", value="r")]),
            row("go_to", "", [E("2", value="x"), E("2", value="y")], ["3", "1"]), row("go_to", "", [E("3")], ["1"])])),
        # ---- has_group tests (group membership by NAME) outside group splits
        ("has_group on edges of a wait / a value split / an action row", [
            wait("1", S), msg("2", [E("1", value="grp one", ctype="has_group"), E("1", value="x")]),
            row("split_by_value", "3", "2", "@fields.a"), msg("4", [E("3", value="grp two", ctype="has_group", name="In Two")]),
            msg("5", [E("4", value="grp one", ctype="has_group", variable="@contact.groups")]), msg("6", [E("4", value="grp one", ctype="has_group")]),
            row("split_by_group", "7", "5", ["grp one"]), msg("8", [E("7", value="grp one"), E("7", value="grp two", ctype="has_group")])]),
        ("has_group on an edge leaving a no_op decision", [
            msg("1", S), row("no_op", "n", "1"), msg("2", [E("n", value="grp one", ctype="has_group", variable="@contact.groups")]), msg("3", [E("n")])]),
        # ---- an explicit category name that is already the name of another category of the router (findings category-name-clash)
        ("clash: explicit name equals a generated name", [wait("1", S), msg("2", [E("1", value="yes")], "A"), msg("3", [E("1", value="yeah", name="Yes")], "B")]),
        ("clash: explicit name Other", [wait("1", S), msg("2", [E("1")], "A"), msg("3", [E("1", value="x", name="Other")], "B")]),
        ("clash: explicit name No Response", [wait("1", S, no_response="60"), msg("2", [E("1", value="No Response")], "A"),
                                              msg("3", [E("1", value="x", name="No Response")], "B")]),
        # ---- error classes
        ("err: edge from a missing row", [msg("1", S), msg("2", "nope")]),
        ("err: go_to into a no_op", [msg("1", S), row("no_op", "n", "1"), msg("2", "n"), row("go_to", "", [E("2")], ["n"])]),
        ("err: go_to into a block", [msg("1", S), bblock("B", "1"), msg("b", ""), EB, msg("2", "B"), row("go_to", "", [E("2")], ["B"])]),
        ("err: go_to into an empty starting block", [bblock("B", S), EB, msg("2", S), row("go_to", "", [E("2")], ["B"])]),
        ("err: go_to unknown target", [msg("1", S), row("go_to", "", [E("1")], ["zz"])]),
        ("err: go_to count", [msg("1", S), wait("2", "1"), row("go_to", "", [E("2", value="a"), E("2", value="b"), E("2", value="c")], ["1", "2"])]),
        ("err: conditional edge from a block", [msg("1", S), bblock("B", "1"), msg("b", ""), EB, msg("2", [E("B", value="x")])]),
        ("err: block without loose exit", [msg("1", S), bblock("B", "1"), msg("b", ""), row("hard_exit", "", [E("b")]), EB, msg("2", "B")]),
        ("err: no_op condition without variable", [msg("1", S), row("no_op", "n", "1"), msg("2", [E("n", value="x")])]),
        ("err: default exit of start_new_flow", [row("start_new_flow", "1", S, "child"), msg("2", "1")]),
        ("err: merge with a conditional edge", [msg("1", S, node_name="nn"), msg("2", [E("1", value="x")], node_name="nn")]),
        ("err: merge with two edges", [msg("0", S), msg("1", "0", node_name="nn"), msg("2", [E("1"), E("0")], node_name="nn")]),
        ("err: merge from another node", [msg("0", S), msg("1", "0", node_name="nn"), msg("x", "1"), msg("2", "x", node_name="nn")]),
        ("err: merge from start", [msg("1", S, node_name="nn"), msg("2", S, node_name="nn")]),
        ("err: merge with blank from and a row id", [msg("1", S, node_name="nn"), msg("2", "", node_name="nn")]),
        ("err: merge from a no_op", [msg("1", S, node_name="nn"), row("no_op", "n", "1"), msg("2", "n", node_name="nn")]),
        ("err: unterminated block", [msg("1", S), bblock("B", "1"), msg("b", "")]),
        ("err: end_block without begin", [msg("1", S), EB, msg("2", "1")]),
        ("err: category name too long", [wait("1", S), msg("2", [E("1", value="x", name="N" * 116)])]),
        ("ok: category name of 115", [wait("1", S), msg("2", [E("1", value="x", name="N" * 115)])]),
        ("err: unknown test", [wait("1", S), msg("2", [E("1", value="x", ctype="has_all_words")])]),
        ("err: duplicate node uuid", [wait("1", S, node_uuid=N1), wait("2", [E("1")], node_uuid=N1)]),
        ("err: router row re-using the id of an action row", [msg("1", S, node_uuid=N1), wait("2", "1", node_uuid=N1)]),
        ("err: webhook save_name too long", [dict(row("call_webhook", "1", S, ""), **dict(hook, save_name="x" * 37))]),
        ("err: webhook save_name without letter", [dict(row("call_webhook", "1", S, ""), **dict(hook, save_name="12 34"))]),
        ("err: split_by_value without operand", [row("split_by_value", "1", S, "")]),
        ("ok: hard exit into a block, no_op parents", [msg("1", S), bblock("B", "1"), wait("b", ""), EB, row("no_op", "n", "B"), msg("2", "n"), row("hard_exit", "", [E("b", value="x")])]),
    ]
    return out


# ---------------------------------------------------------------- mutations that provoke the errors
def mutate(rows, rng):
    rows = copy.deepcopy(rows)
    ids = [r["row_id"] for r in rows if r.get("row_id")]
    k = rng.choice(["missing_from", "goto_noop", "goto_unknown", "goto_count", "block_cond", "noop_novar", "enter_default", "merge_bad",
                    "drop_end", "extra_end", "long_name", "bad_test", "dup_uuid", "goto_block", "merge_blank"])
    node_rows = [r for r in rows if r["type"] in sheetgen.NODE_TYPES]
    if k == "missing_from" and node_rows:
        r = rng.choice(node_rows)
        r["edges"][rng.randrange(len(r["edges"]))]["from"] = "no_such_row"
    elif k in ("goto_noop", "goto_block", "goto_unknown"):
        want = {"goto_noop": "no_op", "goto_block": "begin_block"}.get(k)
        tg = [r["row_id"] for r in rows if r["type"] == want and r.get("row_id")] if want else ["zz_unknown"]
        src = [r["row_id"] for r in node_rows if r.get("row_id") and r["type"] in sheetgen.ACTION_TYPES]
        if tg and src:
            rows.append({"type": "go_to", "row_id": "", "edges": [E(frm=rng.choice(src))], "arg": [rng.choice(tg)]})
    elif k == "goto_count":
        src = [r["row_id"] for r in node_rows if r.get("row_id") and r["type"] in ("wait_for_response", "split_by_value")]
        if src and len(ids) >= 2:
            s = rng.choice(src)
            rows.append({"type": "go_to", "row_id": "", "edges": [E(frm=s, value="m1"), E(frm=s, value="m2"), E(frm=s, value="m3")], "arg": ids[:2]})
    elif k == "block_cond":
        bl = [r["row_id"] for r in rows if r["type"] == "begin_block" and r.get("row_id")]
        if bl:
            rows.append(msg("mz", [E(frm=rng.choice(bl), value=rng.choice(["", "x"]))]))
    elif k == "noop_novar":
        no = [r["row_id"] for r in rows if r["type"] == "no_op" and r.get("row_id")]
        if no:
            rows.append(msg("mz", [E(frm=rng.choice(no), value="x")]))
    elif k == "enter_default":
        en = [r["row_id"] for r in rows if r["type"] in ("start_new_flow", "split_random") and r.get("row_id")]
        if en:
            rows.append(msg("mz", [E(frm=rng.choice(en))]))
    elif k in ("merge_bad", "merge_blank"):
        ar = [r for r in node_rows if r["type"] in sheetgen.ACTION_TYPES and r.get("row_id")]
        if ar:
            a = rng.choice(ar)
            nm = a.get("node_uuid") or a.setdefault("node_name", "nm_" + a["row_id"])
            frm = "" if k == "merge_blank" else rng.choice([S, rng.choice(ids), a["row_id"]])
            new = msg(rng.choice(["mz", ""]), [E(frm=frm, value=rng.choice(["", "", "c"]))], "merged")
            if a.get("node_uuid"):
                new["node_uuid"] = nm
            else:
                new["node_name"] = nm
            rows.insert(rows.index(a) + 1 if rng.random() < 0.5 else len(rows), new)
    elif k == "drop_end":
        ends = [i for i, r in enumerate(rows) if r["type"] == "end_block"]
        if ends:
            del rows[rng.choice(ends)]
    elif k == "extra_end":
        rows.insert(rng.randrange(1, len(rows) + 1), copy.deepcopy(EB))
    elif k == "long_name":
        cands = [e for r in rows for e in r["edges"] if e["value"] and e["from"] != S]
        if cands:
            rng.choice(cands)["name"] = "L" * rng.choice([115, 116, 130])
    elif k == "bad_test":
        cands = [e for r in rows for e in r["edges"] if e["value"] and e["from"] != S]
        if cands:
            rng.choice(cands)["ctype"] = "has_all_words"
    elif k == "dup_uuid":
        if len(node_rows) >= 2:
            a, b = rng.sample(node_rows, 2)
            a["node_uuid"] = b["node_uuid"] = sheetgen.new_uuid(rng)
    return rows, k


def consistent_obj_ids(rows):
    """one uuid per group / flow NAME (nested generators draw their own: two uuids for one name are a conflict
    the tool rightly rejects - C06's subject, not modelled here)"""
    first = {}
    for r in rows:
        if r.get("obj_id") and r["type"] in ("add_to_group", "remove_from_group", "split_by_group", "start_new_flow"):
            a = r.get("arg")
            key = (r["type"] == "start_new_flow", a[0] if isinstance(a, list) else a)
            r["obj_id"] = first.setdefault(key, r["obj_id"])
    return rows


def gen_block_sheet(rng, wf=True):
    g = sheetgen.SugarGen(rng, wf=wf, special_text=rng.random() < 0.3)
    tree = g.gen_tree(rng.choice([3, 5, 8]))
    return consistent_obj_ids(sheetgen.desugar(tree))


def run(ctx, n, doc_sink=None):
    """n generated sheets (+ the directed list).  Returns the statistics (also stored in ctx.stats)."""
    rng = ctx.rng
    stats = {}
    if ctx.model is None:
        stats["model_unavailable"] = True
    for what, rows in directed():
        compare(ctx, rows, "directed", stats, doc_sink)
    for i in range(n):
        x = rng.random()
        if x < 0.40:
            rows, _ = sheetgen.gen_core_sheet(rng, rng.choice([2, 3, 5, 8, 14, 25]), wf=rng.random() < 0.6, special_text=rng.random() < 0.4,
                                              has_group=rng.random() < 0.5)
            label = "core"
        elif x < 0.52:
            rows, _ = sheetgen.gen_merge_sheet(rng, rng.choice([2, 5, 9]))
            label = "merge"
        else:
            rows = gen_block_sheet(rng, wf=rng.random() < 0.7)
            label = "blocks"
        if not rows:
            continue
        if rng.random() < 0.3:
            rows, kind = mutate(rows, rng)
            label += "+mutated"
            stats["mutation_" + kind] = stats.get("mutation_" + kind, 0) + 1
        compare(ctx, rows, label, stats, doc_sink)
    ctx.stats["compiler_model_correspondence"] = dict(sorted(stats.items()))
    return stats
