"""C08 — HISTORIES on one long-lived CellParser (strengthening after wave 3).

A real run shares one CellParser among all the cells of a sheet (RowParser.cell_parser; SheetParser also
calls it for include_if), so the statement "parsing the joined text gives back the value", "a cell without an
unescaped separator is a plain string", "templates are expanded before splitting" has to hold for every cell
WHATEVER the same object was handed before.  The streams of harness/c08.py exercise the cell functions one call
at a time; this module generates SEQUENCES of calls of the whole public API on one object (and on a second
object living beside it) and judges every step:

 (H) the result equals the result of the same call on a fresh CellParser() in this process, and the result of
     the same call in ISOLATION (harness/isolate.py: a forked copy of an interpreter that has imported the
     implementation and never called it) — instance state shows against the first, class / module / default-
     argument state against the second;
 (P) the property's own statements at that point of the history: parse(join(v)) == trim(v), string-vs-list,
     expand-then-split for {{x|escape}};
 (M) the same sequence through the extracted state machine Cell/CellSession.cp_run (engine 108), step by step.

Histories mix: plain cells with separators / escapes on the fast path (context omitted, {}, None), the same under
a non-empty context, {{ }} templates (escape filter, plain output, if/for from the C16 generator), native {@ @}
cells (literals, ranges, comparisons, context variables; through parse and through parse_as_string), failing calls
(undefined names, nested {@, syntax errors, division by zero, join of too deep / ill-typed values), value None and
non-string values, the direct functions (split_into_lists, split_by_separator, cleanse, join_from_lists,
escape_string), REPEATS of an earlier cell text with another context or through the other entry point (a cache keyed
too coarsely), context dict OBJECTS shared between calls (as SheetParser.context is)."""
import json
import re

import c16
from common import enc_str, parse_sexp, dec_str, run_cli_mode

K_HISTORY = "cell-result-depends-on-parser-history"
K_PROCESS = "cell-result-depends-on-process-history"
K_RT_HISTORY = "roundtrip-fails-after-parser-history"
K_SVL_HISTORY = "string-vs-list-fails-after-parser-history"
K_EXPAND_HISTORY = "expand-then-split-fails-after-parser-history"


# ------------------------------------------------------------------ values: JSON-tagged <-> Python / model universe
def tag(v):
    """c16 universe -> JSON-safe (tuples of the universe become tagged dicts)"""
    if isinstance(v, tuple) and v and v[0] == "range":
        return {"$range": v[1]}
    if isinstance(v, tuple) and v and v[0] == "tuple":
        return {"$tuple": [tag(x) for x in v[1]]}
    if isinstance(v, list):
        return [tag(x) for x in v]
    if isinstance(v, dict):
        return {k: tag(x) for k, x in v.items()}
    return v


def untag(v):
    """JSON-safe -> c16 universe"""
    if isinstance(v, dict) and set(v) == {"$range"}:
        return ("range", v["$range"])
    if isinstance(v, dict) and set(v) == {"$tuple"}:
        return ("tuple", [untag(x) for x in v["$tuple"]])
    if isinstance(v, list):
        return [untag(x) for x in v]
    if isinstance(v, dict):
        return {k: untag(x) for k, x in v.items()}
    return v


def py_ctx(tagged):
    return c16.py_ctx(untag(tagged))


_ADDR = re.compile(r"0x[0-9a-fA-F]+")


def strict(r):
    """a result as a JSON value that keeps the TYPES apart (True is not 1, a tuple is not a list)"""
    import jinja2

    if isinstance(r, jinja2.Undefined):
        return ["undef"]
    if r is None:
        return ["none"]
    if isinstance(r, bool):
        return ["bool", r]
    if isinstance(r, int):
        return ["int", str(r)]
    if isinstance(r, float):
        return ["float", repr(r)]
    if isinstance(r, str):
        return ["str", r]
    if isinstance(r, list):
        return ["list", [strict(x) for x in r]]
    if isinstance(r, tuple):
        return ["tuple", [strict(x) for x in r]]
    if isinstance(r, dict):
        return ["dict", [[strict(k), strict(x)] for k, x in r.items()]]
    if isinstance(r, range):
        return ["range", r.start, r.stop, r.step]
    return ["other", type(r).__name__, _ADDR.sub("0x", c16.safe_repr(r))]


def outcome(res):
    """run_cli_mode's triple -> ['ok', strict value] | ['err', kind] (messages are not part of the result)"""
    if res[0] == "ok":
        return ["ok", strict(res[1])]
    return ["err", res[1]]


# ------------------------------------------------------------------ calling the implementation
def call(cp, op, ctx_objs):
    """one call of the API on the object cp; ctx_objs = the context dict objects of the session"""
    from rpft.parsers.common.cellparser import CellParser

    m = op["m"]
    if m in ("parse", "parse_as_string"):
        fn = getattr(cp, m)
        c = op["ctx"]
        if c == "default":
            return run_cli_mode(fn, op["text"])
        if c == "empty":
            return run_cli_mode(fn, op["text"], {})
        if c == "none":
            return run_cli_mode(fn, op["text"], None)
        return run_cli_mode(fn, op["text"], ctx_objs[c[1]])
    if m == "split_into_lists":
        return run_cli_mode(cp.split_into_lists, op["s"])
    if m == "split_by_separator":
        return run_cli_mode(cp.split_by_separator, op["s"], CellParser.SEPARATORS[op["sep"]])
    if m == "cleanse":
        return run_cli_mode(cp.cleanse, op["s"])
    if m == "join_from_lists":
        return run_cli_mode(cp.join_from_lists, op["value"])
    if m == "escape_string":
        return run_cli_mode(CellParser.escape_string, op["s"])
    raise ValueError(m)


def fresh_call(op, ctxs):
    """the same call on an object that has no history (contexts rebuilt too)"""
    from rpft.parsers.common.cellparser import CellParser

    return call(CellParser(), op, [py_ctx(c) for c in ctxs])


def run_history(ops, ctxs):
    """the whole history on ONE object (ops flagged `other` on a second one living beside it, ops flagged `fresh`
    on an object created for that call: same process, no instance history)"""
    from rpft.parsers.common.cellparser import CellParser

    cp, cp2 = CellParser(), CellParser()
    objs = [py_ctx(c) for c in ctxs]          # the SAME dict objects for the whole history
    out = []
    for op in ops:
        if op.get("fresh"):
            out.append(call(CellParser(), op, [py_ctx(c) for c in ctxs]))
        else:
            out.append(call(cp2 if op.get("other") else cp, op, objs))
    return out


# isolation server entry points (harness/isolate.py)
def isolated_prepare():
    import rpft.parsers.common.cellparser  # noqa: F401


def _verdict(op, res, ctxs):
    pr = property_at(op, res, ctxs)
    return dict(out=outcome(res), prop=list(pr) if pr else None)


def isolated_apply(item):
    """one call on a new object in a process that has done nothing else"""
    return _verdict(item["op"], fresh_call(item["op"], item["ctxs"]), item["ctxs"])


def isolated_history(item):
    """a whole history in ONE process that has done nothing else"""
    res = run_history(item["ops"], item["ctxs"])
    return [_verdict(op, r, item["ctxs"]) for op, r in zip(item["ops"], res)]


# ------------------------------------------------------------------ the model side
def enc_nv(v):
    if isinstance(v, str):
        return "(0 " + enc_str(v) + ")"
    return "(1 (" + " ".join(enc_nv(x) for x in v) + "))"


def nv_ok(v, depth=0):
    """a nested list of strings (what the model's nv can carry)"""
    if isinstance(v, str):
        return True
    return isinstance(v, list) and depth < 8 and all(nv_ok(x, depth + 1) for x in v)


def enc_op(op, ctxs):
    """-> wire text, or None when the model has no such call (nothing is compared then)"""
    m = op["m"]
    if m in ("parse", "parse_as_string"):
        mode = 1 if m == "parse" else 0
        if op["text"] is None and op.get("cell") is None:
            return f"(1 {mode})"
        c = op["ctx"]
        if c in ("default", "empty"):
            oc = "(())"
        elif c == "none":
            oc = "()"
        else:
            try:
                oc = "(" + c16.enc_ctx(untag(ctxs[c[1]])) + ")"
            except ValueError:
                return None
        cell = op.get("cell") or ("tmpl", [("text", str(op["text"]))])
        return f"(0 {mode} {oc} {c16.enc_cell(cell)})"
    if m == "split_into_lists":
        return f"(2 {enc_str(op['s'])})" if isinstance(op["s"], str) else None
    if m == "split_by_separator":
        return f"(3 {enc_str(op['s'])} {op['sep']})"
    if m == "cleanse":
        return f"(4 {enc_str(op['s'])})" if isinstance(op["s"], str) else None
    if m == "join_from_lists":
        return f"(5 {enc_nv(op['value'])})" if nv_ok(op["value"]) else None
    if m == "escape_string":
        return f"(6 {enc_str(op['s'])})"
    return None


UNSUPPORTED = ("UNSUPPORTED", "FUEL", "BADINPUT")


def dec_model_res(x):
    """-> ('cell', pres) | ('val', python value) | ('raises',)"""
    t = x[0]
    if t == 0:
        return ("cell", c16.dec_pres(x[1]))
    if t == 1:
        y = x[1]
        return ("val", dec_str(y[1]) if y[0] == 0 else [dec_str(z) for z in y[1]])
    if t == 2:
        return ("val", dec_str(x[1]))
    if t == 3:
        return ("val", c16.dec_nv(x[1]))
    if t == 4:
        return ("val", dec_str(x[1][0])) if x[1] else ("raises",)
    raise ValueError(x)


def model_history(m, ops, ctxs):
    """-> list (one per op) of None (not asked) | (text or None, decoded result), and the state flag"""
    encs = [enc_op(op, ctxs) for op in ops]
    asked = [e for e in encs if e is not None]
    out = parse_sexp(m.ask("(108 1 (" + " ".join(asked) + "))"))
    if out == [999998]:
        return None
    steps = out[0]
    res, k = [], 0
    for e in encs:
        if e is None:
            res.append(None)
            continue
        txt, r = steps[k]
        k += 1
        res.append((dec_str(txt), dec_model_res(r)))
    return res


def model_texts(m, ops, ctxs):
    """the printer lives in the model: texts of the AST cells (fn 2)"""
    encs = [enc_op(op, ctxs) if op.get("cell") is not None else None for op in ops]
    asked = [e for e in encs if e is not None]
    if not asked:
        return True
    out = parse_sexp(m.ask("(108 2 (" + " ".join(asked) + "))"))
    if out == [999998]:
        return False
    k = 0
    for op, e in zip(ops, encs):
        if e is not None:
            op["text"] = dec_str(out[k])
            k += 1
    return True


def same_as_model(mr, res):
    """model result of one step vs run_cli_mode's triple of the implementation; None = not comparable"""
    if mr[0] == "cell":
        p = mr[1]
        if p[0] == "err" and p[1] in UNSUPPORTED:
            return None
        ir = ("ok", c16.canon(res[1])) if res[0] == "ok" else ("err", res[1])
        return c16.same(p, ir)
    if mr[0] == "raises":
        return res[0] == "err"
    return res[0] == "ok" and type(res[1]) is type(mr[1]) and res[1] == mr[1]


# ------------------------------------------------------------------ generators
SEP_TEXTS = ["a|b", "1;2|3;4", "x\\|y", "a;b", "k;v|w", "a|", ";", "\\\\|", "p;q|", " a | b ", "b\\", "a\\;b|c", "\\", "|",
             "a\\\\;b", "é|ü", "  x;y  ", "\\;", "a|b|c;d", "1|2|3", "{a|b", "a{b;c", "}{|x"]
NATIVE_RAW = ["{@ [1, 2, 3] @}", "{@range(5)@}", "{@ 1 == 1 @}", "{@ 'a|b' @}", "{@ ['p|q', 'r;s'] @}", "{@ (1, 2) @}",
              "{@ {'k': 'v;w'} @}", "{@ 3 @}", "{@ none @}", "{@ [] @}", "{@ 'x' @}", "{@ [[1, 2], [3]] @}",
              "{@ 'a' ~ '|' ~ 'b' @}", " {@ [1] @} ", "{@ 1 == 2 @}", "{@ range(0) @}", "{@ 'a;b' | escape @}", "{@ '1' @}"]
NATIVE_VAR = ["{@ items @}", "{@ x @}", "{@ items[0] @}", "{@ [x, x] @}", "{@ x == x @}", "{@ items | length @}"]
FAILING_RAW = ["{{ missing }}", "{@ missing @}", "{@ a @} {@ b @}", "{{ a", "{% if %}", "{@ [missing] @}", "{{ 1/0 }}", "{@ 1/0 @}",
               "{{ missing.x }}", "{@ 1 +  @}", "{{ x | nosuchfilter }}", "{@ {@ 1 @} @}", "{% for %}", "{{ missing | escape }}"]
TEMPLATE_RAW = ["{{x}}", "{{x|escape}}", "{{ x }}|k", "{{x|escape}}|k", "a;{{x}}", "{% if x %}a|b{% endif %}", "{{ 'p|q' }}",
                "{{ 1 }};{{ 2 }}", "{% set q = 'u;v' %}{{ q }}", "{{ '1+1' | eval }}", "{{ x | eval }}", "{# c #}a|b", "{{ x ~ ';' ~ x }}"]
DATA = ["u;v", "x|y;z\\", "a", "", "p|q", "\\", "1", "a b", ";", "é", "1+1", "{{x}}", " pad "]


def _ctx_kind(rng, fast_bias=0.75):
    r = rng.random()
    if r < fast_bias:
        return rng.choice(["default", "empty", "empty", "none"])
    return "ref"


def gen_session(rng, allow_ast):
    """-> dict(ops=[...], ctxs=[...]); every op carries `k` (its kind, for the statistics)"""
    import c08

    ctxs = []

    def new_ctx(d):
        ctxs.append(d)
        return ["ref", len(ctxs) - 1]

    def some_ctx(need=None):
        """a non-empty context: an earlier dict object of the session again (50%) or a new one"""
        cands = [i for i, c in enumerate(ctxs) if need is None or need in c]
        if cands and rng.random() < 0.5:
            return ["ref", rng.choice(cands)]
        d = {"x": rng.choice(DATA), "items": rng.choice([["p|q"], [1, 2], ["a", "b;c"], []]), "a": 1, "b": rng.choice(["s", 2])}
        if rng.random() < 0.3:
            d["x"] = rng.choice([3, True, ["l"], {"$range": 2}])
        return new_ctx(d)

    def plain_text():
        r = rng.random()
        if r < 0.35:
            return rng.choice(SEP_TEXTS), None
        if r < 0.5:
            return rng.choice(c08.POOL), None
        if r < 0.65:
            return c08.rand_str(rng, rng.choice([4, 6, 10])), None
        # the joined text of a nested value: the round trip is judged at this point of the history
        from rpft.parsers.common.cellparser import CellParser
        for _ in range(6):
            v = c08.rand_nv(rng, rng.choice([1, 1, 2, 2]), wf_bias=True)
            try:
                return CellParser().join_from_lists(v), v
            except Exception:
                continue
        return "a|b", ["a", "b"]

    def op_plain():
        text, val = plain_text()
        ck = _ctx_kind(rng)
        op = dict(m="parse" if rng.random() < 0.75 else "parse_as_string", text=text,
                  ctx=some_ctx() if ck == "ref" else ck, k="plain-fast" if ck != "ref" else "plain-under-context")
        if "{" in text and op["ctx"] != "none":
            op["k"] = "plain-with-brace"
        if val is not None:
            op["value"] = val
        return op

    def op_template():
        r = rng.random()
        if r < 0.45:
            pre, post, d = c08.rand_str(rng, 4), c08.rand_str(rng, 4), rng.choice(DATA + [c08.rand_str(rng, 5)])
            filt = rng.random() < 0.7
            text = pre + ("{{x|escape}}" if filt else "{{x}}") + post
            op = dict(m="parse" if rng.random() < 0.8 else "parse_as_string", text=text, ctx=new_ctx({"x": d}), k="template-escape" if filt else "template-output")
            if filt:
                op["inert"] = dict(pre=pre, post=post, d=d)
            return op
        if r < 0.7 or not allow_ast:
            text = rng.choice(TEMPLATE_RAW)
            return dict(m=rng.choice(["parse", "parse", "parse_as_string"]), text=text,
                        ctx=some_ctx("x") if rng.random() < 0.85 else "empty", k="template-raw")
        cx = c16.gen_ctx(rng)
        cell = ("tmpl", c16.gen_nodes(rng, cx, 2, rng.choice([0.0, 0.0, 0.1, 0.4])))
        return dict(m=rng.choice(["parse", "parse", "parse_as_string"]), text=None, cell=cell,
                    ctx=new_ctx(tag(cx)) if cx else "empty", k="template-generated")

    def op_native():
        r = rng.random()
        m = rng.choice(["parse", "parse", "parse_as_string"])
        if r < 0.5:
            return dict(m=m, text=rng.choice(NATIVE_RAW), ctx=rng.choice(["default", "empty", "empty"]) if rng.random() < 0.7 else some_ctx(), k="native-literal")
        if r < 0.75 or not allow_ast:
            return dict(m=m, text=rng.choice(NATIVE_VAR), ctx=some_ctx("items"), k="native-variable")
        cx = c16.gen_ctx(rng)
        e = c16.gen_holder(rng, cx, 3, 0.0) if rng.random() < 0.5 else c16.gen_expr(rng, cx, 2, 0.05)
        return dict(m=m, text=None, cell=("native", e), ctx=new_ctx(tag(cx)) if cx else "empty", k="native-generated")

    def op_failing():
        r = rng.random()
        if r < 0.6:
            text = rng.choice(FAILING_RAW)
            return dict(m=rng.choice(["parse", "parse_as_string"]), text=text, ctx="empty" if rng.random() < 0.5 else some_ctx(), k="failing-cell")
        if r < 0.8:
            deep = rng.choice([[[["a"]]], [[[["a", "b"]], "c"]], [None], {"k": "v"}, [["a", ["b", ["c"]]]], [[], "a"], None])
            return dict(m="join_from_lists", value=deep, k="failing-join")
        return dict(m="parse", text=rng.choice(c16.RAW), ctx=some_ctx() if rng.random() < 0.6 else "empty", k="raw-jinja")

    def op_odd_value():
        r = rng.random()
        m = rng.choice(["parse", "parse_as_string"])
        ck = rng.choice(["default", "empty", "none"])
        if r < 0.4:
            return dict(m=m, text=None, ctx=ck, k="value-none")
        return dict(m=m, text=rng.choice([5, 0, -3, 2.5, True]), ctx=ck, k="value-not-a-string")

    def op_direct():
        r = rng.random()
        text, val = plain_text()
        if r < 0.3:
            return dict(m="split_into_lists", s=text, k="split_into_lists")
        if r < 0.45:
            return dict(m="split_by_separator", s=text, sep=rng.choice([0, 1]), k="split_by_separator")
        if r < 0.6:
            return dict(m="cleanse", s=text, k="cleanse")
        if r < 0.85:
            v = val if val is not None else c08.rand_nv(rng, rng.choice([1, 2, 3]), wf_bias=rng.random() < 0.7)
            return dict(m="join_from_lists", value=v, k="join_from_lists")
        return dict(m="escape_string", s=text, k="escape_string")

    n = rng.choice([2, 3, 4, 5, 6, 8, 10, 14])
    ops = []
    for i in range(n):
        r = rng.random()
        prev = [o for o in ops if o["m"] in ("parse", "parse_as_string") and o.get("cell") is None and isinstance(o["text"], str)]
        if prev and r < 0.12:
            # an earlier cell text again, with another context and maybe through the other entry point
            o = rng.choice(prev)
            op = dict(m=rng.choice(["parse", "parse_as_string"]), text=o["text"], k="repeat")
            ck = _ctx_kind(rng, 0.5)
            op["ctx"] = some_ctx() if ck == "ref" else ck
            if "value" in o:
                op["value"] = o["value"]
        elif r < 0.42:
            op = op_plain()
        elif r < 0.57:
            op = op_native()
        elif r < 0.72:
            op = op_template()
        elif r < 0.82:
            op = op_failing()
        elif r < 0.87:
            op = op_odd_value()
        else:
            op = op_direct()
        if rng.random() < 0.1:
            op["other"] = True
        ops.append(op)
    # the last call of every history is one the property judges: a plain cell on the fast path
    if ops[-1]["k"] not in ("plain-fast",) and rng.random() < 0.7:
        op = op_plain()
        if op["ctx"] not in ("default", "empty", "none"):
            op["ctx"] = "empty"
            op["k"] = "plain-fast" if "{" not in op["text"] else "plain-with-brace"
        op["m"] = "parse"
        ops.append(op)
    return dict(ops=ops, ctxs=ctxs)


# ------------------------------------------------------------------ the property's own statements at one step
def is_fast(op):
    if op["m"] not in ("parse", "parse_as_string") or not isinstance(op["text"], str):
        return False
    if op["ctx"] == "none":
        return True
    return op["ctx"] in ("default", "empty") and "{" not in op["text"].strip()


def property_at(op, res, ctxs):
    """-> None, or (key, what) when a statement of the property fails for this result"""
    import c08
    from rpft.parsers.common.cellparser import CellParser

    if op["m"] != "parse":
        return None
    if is_fast(op):
        if res[0] != "ok":
            return (K_SVL_HISTORY, f"parse raised {res[1]} on a plain cell")
        got = res[1]
        v = op.get("value")
        if v is not None and c08.wf_statement(v) and c08.wf_statement(c08.trim(v)):
            if got != c08.trim(v):
                return (K_RT_HISTORY, f"parse(join({v!r})) = {got!r}, expected {c08.trim(v)!r}")
        if c08.has_unescaped(op["text"].strip()) != isinstance(got, list):
            return (K_SVL_HISTORY, f"parse({op['text']!r}) = {got!r}: " +
                    ("an unescaped separator but not a list" if not isinstance(got, list) else "no unescaped separator but a list"))
        return None
    if "inert" in op and op["ctx"] not in ("default", "empty", "none"):
        pre, post, d = op["inert"]["pre"], op["inert"]["post"], op["inert"]["d"]
        if "{" in pre or "{" in post or "}" in pre or "}" in post or not isinstance(d, str):
            return None
        if res[0] != "ok":
            return (K_EXPAND_HISTORY, f"parse raised {res[1]} on {op['text']!r} with x = {d!r}")
        expanded = pre.lstrip() + CellParser.escape_string(d) + post.rstrip()
        want = c08.safe(CellParser().split_into_lists, expanded)
        if res[1] != want:
            return (K_EXPAND_HISTORY, f"parse({op['text']!r}, x={d!r}) = {res[1]!r}, expected the split of {expanded!r} = {want!r}")
    return None


# ------------------------------------------------------------------ judging a history
def judge(sess, iso, m=None, disagree=None, stats=None):
    """run the history; -> list of failures dict(at, key, what).  iso: isolate.Isolated or None"""
    ops, ctxs = sess["ops"], sess["ctxs"]
    got = run_history(ops, ctxs)
    fresh = [fresh_call(op, ctxs) for op in ops]
    pristine = None
    if iso:
        try:
            pristine = iso.ask("c08_sessions", "isolated_apply", [dict(op=op, ctxs=ctxs) for op in ops])
        except Exception:       # the isolation server is an aid; without it (H) compares with in-process fresh objects
            pristine = None
    fails = []
    for i, op in enumerate(ops):
        g, f = outcome(got[i]), outcome(fresh[i])
        p = pristine[i].get("out") if pristine and isinstance(pristine[i], dict) else None   # None: no reference (child died)
        if g != f:
            fails.append(dict(at=i, key=K_HISTORY,
                              what=f"call {i} {show_op(op, ctxs)} on the long-lived CellParser gives {g}, on a fresh CellParser {f}"))
        elif p is not None and g != p:
            fails.append(dict(at=i, key=K_PROCESS,
                              what=f"call {i} {show_op(op, ctxs)} gives {g} after the history, {p} in a process that has done nothing else"))
        else:
            pr = property_at(op, got[i], ctxs)
            if pr is not None:
                # history-dependent only if the same call in isolation satisfies the statement
                fr = property_at(op, fresh[i], ctxs)
                fails.append(dict(at=i, key=pr[0], what=pr[1], also_fresh=fr is not None))
    if m is not None:
        mres = model_history(m, ops, ctxs)
        if mres is None:
            disagree("history: the model rejected the wire input", repr(ops)[:300], "BADINPUT", "")
        else:
            for i, (op, mr) in enumerate(zip(ops, mres)):
                if mr is None:
                    if stats is not None:
                        stats["model_not_asked"] += 1
                    continue
                txt, r = mr
                if op["m"] in ("parse", "parse_as_string") and op["text"] is not None and txt != str(op["text"]):
                    disagree("history: text of the cell, model printer vs harness", repr(op), repr(txt), repr(op["text"]))
                    continue
                s = same_as_model(r, got[i])
                if stats is not None:
                    stats["model_unsupported" if s is None else "model_compared"] += 1
                if s is False:
                    disagree(f"history step {i} of {len(ops)}: model state machine vs the long-lived CellParser",
                             dict(op=show_op(op, ctxs), history=[show_op(o, ctxs) for o in ops[:i]]), repr(r), repr(outcome(got[i])))
    return fails


def _obj(op):
    return "CellParser()." if op.get("fresh") else "other." if op.get("other") else ""


def show_op(op, ctxs):
    m = op["m"]
    if m in ("parse", "parse_as_string"):
        c = op["ctx"]
        cs = {"default": "", "empty": ", {}", "none": ", None"}.get(c) if isinstance(c, str) else ", " + json.dumps(ctxs[c[1]], ensure_ascii=False)
        return f"{_obj(op)}{m}({op['text']!r}{cs})"
    arg = op.get("s", op.get("value"))
    return f"{_obj(op)}{m}({arg!r}{', ' + repr('|;'[op['sep']]) if m == 'split_by_separator' else ''})"


def still_fails(sess, at, key, iso):
    for f in judge(sess, iso if key == K_PROCESS else None):
        if f["at"] == at and f["key"] == key:
            return True
    return False


def minimise(sess, at, key, iso):
    """IN-PROCESS minimisation (used only when the isolation server is unavailable): drop calls before the failing
    one while the failure stays; -> (session, index of the failing call, its description in the small history)"""
    ops = [dict(o) for o in sess["ops"][:at + 1]]
    ctxs = sess["ctxs"]
    i = 0
    while i < len(ops) - 1:
        cand = ops[:i] + ops[i + 1:]
        if still_fails(dict(ops=cand, ctxs=ctxs), len(cand) - 1, key, iso):
            ops = cand
        else:
            i += 1
    small = prune_ctxs(dict(ops=ops, ctxs=ctxs))
    what = None
    for f in judge(small, iso if key == K_PROCESS else None):
        if f["at"] == len(ops) - 1 and f["key"] == key:
            what = f["what"]
    return small, len(ops) - 1, what


def prune_ctxs(sess):
    ops = [dict(o) for o in sess["ops"]]
    used = sorted({o["ctx"][1] for o in ops if isinstance(o.get("ctx"), list)})
    renum = {old: new for new, old in enumerate(used)}
    for o in ops:
        if isinstance(o.get("ctx"), list):
            o["ctx"] = ["ref", renum[o["ctx"][1]]]
    return dict(ops=ops, ctxs=[sess["ctxs"][k] for k in used])


def concat(sessions):
    """several histories one after the other in one process (context tables merged)"""
    ops, ctxs = [], []
    for sn in sessions:
        off = len(ctxs)
        for o in sn["ops"]:
            o = dict(o)
            if isinstance(o.get("ctx"), list):
                o["ctx"] = ["ref", o["ctx"][1] + off]
            ops.append(o)
        ctxs += sn["ctxs"]
    return dict(ops=ops, ctxs=ctxs)


class Clean:
    """judgements that do not depend on what THIS process has done: a history is run in one forked pristine process,
    each of its calls alone in another (results cached per call)"""

    def __init__(self, iso):
        self.iso = iso
        self.cache = {}

    def single(self, op, ctxs):
        c = op.get("ctx")
        lean = {k: x for k, x in op.items() if k not in ("other", "fresh", "k")}
        item = dict(op=dict(lean, ctx=["ref", 0]) if isinstance(c, list) else lean, ctxs=[ctxs[c[1]]] if isinstance(c, list) else [])
        key = json.dumps(item, sort_keys=True)
        if key not in self.cache:
            self.cache[key] = self.iso.ask("c08_sessions", "isolated_apply", [item])[0]
        return self.cache[key]

    def last_fails(self, sess):
        """-> (key, what) when the LAST call of the history, run in one pristine process, fails; else None"""
        hist = self.iso.ask("c08_sessions", "isolated_history", [sess])[0]
        if not isinstance(hist, list):
            return None
        op = sess["ops"][-1]
        h, one = hist[-1], self.single(op, sess["ctxs"])
        if "out" not in h or "out" not in one:
            return None
        if h["out"] != one["out"]:
            return (K_HISTORY, f"{show_op(op, sess['ctxs'])} gives {h['out']} after the history, {one['out']} as the only call of a process")
        if h["prop"] and not one["prop"]:
            return tuple(h["prop"])
        return None

    def all_fails(self, sess):
        hist = self.iso.ask("c08_sessions", "isolated_history", [sess])[0]
        out = []
        if not isinstance(hist, list):
            return [dict(at=0, key="crash", what=str(hist))]
        for i, (op, h) in enumerate(zip(sess["ops"], hist)):
            one = self.single(op, sess["ctxs"])
            if h.get("out") != one.get("out"):
                out.append(dict(at=i, key=K_HISTORY, what=f"{show_op(op, sess['ctxs'])} gives {h.get('out')} after the history, "
                                                           f"{one.get('out')} as the only call of a process"))
            elif h.get("prop") and not one.get("prop"):
                out.append(dict(at=i, key=h["prop"][0], what=h["prop"][1]))
        return out

    def reproduce(self, prior, sess, at):
        """the smallest history (calls of this process, oldest dropped first) after which call `at` of sess fails in a
        pristine process -> (session, key, what) or None"""
        head = dict(ops=sess["ops"][:at + 1], ctxs=sess["ctxs"])
        cand, k = None, 0
        while True:
            c = concat(prior[len(prior) - k:] + [head]) if k else head
            if self.last_fails(c):
                cand = c
                break
            if k >= len(prior):
                return None
            k = min(len(prior), max(1, 2 * k))
        ops, ctxs = cand["ops"], cand["ctxs"]
        # ddmin over the calls before the last one
        n = 2
        pre = ops[:-1]
        while pre:
            size = max(1, len(pre) // n)
            removed = False
            for start in range(0, len(pre), size):
                trial = pre[:start] + pre[start + size:]
                if self.last_fails(dict(ops=trial + [ops[-1]], ctxs=ctxs)):
                    pre = trial
                    n = max(n - 1, 2)
                    removed = True
                    break
            if not removed:
                if size == 1:
                    break
                n = min(len(pre), n * 2)
        small = prune_ctxs(dict(ops=pre + [ops[-1]], ctxs=ctxs))
        key, what = self.last_fails(small)
        if key == K_HISTORY:
            # instance state or state outside the instance?  the same call on an object created after the history
            probe = dict(ops=[dict(o) for o in small["ops"]], ctxs=small["ctxs"])
            probe["ops"][-1]["fresh"] = True
            probe["ops"][-1].pop("other", None)
            pf = self.last_fails(probe)
            if pf and pf[0] == K_HISTORY:
                small, key, what = probe, K_PROCESS, pf[1] + " (the call is made on a NEW CellParser: the state is not in the instance)"
        return small, key, what


# ------------------------------------------------------------------ the stream
def run_sessions(ctx, nontrivial):
    import isolate

    import time
    t0 = time.time()
    v, rng, m = ctx.v, ctx.rng, ctx.model
    thorough = ctx.tier == "thorough"
    n_sessions = (3000 if thorough else 220) * ctx.scale
    st = {"sessions": 0, "calls": 0, "length": {}, "kinds": {}, "fast_path_parse_after": {"native": 0, "failing": 0, "template": 0, "nothing-of-these": 0},
          "repeated_texts": 0, "calls_on_a_shared_context_object": 0, "calls_on_the_second_object": 0, "roundtrips_judged_in_history": 0,
          "model_compared": 0, "model_unsupported": 0, "model_not_asked": 0, "failures": 0}
    iso = None
    try:
        iso = isolate.Isolated()
    except Exception as e:  # the isolation server is an aid: without it (H) compares with in-process fresh objects only
        st["isolation"] = f"unavailable: {type(e).__name__}"
    samples = []
    clean = Clean(iso) if iso else None
    attempts = {}
    prior = []           # the histories this process has already run, oldest first (state outside the instances outlives them)
    try:
        for _ in range(n_sessions):
            sess = gen_session(rng, allow_ast=bool(m))
            if m and not model_texts(m, sess["ops"], sess["ctxs"]):
                ctx.disagree("history: the model rejected the wire input (texts)", repr(sess["ops"])[:300], "BADINPUT", "")
                continue
            ops = sess["ops"]
            if any(o["m"] in ("parse", "parse_as_string") and o.get("cell") is not None and o["text"] is None for o in ops):
                continue
            st["sessions"] += 1
            st["calls"] += len(ops)
            st["length"][len(ops)] = st["length"].get(len(ops), 0) + 1
            seen_refs = set()
            flags = set()
            for op in ops:
                st["kinds"][op["k"]] = st["kinds"].get(op["k"], 0) + 1
                v.coverage["evaluations"] += 1
                if op["k"] == "repeat":
                    st["repeated_texts"] += 1
                if op.get("other"):
                    st["calls_on_the_second_object"] += 1
                if isinstance(op.get("ctx"), list):
                    if op["ctx"][1] in seen_refs:
                        st["calls_on_a_shared_context_object"] += 1
                    seen_refs.add(op["ctx"][1])
                if op["m"] == "parse" and is_fast(op):
                    hit = False
                    for fl in ("native", "failing", "template"):
                        if fl in flags:
                            st["fast_path_parse_after"][fl] += 1
                            hit = True
                    if not hit:
                        st["fast_path_parse_after"]["nothing-of-these"] += 1
                    if "value" in op:
                        st["roundtrips_judged_in_history"] += 1
                    nontrivial.add(("history", tuple(sorted(flags)), str(op["text"])))
                flags.add(op["k"].split("-")[0])
            fails = judge(sess, iso, m, ctx.disagree, st)
            reported = set()
            for f in fails:
                st["failures"] += 1
                if f["key"] in reported:
                    continue
                reported.add(f["key"])
                if f.get("also_fresh"):
                    # the statement fails for this cell on a fresh object too: not a matter of history; same replay as the main streams
                    op = ops[f["at"]]
                    if "value" in op and f["key"] == K_RT_HISTORY:
                        import c08
                        rr = dict(fn="roundtrip", value=op["value"])
                        v.failing_input(c08.u1_key(rr, "list-roundtrip"), f["what"], rr)
                    else:
                        v.failing_input("string-vs-list" if f["key"] == K_SVL_HISTORY else "expand-then-split", f["what"],
                                        dict(fn="session", ops=[op], ctxs=sess["ctxs"], at=0, key=f["key"]))
                    continue
                if attempts.get(f["key"], 0) >= 3:
                    continue            # this class was already reproduced and minimised three times in this run
                attempts[f["key"]] = attempts.get(f["key"], 0) + 1
                try:
                    rep = clean.reproduce(prior, sess, f["at"]) if clean else None
                except Exception:
                    rep, clean = None, None
                if rep is not None:
                    small, key, what = rep
                    at = len(small["ops"]) - 1
                elif clean:
                    # seen in this process, not reproduced by re-running its calls in a pristine one
                    st["failures_not_reproduced_in_a_clean_process"] = st.get("failures_not_reproduced_in_a_clean_process", 0) + 1
                    ctx.disagree("history: a failure seen in the harness process does not reproduce in a pristine process",
                                 dict(history=[show_op(o, sess["ctxs"]) for o in ops[:f["at"] + 1]]), f["key"], f["what"])
                    continue
                else:
                    small, at, what = minimise(sess, f["at"], f["key"], iso)
                    key = f["key"]
                hist = "; ".join(show_op(o, small["ctxs"]) for o in small["ops"][:at]) or "<nothing>"
                v.failing_input(key, f"after the calls [{hist}]: {what or f['what']}",
                                dict(fn="session", ops=small["ops"], ctxs=small["ctxs"], at=at, key=key))
            prior.append(sess)
            if len(samples) < 3 and len(ops) >= 4:
                samples.append([show_op(o, sess["ctxs"]) for o in ops])
    finally:
        if iso:
            st["isolated_calls"] = iso.calls
            iso.close()
    st["wall_s"] = round(time.time() - t0, 1)
    ctx.stats["histories"] = st
    return samples


def replay_session(r):
    """the replay record of a history failure: reproduced iff some call of the history, run in one pristine process,
    differs from the same call as the only call of a process (or fails a statement it satisfies alone)"""
    import isolate

    sess = dict(ops=r["ops"], ctxs=r["ctxs"])
    iso = None
    try:
        iso = isolate.Isolated()
    except Exception:
        pass
    try:
        fails = Clean(iso).all_fails(sess) if iso else judge(sess, None)
        got = run_history(sess["ops"], sess["ctxs"])
    finally:
        if iso:
            iso.close()
    for i, (op, g) in enumerate(zip(sess["ops"], got)):
        print(f"  call {i}: {show_op(op, sess['ctxs'])} -> {outcome(g)}")
    for f in fails:
        print(f"  FAILS at call {f['at']} [{f['key']}]: {f['what']}")
    return not fails
