"""C09 — the same data in different column layouts parses to the same row.

Pairs of encodings of ONE value, drawn from the constructors of the `Encodes` relation
(coq/theories/Row/Layout... RowFacts.v): list spread `f.1..` or one cell with separators;
sub-record spread `f.a/f.b`, packed positionally, packed as key;value pairs, or mixed;
`*` columns with per-element lists or one broadcast value; short flow headers (from,
condition, condition_var, ..., message_text) or their long forms; column permutations
across different fields.  Values equal to field names are generated on purpose
(keyword/positional flipping).
(a) correspondence: model parse_row vs implementation parse_row on every encoding and on a
    stream of encodings that violate a side condition;
(b) oracle on the implementation: the two parsed instances are equal (and equal the value)."""
import c09_history
import rowgen
import rowlib
from c07 import (_deep_eq, _show_ty, _jsonable_ty, _ty_from_json, ask_all, norm_res, impl_parse, flow_desc,
                 flow_ctx_tables, gen_flow_row, all_names)
from common import parse_sexp, run_cli_mode
from rowlib import REQUIRED

LEVEL = "proof"
BASIC = ("str", "int", "float", "bool")
K_PADDED_TYPE = "short-header-with-padded-type-cell"
K_RAW_BACKSLASH = "backslash-before-ordinary-character-layout-dependent"
# the characters str.strip() removes (Base/PyStr.v: is_ws)
PY_WS = [chr(c) for c in list(range(0x9, 0xE)) + list(range(0x1C, 0x21)) + [0x85, 0xA0, 0x1680] + list(range(0x2000, 0x200B))
         + [0x2028, 0x2029, 0x202F, 0x205F, 0x3000]]


def pad_type_cell(rng, cells, column):
    """the same flow row with whitespace around the text of the row-type cell: the row parser strips the cell, so
    this is another layout of the same data"""
    common = [" ", " ", "\n", "\t", "  "]
    w1 = "".join(rng.choice(common if rng.random() < 0.6 else PY_WS) for _ in range(rng.choice([0, 1, 1, 2])))
    w2 = "".join(rng.choice(common if rng.random() < 0.6 else PY_WS) for _ in range(rng.choice([0, 1, 1, 2])))
    if not (w1 or w2):
        w1 = " "
    return [(h, (w1 + x + w2) if h == column else x) for (h, x) in cells]


class NoEncoding(Exception):
    """this constructor's side condition does not hold for the value at hand"""


def esc(s):
    return s.replace("\\", "\\\\").replace("|", "\\|").replace(";", "\\;")


def esc_lenient(rng, s, end=False, p_raw=0.8):
    """another writing of the text s inside a cell that is split: `|` and `;` escaped; a backslash doubled only where the
    cell syntax needs it — before a backslash or a separator, and at the end of an element that something follows (the
    backslash would protect the separator).  Before any other character, and at the very end of the cell (end=True), a
    backslash stands for itself (docs/sheets.md: "`\\` can be used as an escape character"; what a user types who writes
    the regular expression ^\\d+$ or the path C:\\temp into a `condition` cell)."""
    out = []
    for i, c in enumerate(s):
        if c in "|;":
            out.append("\\" + c)
        elif c == "\\":
            nxt = s[i + 1] if i + 1 < len(s) else None
            may_raw = (nxt is not None and nxt not in "\\|;") or (nxt is None and end)
            out.append("\\" if may_raw and rng.random() < p_raw else "\\\\")
        else:
            out.append(c)
    return "".join(out)


def canon_esc(text):
    """a leniently escaped cell text re-written canonically (every backslash that stands for itself doubled); the identity
    on what esc() writes.  Used to CLASSIFY a failure only."""
    out, i = [], 0
    while i < len(text):
        c = text[i]
        if c == "\\":
            if i + 1 < len(text) and text[i + 1] in "\\|;":
                out.append(text[i:i + 2])
                i += 2
                continue
            out.append("\\\\")
        else:
            out.append(c)
        i += 1
    return "".join(out)


# texts with backslashes in every position the cell syntax distinguishes: before an ordinary character, at the end, at the
# start, doubled, tripled, before a separator, before whitespace, alone
RAW_POOL = ["^\\d+$", "\\w+ \\w+", "C:\\temp\\new", "\\", "\\\\", "a\\", "\\a", "\\\\a", "a\\\\", "\\|", "\\;", "a\\|b", "a\\;b", "\\\\|",
            "\\\\\\", "\\n", "\\ a", "a \\ b", "é\\é", "\\1", "\\\\d", "\\|\\", "|\\", ";\\a", "a|\\b", "\\.\\*", "(\\d{3})-\\d", "\\\n\\", "x\\y\\",
            "\\\\\\d", "a\\\\|b", "\\type", "\\name"]
RAW_PIECES = ["\\", "\\", "\\", "\\\\", "\\d", "\\w", "\\|", "\\;", "\\ ", "a", "b", "d", "1", " ", "é", ".", "+", "$", "|", ";", "\n", "C:", "=", ":"]


def raw_text(rng, names=()):
    r = rng.random()
    if r < 0.4:
        return rng.choice(RAW_POOL)
    if r < 0.45 and names:
        return "\\" + rng.choice(list(names))       # backslash + a field name
    for _ in range(20):
        s = "".join(rng.choice(RAW_PIECES) for _ in range(rng.choice([1, 2, 2, 3, 4, 6]))).strip()
        if s and "\\" in s and rowgen.text_ok(s):
            return s
    return "a\\b"


def backslash_positions(s):
    """which of the positions the cell syntax distinguishes occur in s"""
    out = set()
    for i, c in enumerate(s):
        if c != "\\":
            continue
        nxt = s[i + 1] if i + 1 < len(s) else None
        if nxt is None:
            out.add("at-end")
        elif nxt == "\\":
            out.add("before-backslash")
        elif nxt in "|;":
            out.add("before-separator")
        elif nxt.isspace():
            out.add("before-whitespace")
        else:
            out.add("before-ordinary")
        if i == 0:
            out.add("at-start")
    return out


def inject_raw(rng, t, v, p=0.6, names=(), only_nondefault=False, d=REQUIRED):
    """the value with str leaves replaced by raw_text (list elements stay non-blank)"""
    k = t[0]
    if k == "str":
        if only_nondefault and d is not REQUIRED and v == d:
            return v
        return raw_text(rng, names) if rng.random() < p else v
    if k == "list":
        return [inject_raw(rng, t[1], x, p, names) for x in v]
    if k == "ulist":
        return [(raw_text(rng, names) if isinstance(x, str) and rng.random() < p else x) for x in v]
    if k == "model":
        return {n: inject_raw(rng, ft, v[n], p, names, only_nondefault, fd) for (n, ft, fd) in t[2]}
    return v


def leaf_texts(v):
    if isinstance(v, str):
        return [v]
    if isinstance(v, list):
        return [s for x in v for s in leaf_texts(x)]
    if isinstance(v, dict):
        return [s for x in v.values() for s in leaf_texts(x)]
    return []


def btext(t, v):
    return v if t[0] == "str" else str(v)


def wf_list(texts):
    """a list of leaf texts can be written with one separator level"""
    if not texts:
        return False
    if len(texts) >= 2 and texts[-1] == "":
        return False
    return all(rowgen.text_ok(s) for s in texts)


def join(texts, sep):
    """E1's join for one level (trailing separator for a single element)"""
    if len(texts) == 1:
        return esc(texts[0]) + sep
    return sep.join(esc(s) for s in texts)


def is_default(d, v):
    return d is not REQUIRED and v == d


class Enc:
    """random encoder; `tags` records which constructors were used"""

    def __init__(self, rng, unsafe=False, lenient=0.0):
        self.rng = rng
        self.tags = set()
        self.unsafe = unsafe      # ignore the keyword/positional side condition (malformed stream)
        self.no_pad = set()       # headers whose raw text is read by the context remap
        self.lenient = lenient    # probability that a text with a backslash is written with esc_lenient in a packed cell
        self.raw_log = []         # (lenient writing, canonical writing) of the texts written that way
        self.packed_cells = set() # the (header, text) cells that the parser splits (written through esc / join)

    def packed(self, header, text):
        self.packed_cells.add((header, text))
        return (header, text)

    def esc(self, s, end=False):
        """the text s as an element of a packed cell.  end: nothing follows it in the cell"""
        if self.lenient and "\\" in s and self.rng.random() < self.lenient:
            out = esc_lenient(self.rng, s, end)
            if out != esc(s):
                self.tags.add("raw-backslash")
                self.raw_log.append((out, esc(s)))
            return out
        return esc(s)

    def join(self, texts, sep, end=True):
        """E1's join for one level (trailing separator for a single element).  end: the list ends the cell"""
        if len(texts) == 1:
            return self.esc(texts[0]) + sep
        return sep.join(self.esc(x, end=(end and i == len(texts) - 1)) for i, x in enumerate(texts))

    # ---- one value at a header prefix -> list of (header, text)
    def single_cell(self, t, v, prefix):
        """the value in ONE cell (needed under a short header: the context remap only knows the
        exact header, not header.1)"""
        for _ in range(8):
            cols = self.value(t, v, prefix)
            if len(cols) == 1 and cols[0][0] == prefix:
                return cols
        raise NoEncoding

    def value(self, t, v, prefix, d=REQUIRED):
        k = t[0]
        if k in BASIC:
            s = btext(t, v)
            if k == "str" and not rowgen.text_ok(s):
                raise NoEncoding
            if self.rng.random() < 0.15 and prefix not in self.no_pad:
                s = self.rng.choice([" ", "\n", "  "]) + s + self.rng.choice(["", " "])
                self.tags.add("padded-basic")
            return [(prefix, s)]
        if k == "list":
            return self.list_(t, v, prefix)
        if k == "ulist":
            return self.ulist(v, prefix)
        if k == "model":
            return self.model(t, v, prefix)
        raise NoEncoding

    def ulist(self, v, prefix):
        if all(isinstance(x, str) for x in v) and v and self.rng.random() < 0.5:
            if not all(rowgen.text_ok(x) for x in v):
                raise NoEncoding
            self.tags.add("list-spread")
            return [(f"{prefix}.{i + 1}", x) for i, x in enumerate(v)]
        x = v
        if rowgen.depth(x) > 2 or not rowgen.cell_wf(x):
            raise NoEncoding
        self.tags.add("ulist-packed")
        return [self.packed(prefix, self.join_nested(x))]

    def join_nested(self, x):
        n = len(x)
        parts = []
        for i, y in enumerate(x):
            last = n > 1 and i == n - 1
            parts.append(self.esc(y, end=last) if isinstance(y, str) else self.join(y, ";", end=last))
        return parts[0] + "|" if n == 1 else "|".join(parts)

    def list_(self, t, v, prefix):
        et = t[1]
        r = self.rng.random()
        if et[0] in BASIC:
            texts = [btext(et, x) for x in v]
            if r < 0.4 or not v:
                if not v:
                    self.tags.add("list-empty-cell")
                    return [(prefix, "")]
                if not all(rowgen.text_ok(s) for s in texts):
                    raise NoEncoding
                self.tags.add("list-spread")
                return [(f"{prefix}.{i + 1}", s) for i, s in enumerate(texts)]
            if not wf_list(texts):
                raise NoEncoding
            if len(texts) == 1 and texts[0] != "" and self.rng.random() < 0.4:
                self.tags.add("list-scalar-cell")
                return [self.packed(prefix, self.esc(texts[0], end=True))]
            self.tags.add("list-packed")
            return [self.packed(prefix, self.join(texts, self.rng.choice("|;")))]
        if et[0] == "list" and et[1][0] in BASIC:
            if r < 0.5 and v:
                x = [[btext(et[1], y) for y in e] for e in v]
                if not rowgen.cell_wf(x):
                    raise NoEncoding
                self.tags.add("list2-packed")
                return [self.packed(prefix, self.join_nested(x))]
            out = []
            for i, e in enumerate(v):
                if not e:
                    raise NoEncoding
                out += self.list_(et, e, f"{prefix}.{i + 1}")
            self.tags.add("list-spread")
            return out
        if et[0] == "model":
            if not v:
                raise NoEncoding
            fields = et[2]
            if r < 0.3 and all(ft[0] in BASIC for (_, ft, _) in fields) and not et[4]:
                return self.star(et, v, prefix)
            if r < 0.4:
                # the whole list in one cell: one positional record per element
                rows = [self.positional_texts(et, e, full=True) for e in v]
                if not all(rows) or not rowgen.cell_wf(rows):
                    raise NoEncoding
                self.tags.add("list-of-records-packed")
                return [self.packed(prefix, self.join_nested(rows))]
            out = []
            for i, e in enumerate(v):
                cols = self.value(et, e, f"{prefix}.{i + 1}")
                if not cols:
                    raise NoEncoding            # an all-default element writes nothing: not encodable spread
                out += cols
            self.tags.add("list-spread")
            return out
        # lists of other things: spread only
        out = []
        for i, e in enumerate(v):
            cols = self.value(et, e, f"{prefix}.{i + 1}")
            if not cols:
                raise NoEncoding
            out += cols
        self.tags.add("list-spread")
        return out

    def star(self, et, v, prefix):
        """f.*.g columns: a per-element list, or one broadcast value when all elements agree"""
        n = len(v)
        cols = []
        have_len = n == 1
        for (g, gt, d) in et[2]:
            texts = [btext(gt, e[g]) for e in v]
            if all(is_default(d, e[g]) for e in v) and self.rng.random() < 0.7:
                continue
            h = f"{prefix}.*.{g}"
            if len(set(texts)) == 1 and (self.rng.random() < 0.6 or n == 1):
                if not rowgen.text_ok(texts[0]) or (gt[0] == "bool" and False):
                    raise NoEncoding
                cols.append(self.packed(h, self.esc(texts[0], end=True)))
                self.tags.add("star-broadcast")
            else:
                if not wf_list(texts) or n < 2:
                    raise NoEncoding
                cols.append(self.packed(h, self.join(texts, "|")))
                have_len = True
                self.tags.add("star-list")
        if not have_len or not cols:
            raise NoEncoding
        return cols

    def positional_texts(self, t, v, full=False):
        """texts of the leading fields of a record written positionally (None if impossible)"""
        fields = t[2]
        last = -1
        for i, (n, ft, d) in enumerate(fields):
            if not is_default(d, v[n]):
                last = i
        k = max(last + 1, 1)
        if full and self.rng.random() < 0.3:
            k = len(fields)
        out = []
        for (n, ft, d) in fields[:k]:
            if ft[0] not in BASIC:
                return None
            out.append(btext(ft, v[n]))
        if not wf_list(out):
            return None
        names = {n for (n, _, _) in fields} | set(t[3].keys())
        if not self.unsafe:
            if len(out) == 2 and t[3].get(out[0], out[0]) in {n for (n, _, _) in fields}:
                return None                    # would be read as ONE key;value pair
        return out

    @staticmethod
    def reads_as_one_pair(t, x):
        """try_assign_as_kwarg on the WHOLE cell: a two-entry list whose first entry is a string naming a field
        (after header_name_to_field_name) is ONE key;value pair, whatever the writer meant"""
        names = {n for (n, _, _) in t[2]}
        return isinstance(x, list) and len(x) == 2 and isinstance(x[0], str) and t[3].get(x[0], x[0]) in names

    def pair_key(self, t, n):
        """the key of a key;value pair for field n: the field name, or the header alias of the field
        (field_name_to_header_name) when header_name_to_field_name maps it back — ArgsKw: key = remap_get h2f k"""
        h = t[4].get(n, n)
        if h != n and t[3].get(h, h) == n and self.rng.random() < 0.6:
            self.tags.add("pair-key-alias")
            return h
        if t[3].get(n, n) != n:
            raise NoEncoding                   # the field name, used as a header, means another field
        return n

    def model(self, t, v, prefix):
        fields = t[2]
        r = self.rng.random()
        nondefault = [(n, ft, d) for (n, ft, d) in fields if not is_default(d, v[n])]
        if prefix and r < 0.25:
            texts = self.positional_texts(t, v)
            if texts is None:
                raise NoEncoding
            self.tags.add("record-positional")
            if len(texts) == 1 and texts[0] != "" and self.rng.random() < 0.5:
                return [self.packed(prefix, self.esc(texts[0], end=True))]
            return [self.packed(prefix, self.join(texts, self.rng.choice("|;")))]
        if prefix and r < 0.5 and nondefault:
            if not all(ft[0] in BASIC for (_, ft, _) in nondefault):
                raise NoEncoding
            pairs = [[self.pair_key(t, n), btext(ft, v[n])] for (n, ft, _) in nondefault]
            self.rng.shuffle(pairs)
            if not rowgen.cell_wf(pairs):
                raise NoEncoding
            self.tags.add("record-key-value")
            if len(pairs) == 1 and self.rng.random() < 0.5:
                return [self.packed(prefix, self.esc(pairs[0][0]) + ";" + self.esc(pairs[0][1], end=True))]      # one bare pair
            return [self.packed(prefix, self.join_nested(pairs))]
        if prefix and r < 0.6 and len(nondefault) >= 2:
            # positional head, key;value tail
            head = []
            i = 0
            while i < len(fields) and fields[i][1][0] in BASIC and len(head) < 2 and self.rng.random() < 0.7:
                head.append(btext(fields[i][1], v[fields[i][0]]))
                i += 1
            rest = [(n, ft, d) for (n, ft, d) in fields[i:] if not is_default(d, v[n])]
            if not head or not rest or not all(ft[0] in BASIC for (_, ft, _) in rest):
                raise NoEncoding
            x = head + [[self.pair_key(t, n), btext(ft, v[n])] for (n, ft, _) in rest]
            if not rowgen.cell_wf(x) or any(s == "" for s in head):
                raise NoEncoding
            if not self.unsafe and self.reads_as_one_pair(t, x):
                raise NoEncoding               # side condition of NvModelArgs: as_kwarg (whole cell) = None
            self.tags.add("record-mixed")
            return [self.packed(prefix, self.join_nested(x))]
        # spread
        out = []
        for (n, ft, d) in fields:
            if is_default(d, v[n]) and self.rng.random() < 0.8:
                continue
            h = t[4].get(n, n)
            if t[3].get(h, h) != n:
                raise NoEncoding
            cols = self.value(ft, v[n], f"{prefix}.{h}" if prefix else h, d)
            if not cols and not is_default(d, v[n]):
                raise NoEncoding
            out += cols
        self.tags.add("record-spread" if prefix else "row")
        return out


def top_field(h):
    return h.split(".")[0].split(":")[0].strip()


def permute(rng, cells, group=top_field):
    """a permutation that keeps the relative order of the columns of each top-level field"""
    groups = {}
    order = []
    for c in cells:
        g = group(c[0])
        if g not in groups:
            groups[g] = []
        groups[g].append(c)
        order.append(g)
    rng.shuffle(order)
    out = []
    idx = {g: 0 for g in groups}
    for g in order:
        out.append(groups[g][idx[g]])
        idx[g] += 1
    return out


def encode_row(rng, t, v, unsafe=False, lenient=0.0, log=None):
    """log: a set that receives the (header, text) cells of this encoding that the parser splits"""
    e = Enc(rng, unsafe, lenient)
    if log is not None:
        e.packed_cells = log
    cells = e.value(t, v, "")
    heads = [h for h, _ in cells]
    if len(set(heads)) != len(heads):
        raise NoEncoding
    if rng.random() < 0.6:
        cells = permute(rng, cells)
        e.tags.add("permuted")
    return cells, e.tags


# ------------------------------------------------------------------------------ flow rows
def flow_group(cx):
    def g(h):
        f = cx["basic"].get(h, h)
        if h == cx["sw_header"]:
            return "<main>"
        return f.split(".")[0]
    return g


def encode_flow(rng, desc, cx, v, lenient=0.0, log=None):
    """one encoding of a flow row: short or long headers per field"""
    e = Enc(rng, lenient=lenient)
    if log is not None:
        e.packed_cells = log
    e.no_pad.add(cx["sw_column"])
    f2h = desc[4]
    short_of = {}
    for h, f in cx["basic"].items():
        short_of.setdefault(f, []).append(h)
    cells = []
    for (n, ft, d) in desc[2]:
        if n == "edges":
            cells += encode_edges(rng, e, ft, v[n], short_of)
            continue
        if is_default(d, v[n]) and rng.random() < 0.85:
            continue
        if f2h.get(n) == cx["sw_header"]:
            if cx["sw_table"].get(v["type"]) == n and rng.random() < 0.6:
                h = cx["sw_header"]
                e.tags.add("short:message_text")
            else:
                h = n
                e.tags.add("long:" + n)
        elif n in short_of and rng.random() < 0.5:
            h = rng.choice(short_of[n])
            e.tags.add("short:" + h)
        else:
            h = n
        cols = e.value(ft, v[n], h, d) if h == n else e.single_cell(ft, v[n], h)
        cells += cols
    heads = [h for h, _ in cells]
    if len(set(heads)) != len(heads):
        raise NoEncoding
    if rng.random() < 0.6:
        cells = permute(rng, cells, flow_group(cx))
        e.tags.add("permuted")
    return cells, e.tags


def encode_edges(rng, e, ft, edges, short_of):
    et = ft[1]
    n = len(edges)
    cond_t = [f for f in et[2] if f[0] == "condition"][0][1]
    r = rng.random()
    if r < 0.45:
        # star columns, short or long names
        cols = []
        have_len = n == 1
        specs = [("from_", ["edges.*.from_", "edges.*.from"] + short_of.get("edges.*.from_", []), [x["from_"] for x in edges])]
        for (g, gt, d) in cond_t[2]:
            long_ = f"edges.*.condition.{g}"
            specs.append((g, [long_] + short_of.get(long_, []), [x["condition"][g] for x in edges]))
        for (g, names, texts) in specs:
            if all(s == "" for s in texts) and rng.random() < 0.8:
                continue
            h = rng.choice(names)
            e.tags.add(("short:" if "." not in h else "long*:") + h)
            if len(set(texts)) == 1 and (n == 1 or rng.random() < 0.6):
                if not rowgen.text_ok(texts[0]):
                    raise NoEncoding
                cols.append(e.packed(h, e.esc(texts[0], end=True)))
                e.tags.add("star-broadcast")
            else:
                if n < 2 or not wf_list(texts):
                    raise NoEncoding
                cols.append(e.packed(h, e.join(texts, "|")))
                have_len = True
                e.tags.add("star-list")
        if not have_len or not cols:
            raise NoEncoding
        return cols
    out = []
    for i, x in enumerate(edges):
        cols = e.value(et, x, f"edges.{i + 1}")
        if not cols:
            raise NoEncoding
        out += cols
    e.tags.add("edges-by-index")
    return out



# ------------------------------------------------------------------------------ directed `*` groups
STAR_TEXTS = ["a", "b", "c", "x y", "7", "type", "name", "value", "é", "a;b", "p|q", "has_any_word", "@x"]


def _nondefault(rng, ft, d, texts=None):
    k = ft[0]
    if k == "str":
        for _ in range(20):
            x = rng.choice(texts or STAR_TEXTS)
            if x != d:
                return x
        return "zz"
    if k == "int":
        return rng.choice([x for x in (1, 2, 7, -3, 12) if x != d])
    if k == "bool":
        return not d
    raise ValueError(k)


def _star_kinds(rng, nf):
    """per column: long (a value for every element), short (values for the first k < n elements only),
    scalar (ONE non-default value, to be broadcast), absent.  Always at least one of long/short/scalar."""
    kinds = ["long", "short", "scalar"] + [rng.choice(["long", "short", "scalar", "absent"]) for _ in range(nf - 3)]
    rng.shuffle(kinds)
    return kinds


def _star_values(rng, specs, n, texts=None):
    """specs: [(key, ft, default, kind)] -> {key: (kind, k, [value per element])}"""
    out = {}
    for (g, ft, d, kind) in specs:
        if kind == "long":
            out[g] = (kind, n, [_nondefault(rng, ft, d, texts) for _ in range(n)])
        elif kind == "short":
            k = rng.randint(1, n - 1)
            out[g] = (kind, k, [_nondefault(rng, ft, d, texts) for _ in range(k)] + [d] * (n - k))
        elif kind == "scalar":
            x = _nondefault(rng, ft, d, texts)
            out[g] = (kind, n, [x] * n)
        else:
            out[g] = (kind, 0, [d] * n)
    return out


def _star_cell(ft, kind, k, vals, enc=None):
    """enc: an Enc whose esc / join write the texts (lenient escaping); None: canonical"""
    texts = [btext(ft, x) for x in vals[:k]]
    if kind == "scalar":
        return enc.esc(texts[0], end=True) if enc else esc(texts[0])
    return enc.join(texts, "|") if enc else join(texts, "|")            # one element: trailing separator, still a list


def _column_orders(rng, cols, lens):
    """column orders of a `*` group: longest list first / last, reversed, random"""
    idx = list(range(len(cols)))
    by_len = sorted(idx, key=lambda i: lens[i])
    orders = [by_len[::-1], by_len, idx[::-1]]
    sh = idx[:]
    rng.shuffle(sh)
    orders.append(sh)
    seen, out = set(), []
    for o in orders:
        if tuple(o) not in seen:
            seen.add(tuple(o))
            out.append([cols[i] for i in o])
    return out


def _interleave(rng, main, extra):
    out = list(main)
    for c in extra:
        out.insert(rng.randint(0, len(out)), c)
    return out


def gen_star_group(rng, texts=None, enc=None):
    """(texts: the pool the str values are drawn from; enc: see _star_cell)
    R{id: str, p: List[E] = [], z: str = ""}, E with 3..5 basic fields with defaults; a value of n elements
    and its layouts: `p.*.g` columns in several orders (sibling lists of UNEQUAL lengths, scalars broadcasting a
    non-default value) and the spread layout `p.i.g`"""
    nf = rng.randint(3, 5)
    names = rng.sample(["a", "b", "c", "value", "name", "type", "k", "x_y"], nf)
    kinds = _star_kinds(rng, nf)
    n = rng.randint(2, 4)
    fields, specs = [], []
    for g, kind in zip(names, kinds):
        ft = rng.choice([rowlib.STR, rowlib.STR, rowlib.STR, rowlib.INT, rowlib.BOOL])
        d = {"str": rng.choice(["", "", "dflt"]), "int": rng.choice([0, 5]), "bool": rng.random() < 0.5}[ft[0]]
        fields.append((g, ft, d))
        specs.append((g, ft, d, kind))
    E = ("model", "E", fields, {}, {})
    R = ("model", "R", [("id", rowlib.STR, REQUIRED), ("p", ("list", E), []), ("z", rowlib.STR, "")], {}, {})
    vals = _star_values(rng, specs, n, texts)
    value = {"id": "r1", "p": [{g: vals[g][2][i] for (g, _, _) in fields} for i in range(n)], "z": ""}
    star_cols, lens = [], []
    for (g, ft, d, kind) in specs:
        if kind == "absent":
            continue
        star_cols.append((f"p.*.{g}", _star_cell(ft, kind, vals[g][1], vals[g][2], enc)))
        lens.append(1 if kind == "scalar" else vals[g][1])
    spread = []
    for i in range(n):
        for (g, ft, d) in fields:
            if vals[g][2][i] != d or rng.random() < 0.3 or g == fields[0][0]:
                spread.append((f"p.{i + 1}.{g}", btext(ft, vals[g][2][i])))
    extra = [("id", "r1")] + ([("z", "")] if rng.random() < 0.3 else [])
    layouts = [_interleave(rng, o, extra) for o in _column_orders(rng, star_cols, lens)]
    return R, value, layouts, _interleave(rng, spread, extra), kinds, n


# the pairing of short and long edge headers AS THE PROPERTY NAMES THEM (condition_X <-> edges.*.condition.X, from <->
# edges.*.from): written here, not read from the code's table, so that a table that maps a short header to the wrong
# long form is seen
FLOW_SHORT_NAMES = {"from_": ["from"], "value": ["condition", "condition_value"], "variable": ["condition_var", "condition_variable"],
                    "type": ["condition_type"], "name": ["condition_name"]}
FLOW_SHORT_ALL = {h for hs in FLOW_SHORT_NAMES.values() for h in hs}
FLOW_STAR_FIELDS = [("from_", "edges.*.from_"), ("value", "edges.*.condition.value"), ("variable", "edges.*.condition.variable"),
                    ("type", "edges.*.condition.type"), ("name", "edges.*.condition.name")]


def gen_flow_star_group(rng, desc, cx, texts=None, enc=None):
    """(texts, enc: as gen_star_group)
    a flow row whose edges are written with the short headers from/condition/condition_var/condition_type/
    condition_name (or their long `edges.*...` forms): sibling lists of unequal lengths + scalar broadcasts,
    and the same row with indexed columns edges.i...."""
    short_of = {}
    for h, f in cx["basic"].items():
        short_of.setdefault(f, []).append(h)
    kinds = _star_kinds(rng, len(FLOW_STAR_FIELDS))
    n = rng.randint(2, 4)
    specs = [(g, rowlib.STR, "", kind) for (g, _), kind in zip(FLOW_STAR_FIELDS, kinds)]
    vals = _star_values(rng, specs, n, texts)
    edges = [{"from_": vals["from_"][2][i],
              "condition": {g: vals[g][2][i] for g in ("value", "variable", "type", "name")}} for i in range(n)]
    rtype = "send_message"
    main = cx["sw_table"][rtype]
    value = {}
    for (fn, ft, d) in desc[2]:
        value[fn] = d
    value.update({"type": rtype, "edges": edges, main: "hi", "row_id": "7"})
    star_cols, lens = [], []
    for (g, long_), kind in zip(FLOW_STAR_FIELDS, kinds):
        if kind == "absent":
            continue
        names = [long_] + FLOW_SHORT_NAMES[g]
        if g == "from_":
            names.append("edges.*.from")
        h = rng.choice(names) if rng.random() < 0.3 else rng.choice(FLOW_SHORT_NAMES[g])
        star_cols.append((h, _star_cell(rowlib.STR, kind, vals[g][1], vals[g][2], enc)))
        lens.append(1 if kind == "scalar" else vals[g][1])
    spread = []
    for i in range(n):
        spread.append((f"edges.{i + 1}.from", vals["from_"][2][i]))
        for g in ("value", "variable", "type", "name"):
            if vals[g][2][i] != "" or rng.random() < 0.2:
                spread.append((f"edges.{i + 1}.condition.{g}", vals[g][2][i]))
    extra = [("row_id", "7"), ("type", rtype), (rng.choice([cx["sw_header"], main]), "hi")]
    layouts = [_interleave(rng, o, extra) for o in _column_orders(rng, star_cols, lens)]
    return value, layouts, _interleave(rng, spread, extra), kinds, n


# ------------------------------------------------------------------------------ the witnesses of the _refuted theorems
def _m(name, fields):
    return ("model", name, fields, {}, {})


def refutation_witnesses(sw_strip=False):
    """sw_strip: the translator's probe (is the row-type cell stripped before the lookup behind `message_text`?);
    it selects which branch of Example C09_padded_type_witness describes the tree.
    (name, model description | "flow", cells, expected) — the exact inputs of the Examples
    C09_positional_flip_witness / _entry_flip_ / _mixed_flip_ / C09_padded_type_witness in coq/props/C09.v.
    expected: ("ok", projection) | ("err",).  If the implementation stops behaving like this the refutations no
    longer describe the code (reported as a disagreement)."""
    STR, INT = rowlib.STR, rowlib.INT
    AB = _m("AB", [("a", STR, ""), ("b", STR, "")])
    RAB = _m("RAB", [("m", AB, {"a": "", "b": ""})])
    TN = _m("TN", [("tags", ("list", STR), []), ("n", STR, "")])
    RTN = _m("RTN", [("m", TN, {"tags": [], "n": ""})])
    AN = _m("AN", [("a", STR, ""), ("n", INT, 0)])
    RAN = _m("RAN", [("m", AN, {"a": "", "n": 0})])
    return [
        ("positional: spread", RAB, [("m.a", "b"), ("m.b", "x")], ("ok", {"m": {"a": "b", "b": "x"}})),
        ("positional: first value is a field name", RAB, [("m", "b|x")], ("ok", {"m": {"a": "", "b": "x"}})),
        ("positional: first value is not a field name", RAB, [("m", "c|x")], ("ok", {"m": {"a": "c", "b": "x"}})),
        ("entry: spread", RTN, [("m.tags.1", "n"), ("m.tags.2", "x"), ("m.n", "foo")], ("ok", {"m": {"tags": ["n", "x"], "n": "foo"}})),
        ("entry: list-valued positional argument starting with a field name", RTN, [("m", "n;x|foo")], ("ok", {"m": {"tags": [], "n": "foo"}})),
        ("entry: not a field name", RTN, [("m", "q;x|foo")], ("ok", {"m": {"tags": ["q", "x"], "n": "foo"}})),
        ("mixed: spread", RAN, [("m.a", "n"), ("m.n", "5")], ("ok", {"m": {"a": "n", "n": 5}})),
        ("mixed: positional entry is a field name", RAN, [("m", "n|n;5")], ("err",)),
        ("mixed: not a field name", RAN, [("m", "q|n;5")], ("ok", {"m": {"a": "q", "n": 5}})),
        ("padded type cell, short header", "flow", [("type", " send_message"), ("message_text", "hi"), ("from", "start")],
         ("ok", {"type": "send_message", "mainarg_message_text": "hi"}) if sw_strip else ("err",)),
        ("padded type cell, long header", "flow", [("type", " send_message"), ("mainarg_message_text", "hi"), ("from", "start")],
         ("ok", {"type": "send_message", "mainarg_message_text": "hi"})),
        ("unpadded type cell, short header", "flow", [("type", "send_message"), ("message_text", "hi"), ("from", "start")],
         ("ok", {"type": "send_message", "mainarg_message_text": "hi"})),
    ]


# ------------------------------------------------------------------------------ run
def run(ctx):
    from rpft.parsers.common.cellparser import CellParser
    from rpft.parsers.common.rowparser import RowParser
    from rpft.parsers.creation.flowrowmodel import FlowRowModel

    v, rng, m = ctx.v, ctx.rng, ctx.model
    thorough = ctx.tier == "thorough"
    n_pairs = (25000 if thorough else 1500) * ctx.scale
    stats = {"pairs": 0, "values_without_two_encodings": 0, "unsafe_encodings": 0, "unsafe_parse_differs": 0,
             "constructors": {}, "model_unsupported": 0, "values_equal_to_field_name": 0}
    nontrivial = set()
    samples = []
    raw_samples = []
    batch = []

    def add_tags(tags):
        for tg in tags:
            key = tg.split(":")[0]
            stats["constructors"][key] = stats["constructors"].get(key, 0) + 1

    def flush():
        nonlocal batch
        if not (m and batch):
            batch = []
            return
        lines = [ln for item in batch for ln in item[0]]
        outs = [parse_sexp(o) if o else None for o in ask_all(m, lines)]
        k = 0
        for (reqs, what, cells_list, impl_list) in batch:
            for cells, im in zip(cells_list, impl_list):
                mp = norm_res(outs[k], rowlib.d_value)
                k += 1
                case = dict(model=what, cells=cells)
                if mp[0] == "err" and mp[1] == rowlib.ERR_UNSUPPORTED:
                    stats["model_unsupported"] += 1
                elif mp[0] == "bad":
                    ctx.disagree("parse_row: model could not decode the request", case, mp, im)
                elif (mp[0] == "ok") != (im[0] == "ok"):
                    ctx.disagree("parse_row ok/error", case, mp, im)
                elif mp[0] == "ok" and not _deep_eq(mp[1], im[1]):
                    ctx.disagree("parse_row instance", case, mp[1], im[1])
        batch = []

    # ------------------------------------------------ generic family
    # second pass ("raw"): the str leaves carry backslashes in every position the cell syntax distinguishes (RAW_POOL /
    # raw_text) and the packed cells are written with esc_lenient — a backslash doubled only where the syntax needs it
    n_raw = (8000 if thorough else 500) * ctx.scale
    rstats = {"pairs": 0, "flow_pairs": 0, "star_groups": 0, "values_with_backslash": 0, "encodings_with_a_raw_backslash": 0,
              "pairs_raw_vs_unsplit_or_canonical": 0, "backslash_positions": {}, "raw_backslash_in_constructor": {},
              "values_without_two_encodings": 0}
    stats["raw_backslash"] = rstats

    def note_raw(val, tg1, tg2, c1, c2):
        texts = [x for x in leaf_texts(val) if "\\" in x]
        if texts:
            rstats["values_with_backslash"] += 1
        for x in texts:
            for pos in backslash_positions(x):
                rstats["backslash_positions"][pos] = rstats["backslash_positions"].get(pos, 0) + 1
        for tg in (tg1, tg2):
            if "raw-backslash" in tg:
                rstats["encodings_with_a_raw_backslash"] += 1
                for other in tg:
                    if other not in ("raw-backslash", "permuted", "row", "padded-basic"):
                        key = other.split(":")[0]
                        rstats["raw_backslash_in_constructor"][key] = rstats["raw_backslash_in_constructor"].get(key, 0) + 1
        if ("raw-backslash" in tg1) != ("raw-backslash" in tg2):
            rstats["pairs_raw_vs_unsplit_or_canonical"] += 1

    def raw_class(key, parser, c1, c2, packed, val):
        """causal classification: the class is the backslash written as itself when the same two layouts with the cells the
        parser splits re-written canonically (canon_esc: every such backslash doubled) DO parse alike and to the value.
        packed: the set of those (header, text) cells, or a predicate on the header"""
        if packed is None:
            return key
        is_packed = (lambda h, x: packed(h)) if callable(packed) else (lambda h, x: (h, x) in packed)
        k1 = [(h, canon_esc(x) if is_packed(h, x) else x) for (h, x) in c1]
        k2 = [(h, canon_esc(x) if is_packed(h, x) else x) for (h, x) in c2]
        if (k1, k2) == (list(c1), list(c2)):
            return key
        q1, q2 = impl_parse(parser, k1), impl_parse(parser, k2)
        if q1[0] == "ok" and q2[0] == "ok" and _deep_eq(q1[1], q2[1]) and _deep_eq(q1[1], val):
            return K_RAW_BACKSLASH
        return key

    def directed_raw():
        """every text of RAW_POOL in a fixed small model and in a flow row with a `has_pattern` condition: the spread / long-header
        layout (unsplit cells: the text as it is) against the packed / `*` / short-header layouts with the text written with
        as few backslashes as the cell syntax allows"""
        class Min:                      # an rng whose random() is always 0: esc_lenient doubles a backslash only where it must
            @staticmethod
            def random():
                return 0.0
        STR = rowlib.STR
        AB = _m("AB", [("a", STR, ""), ("b", STR, "")])
        R = _m("R", [("id", STR, REQUIRED), ("f", ("list", STR), []), ("m", AB, {"a": "", "b": ""})])
        rowlib.clear_cache()
        gparser = RowParser(rowlib.py_type(R), CellParser())
        fparser = RowParser(FlowRowModel, CellParser())
        fdesc = flow_desc()
        n = 0
        for x in RAW_POOL:
            mid, end = esc_lenient(Min, x, end=False), esc_lenient(Min, x, end=True)
            val = {"id": "r", "f": [x, "z"], "m": {"a": x, "b": "k"}}
            spread = [("id", "r"), ("f.1", x), ("f.2", "z"), ("m.a", x), ("m.b", "k")]
            val_r = {"id": "r", "f": ["z", x], "m": {"a": x, "b": "k"}}
            spread_r = [("id", "r"), ("f.1", "z"), ("f.2", x), ("m.a", x), ("m.b", "k")]
            val1 = {"id": "r", "f": [x], "m": {"a": x, "b": ""}}
            spread1 = [("id", "r"), ("f.1", x), ("m.a", x)]
            cases = [("list `;`, record positional", [("id", "r"), ("f", mid + ";z"), ("m", mid + "|k")], val, spread),
                     ("list `|` (text last), record key;value (text last)", [("id", "r"), ("f", "z|" + end), ("m", "b;k|a;" + end)], val_r, spread_r),
                     ("`*` column, record key;value", [("id", "r"), ("f.*", mid + "|z"), ("m", "a;" + mid + "|b;k")], val, spread),
                     ("one-element list as a bare cell, record as one bare cell", [("id", "r"), ("f", end), ("m", end)], val1, spread1),
                     ("one-element list with its separator, one bare pair", [("id", "r"), ("f", mid + ";"), ("m", "a;" + end)], val1, spread1)]
            for (what, lay, vv, sp) in cases:
                ps = impl_parse(gparser, sp)
                if True:
                    n += 1
                    v.coverage["evaluations"] += 1
                    nontrivial.add(repr((sorted(lay), sorted(sp))))
                    pl = impl_parse(gparser, lay)
                    if not (pl[0] == "ok" and ps[0] == "ok" and _deep_eq(pl[1], ps[1]) and _deep_eq(ps[1], vv)):
                        v.failing_input(raw_class("layout-dependent-parse", gparser, lay, sp, lambda h: "." not in h or "*" in h, vv),
                                        f"the text {x!r} in two layouts of one value ({what} / spread) parses differently: "
                                        f"model={_show_ty(R)} value={vv!r} cells1={lay} -> {pl}; cells2={sp} -> {ps}",
                                        dict(fn="pair", ty=_jsonable_ty(R), value=vv, cells1=lay, cells2=sp))
                    if m:
                        rm = rowlib.e_rowmodel(R)
                        batch.append(([f"(109 1 {rm} {rowlib.e_cells(c)})" for c in (lay, sp)], _show_ty(R), [lay, sp], [pl, ps]))
            # a flow row: the text as the pattern of a has_pattern condition, as the node the edge comes from, as the variable
            short = [("row_id", "4"), ("type", "send_message"), ("from", end), ("condition", end), ("condition_var", end),
                     ("condition_type", "has_pattern"), ("message_text", "A number")]
            long_ = [("row_id", "4"), ("type", "send_message"), ("edges.1.from", x), ("edges.1.condition.value", x),
                     ("edges.1.condition.variable", x), ("edges.1.condition.type", "has_pattern"), ("mainarg_message_text", "A number")]
            two = [("row_id", "4"), ("type", "send_message"), ("from", mid + "|" + end), ("condition", mid + "|" + end),
                   ("condition_type", "has_pattern"), ("message_text", "A number")]
            two_long = [("row_id", "4"), ("type", "send_message"), ("edges.1.from", x), ("edges.1.condition.value", x),
                        ("edges.1.condition.type", "has_pattern"), ("edges.2.from", x), ("edges.2.condition.value", x),
                        ("edges.2.condition.type", "has_pattern"), ("mainarg_message_text", "A number")]
            for (what, a, b) in (("one edge", short, long_), ("two edges, `|`-separated", two, two_long)):
                n += 1
                v.coverage["evaluations"] += 1
                nontrivial.add(repr((sorted(a), sorted(b))))
                pa, pb = impl_parse(fparser, a), impl_parse(fparser, b)
                good = pa[0] == "ok" and pb[0] == "ok" and _deep_eq(pa[1], pb[1]) and pb[1]["edges"][0]["condition"]["value"] == x \
                    and pb[1]["edges"][0]["from_"] == x
                if not good:
                    v.failing_input(raw_class("flow-layout-dependent-parse", fparser, a, b, lambda h: h in FLOW_SHORT_ALL, pb[1] if pb[0] == "ok" else None),
                                    f"the text {x!r} under the short headers from/condition/condition_var ({what}) and under the long "
                                    f"headers edges.i.… parses differently: cells1={a} -> {pa}; cells2={b} -> {pb}",
                                    dict(fn="flowpair", value=(pb[1] if pb[0] == "ok" else None), cells1=a, cells2=b))
                if m:
                    batch.append(([f"(109 2 {rowlib.e_cells(c)})" for c in (a, b)], "FlowRowModel", [a, b], [pa, pb]))
        flush()
        rstats["directed_layout_pairs"] = n

    directed_raw()
    for raw, n_stream in ((False, n_pairs), (True, n_raw)):
      lenient = 0.85 if raw else 0.0
      for i in range(n_stream):
        rowlib.clear_cache()
        t = rowgen.gen_model(rng, rng.choice([1, 1, 2, 2, 3]), "M", root=True)
        names = all_names(t)
        val = rowgen.gen_value(rng, t, good=True, names=tuple(names))
        if raw:
            val = inject_raw(rng, t, val, 0.6, tuple(names))
        v.coverage["evaluations"] += 1
        encs = []
        log = set()
        for _ in range(12):
            try:
                encs.append(encode_row(rng, t, val, lenient=lenient, log=log))
            except NoEncoding:
                continue
            if len(encs) == 2:
                break
        if len(encs) < 2:
            (rstats if raw else stats)["values_without_two_encodings"] += 1
            continue
        try:
            parser = RowParser(rowlib.py_type(t), CellParser())
            rowlib.instance(t, val)
        except Exception:
            continue
        stats["pairs"] += 1
        (c1, tg1), (c2, tg2) = encs
        add_tags(tg1 | tg2)
        if raw:
            rstats["pairs"] += 1
            note_raw(val, tg1, tg2, c1, c2)
        if _has_name_value(t, val):
            stats["values_equal_to_field_name"] += 1
        p1, p2 = impl_parse(parser, c1), impl_parse(parser, c2)
        ok = p1[0] == "ok" and p2[0] == "ok" and _deep_eq(p1[1], p2[1])
        if not ok:
            v.failing_input(raw_class("layout-dependent-parse", parser, c1, c2, log, val),
                            f"two layouts of one value parse differently: model={_show_ty(t)} value={val!r} cells1={c1} -> {p1}; cells2={c2} -> {p2}",
                            dict(fn="pair", ty=_jsonable_ty(t), value=val, cells1=c1, cells2=c2))
        elif not _deep_eq(p1[1], val):
            v.failing_input(raw_class("encoding-does-not-parse-to-value", parser, c1, c2, log, val),
                            f"an encoding does not parse to the value it encodes: model={_show_ty(t)} value={val!r} cells={c1} -> {p1}",
                            dict(fn="pair", ty=_jsonable_ty(t), value=val, cells1=c1, cells2=c2))
        if c1 != c2:
            nontrivial.add(repr((sorted(c1), sorted(c2))))
        # an encoding that ignores the keyword/positional side condition (malformed stream)
        cells_list, impl_list = [c1, c2], [p1, p2]
        if rng.random() < 0.3:
            try:
                cu, _ = encode_row(rng, t, val, unsafe=True)
                pu = impl_parse(parser, cu)
                stats["unsafe_encodings"] += 1
                stats["unsafe_parse_differs"] += not (pu[0] == "ok" and _deep_eq(pu[1], val))
                cells_list.append(cu)
                impl_list.append(pu)
            except NoEncoding:
                pass
        if m:
            rm = rowlib.e_rowmodel(t)
            batch.append(([f"(109 1 {rm} {rowlib.e_cells(c)})" for c in cells_list], _show_ty(t), cells_list, impl_list))
            if len(batch) >= 300:
                flush()
        if len(samples) < 4 and c1 != c2 and ("star-list" in tg1 | tg2 or "record-key-value" in tg1 | tg2):
            samples.append(dict(model=_show_ty(t), value=val, cells1=c1, cells2=c2))
        if raw and len(raw_samples) < 2 and ("raw-backslash" in tg1) != ("raw-backslash" in tg2):
            raw_samples.append(dict(raw_backslash=True, model=_show_ty(t), value=val, cells1=c1, cells2=c2))
    flush()

    # ------------------------------------------------ flow rows: short vs long headers, * columns
    desc = flow_desc()
    cx, refusal = c09_history.safe_flow_tables()
    if refusal:
        # the behavioural probe of the header tables refuses this tree (the driver reports the translator); the streams
        # run on the tables read from the source
        ctx.disagree("flow header tables: the behavioural probe refuses this tree", "FlowRowModel.header_name_to_field_name_with_context",
                     "tables as probed by the translator", refusal[:300])
        stats["flow_tables_from_source"] = refusal[:300]
    parser = RowParser(FlowRowModel, CellParser())
    n_flow = (8000 if thorough else 700) * ctx.scale
    fstats = {"pairs": 0, "no_two_encodings": 0, "padded_type_cell": 0, "padded_type_cell_with_short_main_header": 0}
    for raw, n_stream in ((False, n_flow), (True, n_raw // 2)):
      lenient = 0.85 if raw else 0.0
      for i in range(n_stream):
        val = gen_flow_row(rng, desc, cx, good=True)
        if raw:
            # raw backslash texts in the cells a flow author writes patterns / paths / texts into (the row type stays; a field
            # at its default stays, so that the row keeps its one main argument)
            rtype = val["type"]
            val = inject_raw(rng, desc, val, 0.5, only_nondefault=True)
            val["type"] = rtype
        # nested bare-list content has no spread form
        v.coverage["evaluations"] += 1
        encs = []
        log = set()
        for _ in range(12):
            try:
                encs.append(encode_flow(rng, desc, cx, val, lenient=lenient, log=log))
            except NoEncoding:
                continue
            if len(encs) == 2:
                break
        if len(encs) < 2:
            fstats["no_two_encodings"] += 1
            continue
        fstats["pairs"] += 1
        (c1, tg1), (c2, tg2) = encs
        if raw:
            rstats["flow_pairs"] += 1
            note_raw(val, tg1, tg2, c1, c2)
        # whitespace around the row-type cell (stripped by the row parser): one more way of laying out the same row
        u1, u2 = c1, c2
        if rng.random() < 0.3:
            which = rng.choice([1, 2, 3])
            if which & 1:
                c1 = pad_type_cell(rng, c1, cx["sw_column"])
            if which & 2:
                c2 = pad_type_cell(rng, c2, cx["sw_column"])
            tg1 = tg1 | {"padded-type-cell"}
            fstats["padded_type_cell"] += 1
            if any(h == cx["sw_header"] for h, _ in (c1 if which & 1 else []) + (c2 if which & 2 else [])):
                fstats["padded_type_cell_with_short_main_header"] += 1
        add_tags(tg1 | tg2)
        p1, p2 = impl_parse(parser, c1), impl_parse(parser, c2)
        ok = p1[0] == "ok" and p2[0] == "ok" and _deep_eq(p1[1], p2[1])
        if not ok:
            key = "flow-layout-dependent-parse"
            if (c1, c2) != (u1, u2):
                # causal classification: the class is the padded type cell only if the same two layouts with the
                # type cell unpadded DO parse alike
                q1, q2 = impl_parse(parser, u1), impl_parse(parser, u2)
                if q1[0] == "ok" and q2[0] == "ok" and _deep_eq(q1[1], q2[1]):
                    key = K_PADDED_TYPE
            if key != K_PADDED_TYPE:
                key = raw_class(key, parser, c1, c2, log, val)
            v.failing_input(key,
                            f"two layouts of one flow row parse differently: cells1={c1} -> {p1}; cells2={c2} -> {p2}",
                            dict(fn="flowpair", value=val, cells1=c1, cells2=c2))
        elif not _deep_eq(p1[1], val):
            v.failing_input(raw_class("flow-encoding-does-not-parse-to-value", parser, c1, c2, log, val),
                            f"an encoding of a flow row does not parse to it: value={val!r} cells={c1} -> {p1}",
                            dict(fn="flowpair", value=val, cells1=c1, cells2=c2))
        if c1 != c2:
            nontrivial.add(repr((sorted(c1), sorted(c2))))
        if m:
            batch.append(([f"(109 2 {rowlib.e_cells(c)})" for c in (c1, c2)], "FlowRowModel", [c1, c2], [p1, p2]))
            if len(batch) >= 300:
                flush()
        if len(samples) < 6 and any(tg.startswith("short") for tg in tg1) and not any(tg.startswith("short") for tg in tg2):
            samples.append(dict(flow_cells_short=c1, flow_cells_long=c2))
        if raw and len(raw_samples) < 4 and ("raw-backslash" in tg1) != ("raw-backslash" in tg2):
            raw_samples.append(dict(raw_backslash=True, flow_cells1=c1, flow_cells2=c2))
    flush()

    # ------------------------------------------------ directed `*` groups: unequal sibling lengths, scalar broadcast
    dstats = {"generic_groups": 0, "flow_groups": 0, "layouts": 0, "kinds": {}, "n": {}}
    n_star = (4000 if thorough else 250) * ctx.scale
    raw_star_texts = RAW_POOL + ["a", "x y", "7"]
    for i in range(n_star + n_raw // 4):
        rowlib.clear_cache()
        raw = i >= n_star
        star_enc = Enc(rng, lenient=0.85) if raw else None
        t, val, layouts, spread, kinds, n = gen_star_group(rng, raw_star_texts if raw else None, star_enc)
        parser = RowParser(rowlib.py_type(t), CellParser())
        dstats["generic_groups"] += 1
        if raw:
            rstats["star_groups"] += 1
            note_raw(val, star_enc.tags | {"star-group"}, set(), None, None)
        dstats["n"][n] = dstats["n"].get(n, 0) + 1
        for kd in kinds:
            dstats["kinds"][kd] = dstats["kinds"].get(kd, 0) + 1
        ps = impl_parse(parser, spread)
        v.coverage["evaluations"] += 1
        if not (ps[0] == "ok" and _deep_eq(ps[1], val)):
            v.failing_input("encoding-does-not-parse-to-value",
                            f"the spread layout of a list of records does not parse to the value: model={_show_ty(t)} value={val!r} cells={spread} -> {ps}",
                            dict(fn="pair", ty=_jsonable_ty(t), value=val, cells1=spread, cells2=spread))
        impl_list = [ps]
        for lay in layouts:
            dstats["layouts"] += 1
            v.coverage["evaluations"] += 1
            pl = impl_parse(parser, lay)
            impl_list.append(pl)
            nontrivial.add(repr((sorted(lay), sorted(spread))))
            if not (pl[0] == "ok" and ps[0] == "ok" and _deep_eq(pl[1], ps[1])):
                v.failing_input(raw_class("star-layout-dependent-parse", parser, lay, spread, (lambda h: "*" in h) if raw else None, val),
                                f"`*` columns and indexed columns of one value parse differently: model={_show_ty(t)} value={val!r} "
                                f"star={lay} -> {pl}; spread={spread} -> {ps}",
                                dict(fn="pair", ty=_jsonable_ty(t), value=val, cells1=lay, cells2=spread))
        if m:
            rm = rowlib.e_rowmodel(t)
            cl = [spread] + layouts
            batch.append(([f"(109 1 {rm} {rowlib.e_cells(c)})" for c in cl], _show_ty(t), cl, impl_list))
            if len(batch) >= 100:
                flush()
        if len(samples) < 8 and i < 2:
            samples.append(dict(star_group=_show_ty(t), kinds=kinds, star_cells=layouts[0], spread_cells=spread))
    flush()
    parser = RowParser(FlowRowModel, CellParser())
    for i in range(n_star + n_raw // 4):
        raw = i >= n_star
        star_enc = Enc(rng, lenient=0.85) if raw else None
        val, layouts, spread, kinds, n = gen_flow_star_group(rng, desc, cx, raw_star_texts if raw else None, star_enc)
        dstats["flow_groups"] += 1
        if raw:
            rstats["star_groups"] += 1
            note_raw(val, star_enc.tags | {"flow-star-group"}, set(), None, None)
        for kd in kinds:
            dstats["kinds"][kd] = dstats["kinds"].get(kd, 0) + 1
        ps = impl_parse(parser, spread)
        v.coverage["evaluations"] += 1
        if not (ps[0] == "ok" and _deep_eq(ps[1], val)):
            v.failing_input("flow-encoding-does-not-parse-to-value",
                            f"indexed edge columns do not parse to the row: value={val!r} cells={spread} -> {ps}",
                            dict(fn="flowpair", value=val, cells1=spread, cells2=spread))
        impl_list = [ps]
        for lay in layouts:
            dstats["layouts"] += 1
            v.coverage["evaluations"] += 1
            pl = impl_parse(parser, lay)
            impl_list.append(pl)
            nontrivial.add(repr((sorted(lay), sorted(spread))))
            if not (pl[0] == "ok" and ps[0] == "ok" and _deep_eq(pl[1], ps[1])):
                v.failing_input(raw_class("flow-star-layout-dependent-parse", parser, lay, spread, (lambda h: "*" in h or h in FLOW_SHORT_ALL) if raw else None, val),
                                f"short `*` headers and indexed edge columns of one flow row parse differently: star={lay} -> {pl}; "
                                f"indexed={spread} -> {ps}",
                                dict(fn="flowpair", value=val, cells1=lay, cells2=spread))
        if m:
            cl = [spread] + layouts
            batch.append(([f"(109 2 {rowlib.e_cells(c)})" for c in cl], "FlowRowModel", cl, impl_list))
            if len(batch) >= 100:
                flush()
        if len(samples) < 10 and i < 2:
            samples.append(dict(flow_star_cells=layouts[0], flow_indexed_cells=spread, kinds=kinds))
    flush()
    stats["directed_star"] = dstats

    # ------------------------------------------------ the witnesses of the _refuted theorems, on the implementation
    wstats = {"witnesses": 0}
    for (name, t, cells, expected) in refutation_witnesses(bool(cx.get("sw_strip"))):
        rowlib.clear_cache()
        wparser = RowParser(FlowRowModel if t == "flow" else rowlib.py_type(t), CellParser())
        got = impl_parse(wparser, cells)
        v.coverage["evaluations"] += 1
        wstats["witnesses"] += 1
        same = got[0] == expected[0] and (got[0] != "ok" or all(_deep_eq(got[1].get(k), x) for k, x in expected[1].items()))
        if not same:
            ctx.disagree("a witness of the _refuted theorems no longer behaves as proved: " + name, dict(cells=cells), expected, got)
        if m:
            req = f"(109 2 {rowlib.e_cells(cells)})" if t == "flow" else f"(109 1 {rowlib.e_rowmodel(t)} {rowlib.e_cells(cells)})"
            batch.append(([req], "witness: " + name, [cells], [got]))
    flush()
    stats["refutation_witnesses"] = wstats
    # the two witness families are GENUINE layout dependences of the code, inside the property's text ("a sub-record given as
    # f.a, f.b or as one cell of positional ... entries ... yield equal row models"; its why_tests_cant names the flip): they are
    # evaluated as the property's oracle (spread layout vs packed layout of the SAME value) and reported as findings
    for fam, t, key, a, b, what in [
        ("positional", None, "positional-record-value-equals-field-name", [("m.a", "b"), ("m.b", "x")], [("m", "b|x")],
         "record {a: 'b', b: 'x'}: spread layout m.a/m.b vs the positional cell `b|x` (read as the key;value pair b=x)"),
        ("padded", "flow", K_PADDED_TYPE, [("type", " send_message"), ("mainarg_message_text", "hi"), ("from", "start")],
         [("type", " send_message"), ("message_text", "hi"), ("from", "start")],
         "flow row whose type cell is ' send_message': long header mainarg_message_text parses, short header message_text raises KeyError "
         "(the remap reads the raw, unstripped type cell)"),
    ]:
        rowlib.clear_cache()
        if t == "flow":
            wp = RowParser(FlowRowModel, CellParser())
        else:
            AB = _m("AB", [("a", rowlib.STR, ""), ("b", rowlib.STR, "")])
            wp = RowParser(rowlib.py_type(_m("RAB", [("m", AB, {"a": "", "b": ""})])), CellParser())
        ga, gb = impl_parse(wp, a), impl_parse(wp, b)
        v.coverage["evaluations"] += 2
        if ga[0] != gb[0] or (ga[0] == "ok" and not _deep_eq(ga[1], gb[1])):
            v.failing_input(key, "two layouts of one value parse differently: " + what, dict(fn="witness", cells1=a, cells2=b, flow=(t == "flow")))

    # ------------------------------------------------ short/long header table, row type by row type
    if m:
        reqs, exp = [], []
        rts = list(cx["sw_table"].keys())
        padded = [rng.choice(PY_WS) + rt for rt in rts] + [rt + rng.choice(PY_WS) for rt in rts] + \
                 [" " + rt + "\n" for rt in rts[:6]] + [" nonsense", "send_ message", "x" + rts[0], rts[0].upper()]
        for rt in rts + ["nonsense", ""] + padded:
            row = {"type": rt}
            for h in list(cx["basic"].keys()) + [cx["sw_header"], "row_id", "edges.1.from", "choices"]:
                r = run_cli_mode(FlowRowModel.header_name_to_field_name_with_context, h, row)
                reqs.append(f"(109 3 {rowlib.e_str(h)} {rowlib.e_cells(row)})")
                exp.append((h, rt, r))
        outs = ask_all(m, reqs)
        for (h, rt, r), o in zip(exp, outs):
            v.coverage["evaluations"] += 1
            mo = rowlib.d_res(parse_sexp(o), rowlib.d_str)
            if (mo[0] == "ok") != (r[0] == "ok") or (mo[0] == "ok" and mo[1] != r[1]):
                ctx.disagree("header_name_to_field_name_with_context", repr((h, rt)), mo, r)

    # ------------------------------------------------ SHEETS: sequences of rows on one long-lived RowParser / CellParser
    # (harness/c09_history.py: every row against a fresh parser, an isolated process, the other layouts of its value
    # in the same sheet, and the extracted state machine rp_run)
    sheet_samples = c09_history.run_sheets(ctx, nontrivial)

    stats["flow"] = fstats
    ctx.stats["c09"] = stats
    v.coverage["distinct_nontrivial"] = len(nontrivial)
    v.coverage["rule"] = (
        "pairs of encodings of one generated value, each drawn independently from the constructors of Encodes "
        "(list: spread / one cell with | or ; / bare scalar / empty cell; record: spread / positional / key;value / "
        "mixed / one bare pair; list of records: by index / * columns with per-element list or broadcast / whole list in one "
        "cell; padded basic cells; column permutation that keeps each top-level field's columns in order); flow rows with "
        "short or long headers per field and edges as * columns or by index, 30% of the pairs with str.strip() whitespace "
        "(any of the 29 characters) around the row-type cell of one or both layouts; DIRECTED `*` groups (lists of records, flow edges "
        "under the short headers from/condition/condition_var/condition_type/condition_name): per column long / short (k < n "
        "values) / one non-default scalar to broadcast / absent, always at least one of each of the first three, in column "
        "orders longest-first, longest-last, reversed, random, each compared with the indexed layout of the same value; "
        "30% of the generic values additionally get an "
        "encoding that ignores the keyword/positional side condition (correspondence only); RAW BACKSLASHES: a second pass of "
        "every stream above (generic pairs, flow pairs, directed `*` groups) whose str values carry backslashes in every position "
        "the cell syntax distinguishes (before an ordinary character: ^\\d+$, C:\\temp; at the start / end; doubled, tripled; before "
        "a separator; before whitespace; alone) and whose packed cells are written, with probability 0.85 per text, with a backslash "
        "doubled only where the syntax needs it (before a backslash or separator, at the end of an element that something follows) "
        "— the unsplit cells of the other layout carry the text as it is (distribution: stats.c09.raw_backslash); SHEETS: generated sequences of rows "
        "for one model (generic families, flow rows) on ONE RowParser + CellParser, a second parser for another model beside it: "
        "several layouts of 1-3 values per sheet incl. layouts with a field written as a native {@ @} literal (lists, range(n), "
        "comparisons, ints, strings) or a cell written as a {{ }} template over a shared context object, failing rows, contexts "
        "omitted / {} / None / shared, SheetParser's include_if pre-evaluation; every row compared with a fresh parser, with an "
        "isolated process, with the other layouts of its value in the sheet and with the extracted state machine rp_run "
        "(distribution: stats.sheet_histories). non-trivial = distinct pair of different cell lists / distinct set of layouts "
        "of one value within a sheet")
    v.coverage["samples"] = samples[:10] + raw_samples + sheet_samples
    v.assumptions += [
        "model side: cells contain no Jinja template opener (the model's cell parser is CellParser.parse without templating); "
        "rows with native / templated cells are judged on the implementation only (fresh parser, isolated process, layouts of one value)",
        "the side conditions of Encodes (a positional record of two entries must not start with a field name; no blank "
        "last entry in a packed list) are part of the statement, as in the property text",
    ]


def _has_name_value(t, v):
    names = set(all_names(t))

    def walk(x):
        if isinstance(x, str):
            return x in names
        if isinstance(x, list):
            return any(walk(y) for y in x)
        if isinstance(x, dict):
            return any(walk(y) for y in x.values())
        return False
    return walk(v)


def replay(rep):
    from rpft.parsers.common.cellparser import CellParser
    from rpft.parsers.common.rowparser import RowParser
    from rpft.parsers.creation.flowrowmodel import FlowRowModel

    r = rep["replay"]
    if r["fn"] in ("sheet", "sheets"):
        return c09_history.replay_sheet(r)
    if r["fn"] == "witness":
        if r.get("flow"):
            parser = RowParser(FlowRowModel, CellParser())
        else:
            AB = _m("AB", [("a", rowlib.STR, ""), ("b", rowlib.STR, "")])
            parser = RowParser(rowlib.py_type(_m("RAB", [("m", AB, {"a": "", "b": ""})])), CellParser())
        p1 = impl_parse(parser, [tuple(c) for c in r["cells1"]])
        p2 = impl_parse(parser, [tuple(c) for c in r["cells2"]])
        print("layout 1:", r["cells1"], "->", p1)
        print("layout 2:", r["cells2"], "->", p2)
        return p1[0] == p2[0] and (p1[0] != "ok" or _deep_eq(p1[1], p2[1]))
    if r["fn"] == "pair":
        t = _ty_from_json(r["ty"])
        parser = RowParser(rowlib.py_type(t), CellParser())
    else:
        parser = RowParser(FlowRowModel, CellParser())
    p1 = impl_parse(parser, [tuple(c) for c in r["cells1"]])
    p2 = impl_parse(parser, [tuple(c) for c in r["cells2"]])
    print("layout 1:", r["cells1"], "->", p1)
    print("layout 2:", r["cells2"], "->", p2)
    return p1[0] == "ok" and p2[0] == "ok" and _deep_eq(p1[1], p2[1]) and _deep_eq(p1[1], r["value"])
