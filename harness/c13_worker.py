"""C13 worker: executes ONE history of API calls on the real implementation in THIS process
and, after every call, reads the hidden state the process really has.

    python c13_worker.py job.json result.json

job    = {"ops": [op, ...], "sys_path": [...], "cwd": scratch}
result = {"pristine_ok": bool, "inventory": {...}, "results": [res, ...]}
res    = {"id", "op", "status": ok|critical|raise|skipped, "etype", "msg", "out", "state": [diff lines]}

The process is started by harness/c13.py with PYTHONPATH=<repo>/src and a chosen
PYTHONHASHSEED.  Nothing here compares anything: it runs, observes and reports."""
import collections
import enum
import importlib
import json
import logging
import os
import pkgutil
import re
import sys
import types
import warnings

warnings.simplefilter("ignore")
HERE = os.path.dirname(os.path.abspath(__file__))
sys.path.insert(0, HERE)

ADDR = re.compile(r" at 0x[0-9a-fA-F]+")


# ------------------------------------------------------------------ hidden-state reading
def snap(v, d=0, seen=None):
    """structural, order-preserving, address-free picture of a Python value"""
    if seen is None:
        seen = set()
    if d > 7:
        return "<deep>"
    t = type(v)
    if v is None or t in (bool, int, float, complex):
        return repr(v)
    if t in (str, bytes):
        return repr(v[:300])
    if isinstance(v, enum.Enum):
        return repr(v)
    if isinstance(v, (types.FunctionType, types.BuiltinFunctionType, types.MethodType, type, types.ModuleType)):
        return "<%s %s>" % (t.__name__, getattr(v, "__qualname__", getattr(v, "__name__", "?")))
    if isinstance(v, logging.Logger):
        return ["Logger", v.name, v.level, len(v.handlers), len(v.filters), v.disabled, v.propagate]
    if id(v) in seen:
        return "<cycle>"
    seen = seen | {id(v)}
    if isinstance(v, dict):
        return [t.__name__] + [[snap(k, d + 1, seen), snap(x, d + 1, seen)] for k, x in list(v.items())]
    if isinstance(v, (list, tuple, collections.deque)):
        return [t.__name__] + [snap(x, d + 1, seen) for x in list(v)]
    if isinstance(v, (set, frozenset)):
        return [t.__name__] + sorted(json.dumps(snap(x, d + 1, seen), default=str) for x in list(v))
    dd = getattr(v, "__dict__", None)
    if isinstance(dd, dict):
        return ["obj", t.__qualname__] + [[str(k), snap(x, d + 1, seen)] for k, x in list(dd.items())]
    return ADDR.sub("", repr(v))[:300]


def classes_of(mod):
    out = []

    def walk(cls):
        out.append(cls)
        for v in list(vars(cls).values()):
            if isinstance(v, type) and v.__module__ == mod.__name__ and v.__qualname__.startswith(cls.__qualname__ + "."):
                walk(v)

    for v in list(vars(mod).values()):
        if isinstance(v, type) and v.__module__ == mod.__name__ and "." not in v.__qualname__:
            walk(v)
    return out


def functions_of(mod):
    seen = set()
    for v in list(vars(mod).values()):
        if isinstance(v, types.FunctionType) and v.__module__ == mod.__name__ and id(v) not in seen:
            seen.add(id(v))
            yield mod.__name__ + ":" + v.__qualname__, v
    for cls in classes_of(mod):
        for v in list(vars(cls).values()):
            fs = []
            if isinstance(v, (staticmethod, classmethod)):
                fs = [v.__func__]
            elif isinstance(v, types.FunctionType):
                fs = [v]
            elif isinstance(v, property):
                fs = [g for g in (v.fget, v.fset, v.fdel) if g]
            for f in fs:
                if isinstance(f, types.FunctionType) and id(f) not in seen:
                    seen.add(id(f))
                    yield mod.__name__ + ":" + f.__qualname__, f


SKIP_GLOBAL = (types.FunctionType, types.BuiltinFunctionType, type, types.ModuleType)


def read_state(mods):
    """path -> picture, for everything a call could leave behind in the rpft package"""
    import rpft.logger.logger as L

    st = {}
    h = L.logging_context_handler
    st["stack:processing_stack"] = snap(h.processing_stack)
    st["stack:context_variables"] = snap(h.context_variables)
    st["process:cwd"] = os.getcwd()
    st["process:environ"] = snap(sorted(os.environ.items()))
    st["process:rpft_modules"] = sorted(m for m in sys.modules if m == "rpft" or m.startswith("rpft."))
    for mod in mods:
        for q, f in functions_of(mod):
            if f.__defaults__:
                st["default:" + q] = snap(f.__defaults__)
            if f.__kwdefaults__:
                st["kwdefault:" + q] = snap(f.__kwdefaults__)
            if f.__dict__:
                st["fnattr:" + q] = snap(f.__dict__)
        for n, v in list(vars(mod).items()):
            if n.startswith("__") or isinstance(v, SKIP_GLOBAL):
                if hasattr(v, "cache_info") and not n.startswith("__"):
                    st["cache:" + mod.__name__ + ":" + n] = repr(v.cache_info())
                continue
            if getattr(type(v), "__module__", "").startswith("typing"):
                continue
            st["global:" + mod.__name__ + ":" + n] = snap(v)
        for cls in classes_of(mod):
            cq = mod.__name__ + ":" + cls.__qualname__
            for an, av in list(vars(cls).items()):
                if an.startswith("__") or an.startswith("_abc_"):
                    continue
                if isinstance(av, (staticmethod, classmethod, property, types.FunctionType)):
                    continue
                st["classattr:" + cq + "." + an] = snap(av)
            flds = vars(cls).get("__fields__")
            if isinstance(flds, dict):
                for fn, fv in flds.items():
                    st["field_default:" + cq + "." + fn] = snap(getattr(fv, "default", None))
    return st


def inventory(mods):
    """live list of (qualname, param, kind) of mutable default arguments — the worker's own
    walk, to be compared with the translator's regenerated table"""
    import inspect

    imm = (type(None), bool, int, float, complex, str, bytes, frozenset, range, type, types.FunctionType,
           types.BuiltinFunctionType, types.ModuleType, enum.Enum, types.MethodType)

    def immutable(v):
        if isinstance(v, tuple):
            return all(immutable(x) for x in v)
        return isinstance(v, imm)

    out = []
    for mod in mods:
        for q, f in functions_of(mod):
            for p in inspect.signature(f).parameters.values():
                if p.default is not inspect.Parameter.empty and not immutable(p.default):
                    k = type(p.default).__name__ if type(p.default) in (list, dict, set) else "obj:" + type(p.default).__qualname__
                    out.append([q, p.name, k])
    return sorted(out)


def diff_state(a, b):
    out = []
    for k in sorted(set(a) | set(b)):
        if k not in a:
            out.append(f"{k}: appeared = {json.dumps(b[k], default=str)[:200]}")
        elif k not in b:
            out.append(f"{k}: disappeared")
        elif a[k] != b[k]:
            out.append(f"{k}: {json.dumps(a[k], default=str)[:160]} -> {json.dumps(b[k], default=str)[:160]}")
    return out[:12]


def load_modules():
    import rpft

    mods = [rpft]
    for m in sorted(pkgutil.walk_packages(rpft.__path__, "rpft."), key=lambda m: m.name):
        mods.append(importlib.import_module(m.name))
    for hd in list(logging.getLogger("main").handlers):
        if isinstance(hd, logging.FileHandler):   # rpft.cli opens errors.log at import
            hd.close()
            logging.getLogger("main").removeHandler(hd)
    return mods


# ------------------------------------------------------------------ the calls
def reader_of(dirs, fmt="csv"):
    from rpft import converters
    from rpft.parsers.sheets import CompositeSheetReader

    rd = CompositeSheetReader()
    for d in dirs:
        rd.add_reader(converters.create_sheet_reader(fmt, d))
    return rd


def read_dir(d):
    out = {}
    for fn in sorted(os.listdir(d)):
        with open(os.path.join(d, fn), "rb") as f:
            out[fn] = f.read().decode("utf-8")
    return out


def do_op(op, kept, scratch, n):
    """-> JSON-able output of the call (raises / exits as the implementation does)"""
    from rpft import converters

    k = op["op"]
    if k == "create_flows":
        outf = os.path.join(scratch, f"out{n}.json") if op.get("out") else None
        kw = {}
        if op.get("data_models"):
            kw["data_models"] = op["data_models"]
        if op.get("tags") is not None:
            kw["tags"] = op["tags"]          # tags None: the function's own default argument is used
        r = converters.create_flows(op["dirs"], outf, op.get("fmt", "csv"), **kw)
        res = {"value": r}
        if outf:
            with open(outf, "rb") as f:
                res["file"] = f.read().decode("utf-8")
        return res
    if k == "save_data":
        kw = {}
        if op.get("data_models"):
            kw["data_models"] = op["data_models"]
        if op.get("tags") is not None:
            kw["tags"] = op["tags"]
        return {"value": converters.save_data_sheets(op["dirs"], None, op.get("fmt", "csv"), **kw)}
    if k == "parse_keep":
        from rpft.parsers.creation.contentindexparser import ContentIndexParser

        if op.get("data_models"):
            c = ContentIndexParser(reader_of(op["dirs"], op.get("fmt", "csv")), op["data_models"]).parse_all()
        else:
            c = ContentIndexParser(reader_of(op["dirs"], op.get("fmt", "csv"))).parse_all()   # default TagMatcher, default data models
        kept[op["id"]] = c
        return {"flows": [f.name for f in c.flows]}
    if k == "load_keep":
        from rpft.rapidpro.models.containers import RapidProContainer

        with open(op["json"], encoding="utf-8") as f:
            c = RapidProContainer.from_dict(json.load(f))
        kept[op["id"]] = c
        return {"flows": [f.name for f in c.flows]}
    if k == "render":
        c = kept.get(op["target"])
        if c is None:
            raise Skip("no container")
        return {"value": c.render()}
    if k == "to_rows":
        c = kept.get(op["target"])
        if c is None or not c.flows:
            raise Skip("no container / no flow")
        j = op["flow"] % len(c.flows)
        rows = c.flows[j].to_rows(bool(op.get("numbered")))
        return {"flow": j, "value": [r.dict() for r in rows]}
    if k == "convert":
        return {"text": converters.convert_to_json(op["dir"], op.get("fmt", "csv"))}
    if k == "flows_to_sheets":
        o = os.path.join(scratch, f"sheets{n}")
        os.makedirs(o, exist_ok=True)
        converters.flows_to_sheets(op["json"], o, "csv", bool(op.get("strip")), bool(op.get("numbered")))
        return {"files": read_dir(o)}
    if k in HOST_OPS:
        return host_op(op)
    raise ValueError("unknown op " + k)


class Skip(Exception):
    pass


# ------------------------------------------------------------------ host operations
# What the HOST process may do between two calls of the toolkit, outside the rpft package: it puts process state the
# caller controls (or that repeats by itself) into a REPEATED state.  None of them touches the operating system's
# entropy (os.urandom), which is what uuid4() draws from.
HOST_OPS = ("seed_rng", "rng_restore", "freeze_time", "thaw_time", "fix_pid")
_REAL = {}
_RNG_AT_START = None


def host_op(op):
    import datetime as dt
    import random
    import time

    k = op["op"]
    if k == "seed_rng":
        random.seed(op["k"])                # random.seed(k) of an application, pytest-randomly, a simulation library
        return {"host": f"random.seed({op['k']!r})"}
    if k == "rng_restore":
        random.setstate(_RNG_AT_START)      # random.setstate(saved): the state this process had when it started
        return {"host": "random.setstate(<state at process start>)"}
    if k == "freeze_time":
        # freezegun / time-machine style: every clock of the standard library answers the same instant
        t = float(op["t"])
        if not _REAL:
            _REAL.update({n: getattr(time, n) for n in ("time", "time_ns", "monotonic", "monotonic_ns", "perf_counter", "perf_counter_ns")})
            _REAL["datetime"], _REAL["date"] = dt.datetime, dt.date
        for n in ("time", "monotonic", "perf_counter"):
            setattr(time, n, lambda t=t: t)
        for n in ("time_ns", "monotonic_ns", "perf_counter_ns"):
            setattr(time, n, lambda t=t: int(t * 10 ** 9))
        real_dt, real_d = _REAL["datetime"], _REAL["date"]

        class FrozenDateTime(real_dt):
            @classmethod
            def now(cls, tz=None):
                return real_dt.fromtimestamp(t, tz)

            @classmethod
            def utcnow(cls):
                return real_dt.utcfromtimestamp(t)

            @classmethod
            def today(cls):
                return real_dt.fromtimestamp(t)

        class FrozenDate(real_d):
            @classmethod
            def today(cls):
                return real_d.fromtimestamp(t)

        dt.datetime, dt.date = FrozenDateTime, FrozenDate
        return {"host": f"clocks frozen at {t}"}
    if k == "thaw_time":
        if _REAL:
            for n in ("time", "time_ns", "monotonic", "monotonic_ns", "perf_counter", "perf_counter_ns"):
                setattr(time, n, _REAL[n])
            dt.datetime, dt.date = _REAL["datetime"], _REAL["date"]
        return {"host": "clocks thawed"}
    if k == "fix_pid":
        os.getpid = lambda p=int(op["pid"]): p      # a container: every start of the program has the same pid
        return {"host": f"os.getpid() == {op['pid']}"}
    raise ValueError("unknown host op " + k)


def main():
    job_path, res_path = os.path.abspath(sys.argv[1]), os.path.abspath(sys.argv[2])
    job = json.load(open(job_path))
    scratch = job["cwd"]
    os.chdir(scratch)
    for p in job.get("sys_path", []):
        if p not in sys.path:
            sys.path.append(p)
    import common

    common.use_impl()
    mods = load_modules()
    for m in job.get("preimport", []):
        importlib.import_module(m)
    logging.getLogger("rpft.rapidpro.models.routers").setLevel(logging.ERROR)
    global _RNG_AT_START
    import random

    _RNG_AT_START = random.getstate()
    pristine = read_state(mods)
    again = read_state(mods)
    out = {"pristine_ok": pristine == again, "inventory": inventory(mods), "results": [],
           "hashseed": os.environ.get("PYTHONHASHSEED"), "pristine_keys": len(pristine)}
    kept = {}
    for n, op in enumerate(job["ops"]):
        res = {"id": op["id"], "op": op["op"], "etype": "", "msg": "", "out": None}
        try:
            res["out"] = do_op(op, kept, scratch, n)
            res["status"] = "ok"
        except Skip as e:
            res["status"], res["msg"] = "skipped", str(e)
        except SystemExit:
            res["status"], res["etype"], res["msg"] = "critical", "SystemExit", str(common._Shutdown.last)[:300]
        except RecursionError:
            res["status"], res["etype"] = "raise", "RecursionError"
        except Exception as e:
            res["status"], res["etype"], res["msg"] = "raise", type(e).__name__, str(e)[:300]
        res["state"] = diff_state(pristine, read_state(mods))
        out["results"].append(res)
    with open(res_path, "w", encoding="utf-8") as f:
        json.dump(out, f, default=str)


if __name__ == "__main__":
    main()
