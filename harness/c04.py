"""C04 — flow JSON -> sheet -> flow JSON preserves behaviour, through real files.
Per flow: rpft.converters.flows_to_sheets writes csv / xlsx (with and without strip_uuids
and numbered); the file is read back by the real sheet reader and compiled by FlowParser;
the Coq-verified bisimulation checker compares original and recompiled flow (all input
sequences).  Without strip_uuids node ids, action grouping and group/flow uuids must be
preserved as well."""
import json
import os
import shutil
import tempfile

import flowutil
import sheetgen
from common import run_cli_mode

LEVEL = "translation_validation"
CTX = {"cx": "CXVAL", "cy": "other"}


def export_and_recompile(doc, fmt, strip, numbered):
    """-> ('ok', recompiled_doc, exported_table) | ('err', kind, msg, exported_table_or_None)"""
    from rpft import converters
    from rpft.parsers.creation.flowparser import FlowParser
    from rpft.parsers.sheets import CSVSheetReader, XLSXSheetReader
    from rpft.rapidpro.models.containers import RapidProContainer

    d = tempfile.mkdtemp(prefix="rpftc04")
    try:
        src = os.path.join(d, "in.json")
        with open(src, "w", encoding="utf-8") as f:
            json.dump(doc, f)
        out = os.path.join(d, "out")
        os.mkdir(out)
        r = run_cli_mode(converters.flows_to_sheets, src, out, fmt, strip, numbered)
        if r[0] != "ok":
            return ("err", "export:" + r[1], r[2], None)
        tables = {}

        def recompile():
            container = RapidProContainer(groups=[])
            names = [f["name"] for f in doc["flows"]]
            for name in names:
                if fmt == "csv":
                    sheet = CSVSheetReader(out).sheets[name]
                else:
                    sheet = list(XLSXSheetReader(os.path.join(out, name + ".xlsx")).sheets.values())[0]
                tables[name] = [list(sheet.table.headers)] + [list(x) for x in sheet.table]
                FlowParser(container, name, sheet.table).parse()
            return container.render()

        r = run_cli_mode(recompile)
        if r[0] != "ok":
            return ("err", "recompile:" + r[1], r[2], tables)
        return ("ok", r[1], tables)
    finally:
        shutil.rmtree(d, ignore_errors=True)


def shared_category(flow):
    """a switch router in which two cases name the same category (the exporter writes one edge per category)"""
    for n in flow["nodes"]:
        r = n.get("router")
        if r and r.get("type") == "switch":
            cats = [k["category_uuid"] for k in r.get("cases", [])]
            if len(cats) != len(set(cats)):
                return True
    return False


def unconnected_case(flow):
    """a router case whose category's exit leads nowhere (the exporter cannot express it)"""
    for n in flow["nodes"]:
        r = n.get("router")
        if not r:
            continue
        exits = {e["uuid"]: e.get("destination_uuid") for e in n["exits"]}
        cats = {c["uuid"]: c for c in r["categories"]}
        if r["type"] == "random":
            if any(exits.get(c["exit_uuid"]) is None for c in r["categories"]):
                return True
            continue
        for c in r["categories"]:
            if c["uuid"] == r.get("default_category_uuid"):
                continue
            if exits.get(c["exit_uuid"]) is None:
                return True
    return False


def group_split_without_cases(flow):
    return any((n.get("router") or {}).get("operand") == "@contact.groups" and not n["router"].get("cases") for n in flow["nodes"])


def webhook_with_headers(flow):
    return any(a.get("type") == "call_webhook" and a.get("headers") for n in flow["nodes"] for a in n.get("actions", []))


def split_with_result_name(flow):
    """a router that does not wait (split_by_value / split_by_group / split_random) and saves a result"""
    for n in flow["nodes"]:
        r = n.get("router")
        if r and r.get("result_name") and "wait" not in r and not n.get("actions"):
            return True
    return False


def only_case_order_differs(f, g):
    def sigs(flow, ordered):
        out = []
        for n in flow["nodes"]:
            r = n.get("router")
            if r and r["type"] == "switch":
                cats = {c["uuid"]: c["name"] for c in r["categories"]}
                cs = [(k["type"], json.dumps(k["arguments"][1:] if k["type"] == "has_group" else k["arguments"]), cats.get(k["category_uuid"])) for k in r["cases"]]
                out.append((r["operand"], tuple(cs if ordered else sorted(cs, key=str))))
            elif r:
                names = [c["name"] for c in r["categories"]]
                out.append(("random", tuple(names if ordered else sorted(names))))
        return sorted(out, key=str)
    return sigs(f, False) == sigs(g, False) and sigs(f, True) != sigs(g, True)


def split_only_groups(flow):
    """groups whose uuid the sheet format has no column for: named only in has_group cases
    that are not the first case of their router, and in no group action"""
    in_actions, first, others = set(), set(), set()
    for n in flow["nodes"]:
        for a in n.get("actions", []):
            for g in a.get("groups", []) or []:
                in_actions.add(g.get("name"))
        for i, k in enumerate((n.get("router") or {}).get("cases", [])):
            if k["type"] == "has_group" and len(k["arguments"]) > 1:
                (first if i == 0 else others).add(k["arguments"][1])
    return others - in_actions - first


def not_expressible(flow):
    """outside the sheet format: strings with leading/trailing whitespace (cells are trimmed)"""
    def bad(x):
        if isinstance(x, str):
            return x != x.strip()
        if isinstance(x, dict):
            return any(bad(v) for v in x.values())
        if isinstance(x, list):
            return any(bad(v) for v in x)
        return False
    return any(bad(flowutil.canon_action(a)) for n in flow["nodes"] for a in n.get("actions", [])) or \
        any(bad(k.get("arguments")) or bad(c.get("name")) for n in flow["nodes"] if n.get("router")
            for k in n["router"].get("cases", []) for c in n["router"]["categories"])


def padded(table):
    """the exported sheet has a second edge column and a row that leaves it blank while being
    a go_to row or a row merged into the previous row's node (same _nodeId)"""
    if not table:
        return False
    h = table[0]
    if "edges.2.from" not in h:
        return False
    ti, ni = h.index("type"), (h.index("_nodeId") if "_nodeId" in h else None)
    ecols = [i for i, x in enumerate(h) if x.startswith("edges.") and not x.startswith("edges.1.")]
    prev_nid = None
    for row in table[1:]:
        blank2 = all(row[i] == "" for i in ecols)
        if row[ti] in ("go_to", "no_op", "hard_exit", "loose_exit") and blank2:
            return True
        if ni is not None and row[ni] and row[ni] == prev_nid and blank2:
            return True
        prev_nid = row[ni] if ni is not None else None
    return False


def webhook_body_lost(flow, f2):
    """some call_webhook action of `flow` has a body and comes back with a blank one"""
    def hooks(f):
        return [a for n in f["nodes"] for a in n.get("actions", []) if a.get("type") == "call_webhook"]
    a, b = hooks(flow), hooks(f2)
    return any(x.get("body") for x in a) and len(a) == len(b) and any(x.get("body") and not y.get("body") for x, y in zip(
        sorted(a, key=lambda h: (h.get("url", ""), h.get("result_name", ""))), sorted(b, key=lambda h: (h.get("url", ""), h.get("result_name", "")))))


def reachable_nodes(flow):
    by = {n["uuid"]: n for n in flow["nodes"]}
    if not flow["nodes"]:
        return set()
    seen, todo = set(), [flow["nodes"][0]["uuid"]]
    while todo:
        u = todo.pop()
        if u in seen or u not in by:
            continue
        seen.add(u)
        todo += [e.get("destination_uuid") for e in by[u]["exits"] if e.get("destination_uuid")]
    return seen


def grouping(flow):
    """node id -> actions, for the nodes that can be reached from the entry node.  A node nothing leads to has no
    behaviour and no place in a sheet (every row hangs off an earlier row or `start`); demanding that the exporter
    keeps it would ask more than the property states (false alarm corrected, see DESIGN 10.1)."""
    reach = reachable_nodes(flow)
    return sorted((n["uuid"], json.dumps([flowutil.canon_action(a) for a in n.get("actions", [])], sort_keys=True))
                  for n in flow["nodes"] if n["uuid"] in reach)


def ref_uuids(flow):
    out = set()
    for n in flow["nodes"]:
        for a in n.get("actions", []):
            for g in a.get("groups", []) or []:
                out.add(("group", g.get("name"), g.get("uuid")))
            if isinstance(a.get("flow"), dict):
                out.add(("flow", a["flow"].get("name"), a["flow"].get("uuid")))
        r = n.get("router")
        for k in (r or {}).get("cases", []):
            if k["type"] == "has_group":
                out.add(("group", k["arguments"][1] if len(k["arguments"]) > 1 else None, k["arguments"][0]))
    return out


def judge(ctx, doc, nontrivial, samples, label):
    v, m, rng = ctx.v, ctx.model, ctx.rng
    flow = doc["flows"][0]
    if not_expressible(flow):
        ctx.count("outside_sheet_format(untrimmed strings)")
        return
    opts = [("csv", False, False), ("csv", True, False), ("csv", True, True), ("xlsx", False, False)]
    if ctx.tier == "thorough":
        opts += [("csv", False, True), ("xlsx", True, False), ("xlsx", True, True), ("xlsx", False, True)]
    else:
        opts = [opts[0], rng.choice(opts[1:])]
    for fmt, strip, numbered in opts:
        v.coverage["evaluations"] += 1
        r = export_and_recompile(doc, fmt, strip, numbered)
        rep = dict(flow=doc, format=fmt, strip_uuids=strip, numbered=numbered)
        table = (r[3] if r[0] == "err" else r[2]) or {}
        tbl = table.get(flow["name"])
        is_padded = bool(tbl and padded(tbl))

        def fail(kind, summary, key=None):
            v.failing_input(key or kind, f"[{fmt}, strip_uuids={strip}, numbered={numbered}] " + summary, rep)

        if r[0] != "ok":
            if r[1].startswith("export:"):
                key = "group-split-without-cases" if ("IndexError" in r[1] and group_split_without_cases(flow)) else None
                fail("export-fails", f"flows_to_sheets fails: {r[1]} {r[2][:150]}", key)
            else:
                key = None
                if is_padded and ("To merge rows" in r[2] or "number of destinations" in r[2] or "does not support default exits" in r[2]):
                    key = "padded-edge-columns"
                elif "AssertionError" in r[1] and webhook_with_headers(flow):
                    key = "webhook-headers"
                fail("exported-sheet-does-not-compile", f"the exported sheet does not compile: {r[1]} {r[2][:150]}", key)
            continue
        f2 = r[1]["flows"][0]
        if m:
            ok = m.ask("(6 2 %s %s)" % (flowutil.flow_sexp(flow), flowutil.flow_sexp(f2))) == "1"
            tr = None if ok else flowutil.distinguishing_trace(flow, f2)
            if not ok and tr is None:
                ctx.disagree("checker rejects round trip but no distinguishing sequence found", rep, "0", "")
                continue
        else:
            tr = flowutil.distinguishing_trace(flow, f2)
            ok = tr is None
        if not ok:
            key = None
            if webhook_body_lost(flow, f2) and "call_webhook" in str(tr[-1]):
                key = "webhook-body-shadowed"
            elif unconnected_case(flow):
                key = "unconnected-non-default-category"
            elif is_padded:
                key = "padded-edge-columns"
            elif shared_category(flow) and "decision signatures differ" in str(tr[-1]):
                key = "cases-sharing-a-category"
            elif split_with_result_name(flow):
                key = "split-result-name-lost"
            elif only_case_order_differs(flow, f2):
                key = "case-order-follows-row-order"
            fail("round-trip-changes-behaviour", f"sequence {tr!r} separates the flow from its exported-and-recompiled form", key)
            continue
        if not strip:
            if grouping(flow) != grouping(f2):
                fail("node-ids-or-grouping-not-preserved", "node identifiers / grouping of actions into nodes differ after the round trip")
                continue
            if ref_uuids(flow) != ref_uuids(f2):
                diff = ref_uuids(flow) ^ ref_uuids(f2)
                key = "group-uuid-only-in-split-case" if all(x[0] == "group" and x[1] in split_only_groups(flow) for x in diff) else None
                fail("group-or-flow-uuids-not-preserved", f"group/flow uuids differ after the round trip: {sorted(diff, key=str)[:4]}", key)
                continue
        ctx.count("round_trips_ok")
        ctx.count(f"ok_{fmt}_{'strip' if strip else 'keep'}_{'num' if numbered else 'names'}")
        if len(flow["nodes"]) >= 3 and any("router" in n for n in flow["nodes"]):
            nontrivial.add(json.dumps([[len(n["exits"]), len(n.get("actions", []))] for n in flow["nodes"]]) + fmt + str(strip))
        if len(samples) < 2 and tbl:
            samples.append(dict(source=label, format=fmt, strip_uuids=strip, exported_sheet=tbl[:8]))


def fixture_docs():
    import glob
    out = []
    for p in sorted(glob.glob("/repo/tests/input/*.json") + glob.glob("/repo/tests/output/*.json")):
        try:
            d = json.load(open(p))
        except Exception:
            continue
        if isinstance(d, dict) and d.get("flows"):
            for f in d["flows"]:
                out.append(dict(d, flows=[f], campaigns=[], triggers=[]))
    return out


def run(ctx):
    thorough = ctx.tier == "thorough"
    n = (4000 if thorough else 260) * ctx.scale
    nontrivial, samples = set(), []
    for d in fixture_docs()[: (100 if thorough else 12)]:
        ctx.count("src_fixture")
        judge(ctx, d, nontrivial, samples, "fixture")
    for i in range(n):
        rng = ctx.rng
        x = rng.random()
        if x < 0.5:
            rows, g = sheetgen.gen_core_sheet(rng, rng.choice([2, 4, 7, 12]), wf=True, special_text=rng.random() < 0.7)
            label = "compiled-core"
        elif x < 0.65:
            rows, g = sheetgen.gen_merge_sheet(rng, rng.choice([2, 5, 8]), special_text=rng.random() < 0.5)
            label = "compiled-merge"
        else:
            g = sheetgen.SugarGen(rng, wf=True, special_text=rng.random() < 0.5, ctxvars=tuple(CTX))
            rows = sheetgen.flatten_sugared(g.gen_tree(rng.choice([3, 5, 8])))
            label = "compiled-sugared"
        if not rows:
            continue
        headers, cells = sheetgen.render_sheet(rows, rng)
        r = flowutil.compile_workbook(flowutil.template_workbook("f1", headers, cells, CTX))
        if r[0] != "ok":
            ctx.count("source_sheet_rejected")
            continue
        ctx.count("src_" + label)
        judge(ctx, r[1], nontrivial, samples, label)
    ctx.v.coverage["programs"] = ctx.stats.get("round_trips_ok", 0)
    ctx.v.coverage["disagreements_checked"] = len(ctx.disagreements) + sum(ctx.v.viol_by_key.values()) + sum(ctx.v.known_hits.values())
    ctx.v.coverage["distinct_nontrivial"] = len(nontrivial)
    ctx.v.coverage["samples"] = samples or [dict(note="no successful round trip in this run")]
    ctx.v.coverage["rule"] = (
        "flows = the repository's fixture exports + flows compiled from generated sheets (core vocabulary, merged rows, sugar), "
        "texts with | ; \\\\ , quotes, newlines, non-ASCII; each exported with flows_to_sheets to csv/xlsx with/without "
        "strip_uuids/numbered, read back by the real reader, recompiled by FlowParser and compared by the Coq-verified checker; "
        "non-trivial = distinct (exits, actions) shape with >= 3 nodes and a router, per format/strip setting")
    ctx.v.assumptions += ["flows come from the compiler and the fixtures; foreign exports with pass-through action kinds are outside the sheet vocabulary"]


def replay(rep):
    r = rep["replay"]
    out = export_and_recompile(r["flow"], r["format"], r["strip_uuids"], r["numbered"])
    if out[0] != "ok":
        return False
    f, f2 = r["flow"]["flows"][0], out[1]["flows"][0]
    if flowutil.distinguishing_trace(f, f2) is not None:
        return False
    if not r["strip_uuids"] and (grouping(f) != grouping(f2) or ref_uuids(f) != ref_uuids(f2)):
        return False
    return True
