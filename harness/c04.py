"""C04 — flow JSON -> sheet -> flow JSON preserves behaviour, through real files.
Per flow: rpft.converters.flows_to_sheets writes csv / xlsx (with and without strip_uuids
and numbered); the file is read back by the real sheet reader and compiled by FlowParser;
the Coq-verified bisimulation checker compares original and recompiled flow (all input
sequences).  Without strip_uuids node ids, action grouping and group/flow uuids must be
preserved as well."""
import json
import os
import shutil
import tempfile

import c04_means
import flowutil
import sheetgen
from common import run_cli_mode

LEVEL = "translation_validation"
CTX = {"cx": "CXVAL", "cy": "other"}


def export_and_recompile(doc, fmt, strip, numbered):
    """-> ('ok', recompiled_doc, exported_table) | ('err', kind, msg, exported_table_or_None)"""
    from rpft import converters
    from rpft.parsers.creation.flowparser import FlowParser
    from rpft.parsers.sheets import CSVSheetReader, XLSXSheetReader
    from rpft.rapidpro.models.containers import RapidProContainer

    d = tempfile.mkdtemp(prefix="rpftc04")
    try:
        src = os.path.join(d, "in.json")
        with open(src, "w", encoding="utf-8") as f:
            json.dump(doc, f)
        out = os.path.join(d, "out")
        os.mkdir(out)
        r = run_cli_mode(converters.flows_to_sheets, src, out, fmt, strip, numbered)
        if r[0] != "ok":
            return ("err", "export:" + r[1], r[2], None)
        tables = {}

        def recompile():
            container = RapidProContainer(groups=[])
            names = [f["name"] for f in doc["flows"]]
            for name in names:
                if fmt == "csv":
                    sheet = CSVSheetReader(out).sheets[name]
                else:
                    sheet = list(XLSXSheetReader(os.path.join(out, name + ".xlsx")).sheets.values())[0]
                tables[name] = [list(sheet.table.headers)] + [list(x) for x in sheet.table]
                FlowParser(container, name, sheet.table).parse()
            return container.render()

        r = run_cli_mode(recompile)
        if r[0] != "ok":
            return ("err", "recompile:" + r[1], r[2], tables)
        return ("ok", r[1], tables)
    finally:
        shutil.rmtree(d, ignore_errors=True)


# ---------------------------------------------------------------- counterfactual classification
# A failing round trip is attributed to a listed finding K only when it is EXPLAINED by K: the
# recompiled flow is behaviourally equal (verified checker) to the original flow with exactly the
# loss K is known to cause applied to it (`lose_K`), and K is reported only if its loss was
# needed.  Predicates on the input ("the flow has an unconnected case") are never enough: any other
# difference in such a flow stays an unlisted VIOLATION.

def node_kind(n):
    """the node class BaseNode.from_dict chooses"""
    r = n.get("router")
    if not r:
        return "basic"
    if r.get("type") == "random":
        return "random"
    acts = n.get("actions") or []
    return acts[0].get("type", "?") if acts else "switch"


def _copy(flow):
    return json.loads(json.dumps(flow))


def _prune_exits(n):
    used = {c["exit_uuid"] for c in n["router"]["categories"]}
    n["exits"] = [e for e in n["exits"] if e["uuid"] in used]


def lose_unconnected(flow, table):
    """cases (and random buckets) whose category leads nowhere are not exported: they are gone"""
    f = _copy(flow)
    for n in f["nodes"]:
        k = node_kind(n)
        if k not in ("switch", "random"):
            continue
        r = n["router"]
        dest = {e["uuid"]: e.get("destination_uuid") for e in n["exits"]}
        dead = {c["uuid"] for c in r["categories"] if not dest.get(c["exit_uuid"])}
        if k == "random":
            r["categories"] = [c for c in r["categories"] if c["uuid"] not in dead]
        else:
            keep = {r.get("default_category_uuid"), ((r.get("wait") or {}).get("timeout") or {}).get("category_uuid")}
            r["cases"] = [c for c in r["cases"] if c["category_uuid"] not in dead]
            r["categories"] = [c for c in r["categories"] if c["uuid"] not in dead or c["uuid"] in keep]
        _prune_exits(n)
    return f


def lose_result_name(flow, table):
    """only wait_for_response rows carry save_name: the other routers come back without a result name"""
    f = _copy(flow)
    for n in f["nodes"]:
        k = node_kind(n)
        if k == "random" or (k == "switch" and "wait" not in n["router"]):
            n["router"].pop("result_name", None)
    return f


def lose_shared_category(flow, table):
    """get_exit_edge_pairs walks the CATEGORIES and exports the first case of each: a second case of a
    category is gone and the tests come back in category order (others, default, no response)"""
    f = _copy(flow)
    for n in f["nodes"]:
        if node_kind(n) != "switch":
            continue
        r = n["router"]
        dflt = r.get("default_category_uuid")
        nr = ((r.get("wait") or {}).get("timeout") or {}).get("category_uuid")
        order = [c["uuid"] for c in r["categories"] if c["uuid"] not in (dflt, nr)] + [dflt] + ([nr] if nr else [])
        cases = []
        for cu in order:
            first = next((k for k in r["cases"] if k["category_uuid"] == cu), None)
            if first is not None:
                cases.append(first)
        r["cases"] = cases
    return f


def body_shadowed(table):
    """the exported sheet has a webhook.body column AND, after it, a message_text column (blank on webhook rows)"""
    if not table:
        return False
    h = table[0]
    return "webhook.body" in h and "message_text" in h and h.index("message_text") > h.index("webhook.body")


def lose_webhook_body(flow, table):
    f = _copy(flow)
    if body_shadowed(table):
        for n in f["nodes"]:
            for a in n.get("actions", []):
                if a.get("type") == "call_webhook" and a.get("body"):
                    a["body"] = ""
    return f


def lose_group_category_name(flow, table):
    """the condition of a has_group edge of a group split carries the group name only: the category comes
    back under the name FlowParser generates for it"""
    f = _copy(flow)
    for n in f["nodes"]:
        if node_kind(n) == "switch" and n["router"].get("operand") == "@contact.groups":
            cats = {c["uuid"]: c for c in n["router"]["categories"]}
            for k in n["router"]["cases"]:
                if k["type"] == "has_group" and len(k["arguments"]) > 1 and k["category_uuid"] in cats \
                        and k["category_uuid"] != n["router"].get("default_category_uuid"):
                    cats[k["category_uuid"]]["name"] = "_".join(str(a).title() for a in [None, k["arguments"][1]])
    return f


def canon_order(flow):
    """the tests of a router / the buckets of a random split in a canonical order (comparison modulo order)"""
    f = _copy(flow)
    for n in f["nodes"]:
        r = n.get("router")
        if not r:
            continue
        names = {c["uuid"]: c["name"] for c in r["categories"]}
        if r.get("type") == "random":
            r["categories"] = sorted(r["categories"], key=lambda c: c["name"])
        else:
            r["cases"] = sorted(r.get("cases", []), key=lambda k: json.dumps(
                [k["type"], k["arguments"][1:] if k["type"] == "has_group" else k["arguments"], names.get(k["category_uuid"])]))
    return f


ORDER_KEY = "case-order-follows-row-order"
# (finding key, loss); applied in this order.  The order finding is an equivalence, not a loss: both
# sides are compared with their tests in a canonical order.
LOSSES = [
    ("unconnected-non-default-category", lose_unconnected),
    ("split-result-name-lost", lose_result_name),
    ("cases-sharing-a-category", lose_shared_category),
    ("webhook-body-shadowed", lose_webhook_body),
    ("group-split-category-name-lost", lose_group_category_name),
]


def apply_losses(flow, table, keys):
    for k, fn in LOSSES:
        if k in keys:
            flow = fn(flow, table)
    return flow


def bisim(model, a, b):
    if model:
        return model.ask("(6 2 %s %s)" % (flowutil.flow_sexp(a), flowutil.flow_sexp(b))) == "1"
    return flowutil.distinguishing_trace(a, b) is None


def explain(model, flow, f2, table):
    """the smallest set of listed losses (first in the fixed order) under which the original flow is
    behaviourally equal to the recompiled one: [] = equal as they are, None = not explained"""
    import itertools

    if bisim(model, flow, f2):
        return []
    same = json.dumps(flow, sort_keys=True)
    cand = [k for k, fn in LOSSES if json.dumps(fn(flow, table), sort_keys=True) != same]
    multi = any(len((n.get("router") or {}).get("cases", [])) > 1 or
                ((n.get("router") or {}).get("type") == "random" and len(n["router"]["categories"]) > 1) for n in flow["nodes"])
    if multi:
        cand.append(ORDER_KEY)
    g2 = None
    for size in range(1, len(cand) + 1):
        for keys in itertools.combinations(cand, size):
            a = apply_losses(flow, table, keys)
            if ORDER_KEY in keys:
                if g2 is None:
                    g2 = canon_order(f2)
                ok = bisim(model, canon_order(a), g2)
            else:
                ok = bisim(model, a, f2)
            if ok:
                return list(keys)
    return None


# ---------------------------------------------------------------- structural causes in the exported table
import re as _re

SPREAD_HDR = _re.compile(r"^webhook\.headers\.(\d+)\.(\d+)$")
EDGE_HDR = _re.compile(r"^edges\.(\d+)\.")
PADDING_MESSAGES = ("To merge rows", "number of destinations", "does not support default exits")


def group_split_without_cases(flow):
    return any((n.get("router") or {}).get("operand") == "@contact.groups" and not n["router"].get("cases") for n in flow["nodes"])


HAS_GROUP_KEY = "has_group-edge-outside-group-split"


def has_group_outside_split(flow):
    """a has_group case [uuid, name] in a plain switch router whose operand is not @contact.groups"""
    return any(node_kind(n) == "switch" and n["router"].get("operand") != "@contact.groups"
               and any(k["type"] == "has_group" and len(k["arguments"]) == 2 for k in n["router"]["cases"]) for n in flow["nodes"])


def without_has_group_outside_split(doc):
    """the same document with those tests replaced by a test the format has always expressed (has_only_phrase on the
    group name): what is left to judge when the has_group edge itself stops the recompilation"""
    d = _copy(doc)
    for f in d["flows"]:
        for n in f["nodes"]:
            if node_kind(n) == "switch" and n["router"].get("operand") != "@contact.groups":
                for k in n["router"]["cases"]:
                    if k["type"] == "has_group" and len(k["arguments"]) == 2:
                        k["type"], k["arguments"] = "has_only_phrase", [k["arguments"][1]]
    return d


def padded(table):
    """some row of the exported sheet leaves the cells of a second (third, ...) edge all blank"""
    if not table:
        return False
    h = table[0]
    idx = {}
    for i, x in enumerate(h):
        m = EDGE_HDR.match(x)
        if m and int(m.group(1)) > 1:
            idx.setdefault(int(m.group(1)), []).append(i)
    return any(all(row[i] == "" for i in cols) for row in table[1:] for cols in idx.values())


def spread_headers(table):
    """webhook headers written over webhook.headers.<i>.<j> columns, filled in some row"""
    if not table:
        return False
    cols = [i for i, x in enumerate(table[0]) if SPREAD_HDR.match(x)]
    return any(row[i] != "" for row in table[1:] for i in cols)


def clean_rows(table, unpad, pack):
    """the exported rows as dicts, without the cells of all-blank trailing edges (unpad) / with the
    spread webhook header cells packed into one webhook.headers cell (pack): the sheet the exporter
    would have written without that cause"""
    from rpft.parsers.common.cellparser import CellParser

    h = table[0]
    out = []
    for row in table[1:]:
        d = dict(zip(h, row))
        if unpad:
            by_n = {}
            for k in h:
                m = EDGE_HDR.match(k)
                if m:
                    by_n.setdefault(int(m.group(1)), []).append(k)
            for n in sorted(by_n, reverse=True):
                if n > 1 and all(d.get(k, "") == "" for k in by_n[n]):
                    for k in by_n[n]:
                        d.pop(k, None)
                else:
                    break
        if pack:
            pairs = {}
            first = None
            for k in h:
                m = SPREAD_HDR.match(k)
                if m:
                    first = first or k
                    if d.get(k, "") != "":
                        pairs.setdefault(int(m.group(1)), {})[int(m.group(2))] = d[k]
            if first is not None:
                packed = CellParser().join_from_lists([[p.get(1, ""), p.get(2, "")] for _, p in sorted(pairs.items())]) if pairs else ""
                d = {("webhook.headers" if k == first else k): (packed if k == first else v) for k, v in d.items() if k == first or not SPREAD_HDR.match(k)}
        out.append(d)
    return out


def recompile_rows(doc, rows_by_flow):
    """compile row dicts (one list per flow) with the real FlowParser -> run_cli_mode tuple"""
    import tablib
    from rpft.parsers.common.cellparser import CellParser
    from rpft.parsers.common.rowparser import RowParser
    from rpft.parsers.common.sheetparser import SheetParser
    from rpft.parsers.creation.flowparser import FlowParser
    from rpft.parsers.creation.flowrowmodel import FlowRowModel
    from rpft.rapidpro.models.containers import RapidProContainer

    def go():
        container = RapidProContainer(groups=[])
        for f in doc["flows"]:
            sp = SheetParser(RowParser(FlowRowModel, CellParser()), tablib.Dataset(headers=["type"]), {}, include_column="include_if")
            sp.input_rows = [(d, i + 2) for i, d in enumerate(rows_by_flow[f["name"]])]
            sp.iterator = iter(sp.input_rows)
            FlowParser(container, f["name"], sheet_parser=sp).parse()
        return container.render()

    return run_cli_mode(go)


def reachable_nodes(flow):
    by = {n["uuid"]: n for n in flow["nodes"]}
    if not flow["nodes"]:
        return set()
    seen, todo = set(), [flow["nodes"][0]["uuid"]]
    while todo:
        u = todo.pop()
        if u in seen or u not in by:
            continue
        seen.add(u)
        todo += [e.get("destination_uuid") for e in by[u]["exits"] if e.get("destination_uuid")]
    return seen


def grouping(flow):
    """node id -> actions, for the nodes that can be reached from the entry node.  A node nothing leads to has no
    behaviour and no place in a sheet (every row hangs off an earlier row or `start`); demanding that the exporter
    keeps it would ask more than the property states (false alarm corrected, see DESIGN 10.1)."""
    reach = reachable_nodes(flow)
    return sorted((n["uuid"], json.dumps([flowutil.canon_action(a) for a in n.get("actions", [])], sort_keys=True))
                  for n in flow["nodes"] if n["uuid"] in reach)


def ref_uuids(flow):
    """group / flow uuids referenced by the nodes that can be reached from the entry node (same restriction as
    `grouping`: an unreachable node has no row, so its references have no cell either)"""
    reach = reachable_nodes(flow)
    out = set()
    for n in flow["nodes"]:
        if n["uuid"] not in reach:
            continue
        for a in n.get("actions", []):
            for g in a.get("groups", []) or []:
                out.add(("group", g.get("name"), g.get("uuid")))
            if isinstance(a.get("flow"), dict):
                out.add(("flow", a["flow"].get("name"), a["flow"].get("uuid")))
        r = n.get("router")
        for k in (r or {}).get("cases", []):
            if k["type"] == "has_group":
                out.add(("group", k["arguments"][1] if len(k["arguments"]) > 1 else None, k["arguments"][0]))
    return out


def split_only_groups(flow):
    """groups whose uuid the sheet format has no column for: named only in has_group cases
    that are not the first case of a group split, and in no group action"""
    in_actions, first, others = set(), set(), set()
    for n in flow["nodes"]:
        for a in n.get("actions", []):
            for g in a.get("groups", []) or []:
                in_actions.add(g.get("name"))
        r = n.get("router") or {}
        for i, k in enumerate(r.get("cases", [])):
            if k["type"] == "has_group" and len(k["arguments"]) > 1:
                # obj_id of a split_by_group row carries the group of its first case; no other case has a column
                (first if i == 0 and r.get("operand") == "@contact.groups" and node_kind(n) == "switch" else others).add(k["arguments"][1])
    return others - in_actions - first


def not_expressible(flow):
    """outside the sheet format: strings with leading/trailing whitespace (cells are trimmed)"""
    def bad(x):
        if isinstance(x, str):
            return x != x.strip()
        if isinstance(x, dict):
            return any(bad(v) for v in x.values())
        if isinstance(x, list):
            return any(bad(v) for v in x)
        return False
    return any(bad(flowutil.canon_action(a)) for n in flow["nodes"] for a in n.get("actions", [])) or \
        any(bad(k.get("arguments")) or bad(c.get("name")) for n in flow["nodes"] if n.get("router")
            for k in n["router"].get("cases", []) for c in n["router"]["categories"])


def judge(ctx, doc, nontrivial, samples, label, surrogate=False):
    v, m, rng = ctx.v, ctx.model, ctx.rng
    flow = doc["flows"][0]
    if not_expressible(flow):
        ctx.count("outside_sheet_format(untrimmed strings)")
        return
    opts = [("csv", False, False), ("csv", True, False), ("csv", True, True), ("xlsx", False, False)]
    if ctx.tier == "thorough":
        opts += [("csv", False, True), ("xlsx", True, False), ("xlsx", True, True), ("xlsx", False, True)]
    else:
        opts = [opts[0], rng.choice(opts[1:])]
    for fmt, strip, numbered in opts:
        v.coverage["evaluations"] += 1
        r = export_and_recompile(doc, fmt, strip, numbered)
        rep = dict(flow=doc, format=fmt, strip_uuids=strip, numbered=numbered)
        table = (r[3] if r[0] == "err" else r[2]) or {}
        tbl = table.get(flow["name"])

        def fail(kind, summary, key=None):
            v.failing_input(key or kind, f"[{fmt}, strip_uuids={strip}, numbered={numbered}] " + summary, rep)

        if r[0] != "ok" and r[1].startswith("export:"):
            # no sheet at all: the one listed cause is precise (the exception AND the input class)
            key = "group-split-without-cases" if ("IndexError" in r[1] and group_split_without_cases(flow)) else None
            fail("export-fails", f"flows_to_sheets fails: {r[1]} {r[2][:150]}", key)
            continue

        # ---- behaviour: as exported, then with the structural causes removed from the exported table
        f2 = r[1]["flows"][0] if r[0] == "ok" else None
        keys = explain(m, flow, f2, tbl) if f2 is not None else None
        structural = []
        cleaned_stops = []     # (causes removed, error) of cleaned sheets that still do not compile
        if keys is None and tbl:
            # a cause is accepted only if it is present in the table, the sheet without it compiles to something the
            # listed losses explain and - when the sheet as exported does not compile - the message is the one it produces
            raw_msg = None if r[0] == "ok" else f"{r[1]} {r[2]}"
            present = [c for c, there in (("padded-edge-columns", padded(tbl)), ("webhook-headers", spread_headers(tbl))) if there]
            tries = [[c] for c in present] + ([present] if len(present) == 2 else [])
            for cs in tries:
                if raw_msg is not None and not (("padded-edge-columns" in cs and any(x in raw_msg for x in PADDING_MESSAGES))
                                                or ("webhook-headers" in cs and "AssertionError" in raw_msg)):
                    continue
                if raw_msg is None and cs != ["padded-edge-columns"]:
                    continue          # spread header columns never compile
                rr = recompile_rows(doc, {flow["name"]: clean_rows(tbl, "padded-edge-columns" in cs, "webhook-headers" in cs)})
                if rr[0] != "ok":
                    cleaned_stops.append((cs, rr[1]))
                    continue
                g2 = rr[1]["flows"][0]
                k2 = explain(m, flow, g2, tbl)
                if k2 is not None:
                    structural, keys, f2 = cs, k2, g2
                    break
        if keys is None and f2 is None and not surrogate and has_group_outside_split(flow) \
                and ("IndexError" in r[1] or any(err == "IndexError" for _, err in cleaned_stops)):
            # the has_group edge of a row that is not a split_by_group row stops the recompilation (exact exception AND
            # the cause in the flow) - of the sheet as exported, or of the sheet without its listed structural causes;
            # the rest of the flow (those causes included) is judged on the document without the has_group tests
            fail("exported-sheet-does-not-compile", f"the exported sheet does not compile: {r[1]} {r[2][:150]}", HAS_GROUP_KEY)
            judge(ctx, without_has_group_outside_split(doc), nontrivial, samples, label + "+surrogate", surrogate=True)
            return
        if keys is None:
            if f2 is None:
                fail("exported-sheet-does-not-compile", f"the exported sheet does not compile: {r[1]} {r[2][:150]}")
            else:
                tr = flowutil.distinguishing_trace(flow, f2)
                if tr is None and m:
                    ctx.disagree("checker rejects round trip but no distinguishing sequence found", rep, "0", "")
                fail("round-trip-changes-behaviour", f"sequence {tr!r} separates the flow from its exported-and-recompiled form "
                     "(not explained by the listed losses)")
            continue
        ref = apply_losses(flow, tbl, keys)
        if structural or keys:
            why = flowutil.distinguishing_trace(flow, r[1]["flows"][0]) if r[0] == "ok" else f"the exported sheet does not compile: {r[1]} {r[2][:150]}"
            for k in structural + keys:
                fail("round-trip-changes-behaviour", f"{why!r}; explained by the listed losses {structural + keys}", k)
        # ---- identifiers (against the original with the explained losses applied)
        if not strip:
            if grouping(ref) != grouping(f2):
                fail("node-ids-or-grouping-not-preserved", "node identifiers / grouping of actions into nodes differ after the round trip")
                continue
            if ref_uuids(ref) != ref_uuids(f2):
                diff = ref_uuids(ref) ^ ref_uuids(f2)
                key = "group-uuid-only-in-split-case" if all(x[0] == "group" and x[1] in split_only_groups(flow) for x in diff) else None
                fail("group-or-flow-uuids-not-preserved", f"group/flow uuids differ after the round trip: {sorted(diff, key=str)[:4]}", key)
                continue
        if structural or keys:
            continue
        ctx.count("round_trips_ok")
        ctx.count(f"ok_{fmt}_{'strip' if strip else 'keep'}_{'num' if numbered else 'names'}")
        if len(flow["nodes"]) >= 3 and any("router" in n for n in flow["nodes"]):
            nontrivial.add(json.dumps([[len(n["exits"]), len(n.get("actions", []))] for n in flow["nodes"]]) + fmt + str(strip))
        if len(samples) < 2 and tbl:
            samples.append(dict(source=label, format=fmt, strip_uuids=strip, exported_sheet=tbl[:8]))


def fixture_docs():
    import glob
    out = []
    for p in sorted(glob.glob("/repo/tests/input/*.json") + glob.glob("/repo/tests/output/*.json")):
        try:
            d = json.load(open(p))
        except Exception:
            continue
        if isinstance(d, dict) and d.get("flows"):
            for f in d["flows"]:
                out.append(dict(d, flows=[f], campaigns=[], triggers=[]))
    return out


# ---------------------------------------------------------------- C04's own input streams
# tests with one argument that the sheet format expresses (condition_type + condition) and that the
# shared sheet generator does not use: a foreign touch on compiled flows
ONE_ARG_TESTS = ["all_words", "has_beginning", "has_date_eq", "has_date_gt", "has_date_lt", "has_district", "has_number_gt",
                 "has_number_gte", "has_number_lte", "has_only_phrase", "has_phone", "has_pattern"]


# (names the sheet generator never uses: one group name must not come with two uuids in one document)
FOREIGN_GROUPS = {"vip list": "0a000000-0000-4000-8000-00000000000a", "members": "0b000000-0000-4000-8000-00000000000b",
                  "beta testers": "0c000000-0000-4000-8000-00000000000c"}


def retype_cases(rng, flow, groups=None):
    """some one-argument tests of plain switch routers get another one-argument test type (has_phone with its
    optional country code among them); never two equal tests in one router"""
    n_changed = 0
    for n in flow["nodes"]:
        r = n.get("router")
        if not r or node_kind(n) != "switch" or r.get("operand") == "@contact.groups":
            continue
        for k in r["cases"]:
            if len(k["arguments"]) == 1 and rng.random() < 0.3:
                t = "has_group" if rng.random() < 0.15 else rng.choice(ONE_ARG_TESTS)
                args = [rng.choice(["RW", "KE", "US"])] if t == "has_phone" else k["arguments"]
                if t == "has_group":
                    # a membership test in a router that is not a group split (foreign exports have them)
                    g = rng.choice(sorted(FOREIGN_GROUPS))
                    args = [FOREIGN_GROUPS[g], g]
                    if groups is not None and not any(x.get("name") == g for x in groups):
                        groups.append({"uuid": FOREIGN_GROUPS[g], "name": g})
                if not any(o is not k and o["type"] == t and o["arguments"] == args for o in r["cases"]):
                    k["type"], k["arguments"] = t, args
                    n_changed += 1
    return n_changed


def clash_sheet(rng):
    """directed shape: a node with several actions whose readable row name (that of its first action) is also the
    readable name of another node, in front of a join; also the shapes of the listed findings in small"""
    base = rng.choice(["Please choose an option", "Welcome to the service", "0123456789abcdefXYZ", "same words here now", "Your answer was saved"])
    h = ["row_id", "type", "from", "condition", "message_text", "node_name", "save_name"]
    rows = [dict(row_id="1", type=rng.choice(["wait_for_response", "wait_for_response", "split_by_value"]), **{"from": "start"})]
    if rows[0]["type"] == "split_by_value":
        rows[0]["message_text"] = "@fields.choice"
    k = rng.choice([2, 2, 3])
    a_rows, rid = [], 2
    for i in range(k):
        if i == 0 or rng.random() < 0.5:
            a_rows.append(dict(row_id=str(rid), type="send_message", message_text=base + ("" if i == 0 else f" again {i}"), node_name="nA"))
        else:
            a_rows.append(dict(row_id=str(rid), type="save_value", message_text=f"v{i}", save_name=f"field {i}", node_name="nA"))
        a_rows[-1]["from"] = "1" if i == 0 else str(rid - 1)
        if i == 0:
            a_rows[-1]["condition"] = "a"
        rid += 1
    b_row = dict(row_id=str(rid), type="send_message", message_text=base + rng.choice(["", " two", " (b)"]), condition="b", **{"from": "1"})
    rid += 1
    branches = [a_rows, [b_row]]
    ends = [a_rows[-1]["row_id"], b_row["row_id"]]
    if rng.random() < 0.4:
        c_row = dict(row_id=str(rid), type="send_message", message_text=rng.choice([base, "other text"]), condition="c", **{"from": "1"})
        rid += 1
        branches.append([c_row])
        if rng.random() < 0.5:
            ends.append(c_row["row_id"])
    rng.shuffle(branches)
    for b in branches:
        rows += b
    rng.shuffle(ends)
    rows.append(dict(row_id=str(rid), type="send_message", message_text="join", **{"from": ";".join(ends)}))
    rid += 1
    if rng.random() < 0.5:
        rows.append(dict(row_id=str(rid), type="send_message", message_text=rng.choice([base, "tail"]), **{"from": str(rid - 1)}))
    return h, rows


def directed_docs():
    """the replay sheets of findings.d/C04.json (open and fixed alike): every listed class is exercised in every run"""
    here = os.path.dirname(os.path.dirname(os.path.abspath(__file__)))
    out = []
    try:
        fs = json.load(open(os.path.join(here, "findings.d", "C04.json")))["findings"]
    except (OSError, ValueError, KeyError):
        return out
    for f in fs:
        if isinstance((f.get("replay") or {}).get("doc"), dict):
            out.append((f["key"], f["replay"]["doc"]))
            continue
        sh = (f.get("replay") or {}).get("sheet")
        if not sh or "edges.1.from" in sh[0]:
            continue   # (a replay given as the exported sheet is not a source)
        rows = [dict(zip(sh[0], r)) for r in sh[1:]]
        r = flowutil.compile_workbook(flowutil.single_flow_workbook("f1", sh[0], rows))
        if r[0] == "ok":
            out.append((f["key"], r[1]))
    return out


def run(ctx):
    thorough = ctx.tier == "thorough"
    n = (4000 if thorough else 260) * ctx.scale
    nontrivial, samples = set(), []
    for d in fixture_docs()[: (100 if thorough else 12)]:
        ctx.count("src_fixture")
        judge(ctx, d, nontrivial, samples, "fixture")
        c04_means.tie(ctx, d, "fixture")
    for key, d in directed_docs():
        ctx.count("src_directed")
        judge(ctx, d, nontrivial, samples, "directed:" + key)
        c04_means.tie(ctx, d, "directed:" + key)
    for i in range(n):
        rng = ctx.rng
        x = rng.random()
        if x < 0.45:
            rows, g = sheetgen.gen_core_sheet(rng, rng.choice([2, 4, 7, 12]), wf=True, special_text=rng.random() < 0.7)
            label = "compiled-core"
        elif x < 0.6:
            rows, g = sheetgen.gen_merge_sheet(rng, rng.choice([2, 5, 8]), special_text=rng.random() < 0.5)
            label = "compiled-merge"
        elif x < 0.9:
            g = sheetgen.SugarGen(rng, wf=True, special_text=rng.random() < 0.5, ctxvars=tuple(CTX))
            rows = sheetgen.flatten_sugared(g.gen_tree(rng.choice([3, 5, 8])))
            label = "compiled-sugared"
        else:
            rows, label = None, "compiled-name-clash"
        if label == "compiled-name-clash":
            headers, cells = clash_sheet(rng)
        else:
            if not rows:
                continue
            headers, cells = sheetgen.render_sheet(rows, rng)
        r = flowutil.compile_workbook(flowutil.template_workbook("f1", headers, cells, CTX))
        if r[0] != "ok":
            ctx.count("source_sheet_rejected")
            continue
        ctx.count("src_" + label)
        if rng.random() < 0.25:
            ctx.count("cases_retyped", retype_cases(rng, r[1]["flows"][0], r[1].get("groups")))
        judge(ctx, r[1], nontrivial, samples, label)
        c04_means.tie(ctx, r[1], label)
    c04_means.generated(ctx, (400 if thorough else 40) * ctx.scale)
    ctx.v.coverage["programs"] = ctx.stats.get("round_trips_ok", 0)
    ctx.v.coverage["disagreements_checked"] = len(ctx.disagreements) + sum(ctx.v.viol_by_key.values()) + sum(ctx.v.known_hits.values())
    ctx.v.coverage["distinct_nontrivial"] = len(nontrivial)
    ctx.v.coverage["samples"] = samples or [dict(note="no successful round trip in this run")]
    ctx.v.coverage["rule"] = (
        "flows = the repository's fixture exports + the replay sheets of findings.d/C04.json + flows compiled from generated sheets "
        "(core vocabulary, merged rows, sugar, a directed shape with equal readable row names in front of a join; a quarter of them "
        "with one-argument tests retyped to tests the sheet generator does not use, has_phone with a country code among them), "
        "texts with | ; \\\\ , quotes, newlines, non-ASCII; each exported with flows_to_sheets to csv/xlsx with/without "
        "strip_uuids/numbered, read back by the real reader, recompiled by FlowParser and compared by the Coq-verified checker. "
        "A failing round trip counts as a listed finding only when the recompiled flow is behaviourally equal (same checker) to the "
        "original with exactly the losses of the listed findings applied, and only the losses that were needed are reported; "
        "a sheet that does not compile because of a listed structural cause (blank padded edge cells, spread webhook header "
        "columns: exact message and cause present in the table) is compiled again without that cause and judged the same way; "
        "anything else is an unlisted violation. "
        "non-trivial = distinct (exits, actions) shape with >= 3 nodes and a router, per format/strip setting")
    ctx.v.assumptions += ["flows come from the compiler and the fixtures; foreign exports with pass-through action kinds are outside the sheet vocabulary",
                          "comparison modulo the order of a router's tests is used only to attribute a failure to the listed finding "
                          "case-order-follows-row-order; a round trip that passes is compared with the order as it is"]


def replay(rep):
    r = rep["replay"]
    out = export_and_recompile(r["flow"], r["format"], r["strip_uuids"], r["numbered"])
    if out[0] != "ok":
        return False
    f, f2 = r["flow"]["flows"][0], out[1]["flows"][0]
    if flowutil.distinguishing_trace(f, f2) is not None:
        return False
    if not r["strip_uuids"] and (grouping(f) != grouping(f2) or ref_uuids(f) != ref_uuids(f2)):
        return False
    return True
