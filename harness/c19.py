"""C19 — campaign and trigger sheets compile row for row into resolvable definitions.

(a) correspondence: generated content indexes (campaign sheets, trigger sheets, 0..3 flows)
    are written as CSV folders into scratch directories and compiled by the real
    `rpft.converters.create_flows` (CLI-equivalent mode); the same abstract case goes to the
    extracted Gallina model (`compile`, engine 119).  Compared: Ok/Err and the `campaigns` /
    `triggers` arrays without their uuids.
(b) the property's own oracle on the implementation, written from the property text and the
    *intended* values the generator started from (not from re-parsing cells): one event per
    row in order with exactly the written fields, one trigger per row, references carrying
    one uuid per (kind, name) across the whole document, every invalid value rejected.
Plus function-level correspondence for generate_field_key, int() and List[str] cells.
"""
import csv
import itertools
import os
import re
import shutil
import tempfile

from common import enc_str, enc_list, parse_sexp, dec_str, run_cli_mode

LEVEL = "proof"

CAMP_COLS = ["uuid", "offset", "unit", "event_type", "delivery_hour", "message", "relative_to",
             "start_mode", "flow", "base_language"]
TRIG_COLS = ["type", "keywords", "flow", "groups", "exclude_groups", "channel", "match_type"]

# what the property text itself fixes (used by the oracle, never taken from the tables)
PROPERTY_NO_HOUR = -1
# reference enum lists of the property's domain (RapidPro's vocabulary); the oracle's
# "certainly invalid" values are JUNK minus whatever the code's validators list NOW
DEFAULT_TABLES = dict(
    unit=["M", "H", "D", "W"], start_mode=["I", "S", "P"], event_type=["M", "F"],
    trigger_type=["K", "C", "M", "T"], match_type={"K": ["F", "O", ""], "C": None, "M": None, "T": None},
    no_hour=-1, lang_key="eng", default_lang="eng", need_msg=["M"], rend_flow=["F"], rend_lang=["M"],
    kw_rules={"K": (True, "F"), "C": (False, None), "M": (False, None), "T": (False, None)},
    key_max=36, camp_required=["offset", "unit", "event_type", "relative_to", "start_mode"],
    trig_required=["type"],
)
JUNK = ["X", "m", "MM", "?", "0", "Hour", "k", "f o"]

UUID_RE = re.compile(r"^[0-9a-f]{8}-[0-9a-f]{4}-4[0-9a-f]{3}-[89ab][0-9a-f]{3}-[0-9a-f]{12}$")


# ------------------------------------------------------------------------------ tables
def dec_opt(x, f):
    return None if x == [] else f(x[0])


def dec_strs(x):
    return [dec_str(s) for s in x]


def read_tables(model):
    """The regenerated tables as the Coq development sees them (engine 119 fn 0)."""
    if model is None:
        return dict(DEFAULT_TABLES), False
    t = parse_sexp(model.ask("(119 0)"))
    fields = lambda x: [(dec_str(f[0]), f[1], f[2] == 1, dec_str(f[3])) for f in x]
    cf, tf = fields(t[14]), fields(t[15])
    return dict(
        unit=dec_opt(t[0], dec_strs), start_mode=dec_opt(t[1], dec_strs), event_type=dec_opt(t[2], dec_strs),
        trigger_type=dec_opt(t[3], dec_strs),
        match_type={dec_str(r[0]): dec_opt(r[1], dec_strs) for r in t[4]},
        no_hour=(-t[5][1] if t[5][0] == 1 else t[5][1]), lang_key=dec_str(t[6]), default_lang=dec_str(t[7]),
        need_msg=dec_strs(t[8]), rend_flow=dec_strs(t[9]), rend_lang=dec_strs(t[10]),
        kw_rules={dec_str(r[0]): (r[1] == 1, dec_opt(r[2], dec_str)) for r in t[11]},
        key_max=t[12],
        camp_required=[n for (n, k, req, d) in cf if req], trig_required=[n for (n, k, req, d) in tf if req],
    ), True


def enum_or(tbl, key):
    return tbl[key] if tbl[key] is not None else DEFAULT_TABLES[key]


# ------------------------------------------------------------------------------ generator
FLOW_NAMES = ["f1", "f2", "Flow Three", "srv flow", "ghost", "F1"]
GROUP_NAMES = ["G1", "My Group", "g 3", "g1"]
CAMP_SHEETS = ["camp_a", "camp_b", "camp_c"]
TRIG_SHEETS = ["trig_a", "trig_b"]
FLOW_SHEETS = ["f1", "f2", "tpl"]
LABELS = ["Created On", "Last Seen On", "my field", "X", "a" * 36, "A B  C", "field_1", "3rd Visit",
          "Ab" * 18, "x" * 35 + "Y", "é tude", "日本 a", "Z z", "q\tr", "UPPER", "a-b.c"]
TEXTS = ["hello", "Hi | there; x", "back\\slash", "line1\nline2", "ünï 😀", "a;b", "x|", "\\;", "0", "  padded",
         "comma, \"quoted\"", "M", "'single'"]
LANGS = ["", "", "eng", "fra", "spa"]
CHANNELS = ["", "", "ch-1", "6a1e3e3c-4a6f-4f0f-9f0e-aaaaaaaaaaaa", "Tel 5"]
KEYWORDS = [["a"], ["hello", "world"], ["the word"], ["x", "y", "z"], ["ünï"], ["a;b"], ["p|q", "r"], ["k\\"], ["K"], ["0"]]
GUUIDS = ["aaaaaaaa-1111-4111-8111-111111111111", "bbbbbbbb-2222-4222-8222-222222222222",
          "cccccccc-3333-4333-8333-333333333333", "dddddddd-4444-4444-8444-444444444444"]
XUUIDS = ["11111111-1111-4111-8111-111111111111", "22222222-2222-4222-8222-222222222222",
          "33333333-3333-4333-8333-333333333333", "44444444-4444-4444-8444-444444444444",
          "55555555-5555-4555-8555-555555555555", "66666666-6666-4666-8666-666666666666"]


def pad(rng, s):
    """decorate a cell with whitespace the parser strips"""
    r = rng.random()
    if r < 0.75:
        return s
    if r < 0.85:
        return " " + s
    if r < 0.95:
        return s + "  "
    return "\t" + s + " \n"


def fmt_int(rng, z):
    r = rng.random()
    a = str(abs(z))
    if r < 0.7:
        body = a
    elif r < 0.8:
        body = "0" + a
    elif r < 0.9 and len(a) >= 2:
        body = a[0] + "_" + a[1:]
    else:
        body = a
    if z < 0:
        return "-" + body
    return ("+" + body) if rng.random() < 0.1 else body


def esc(s):
    return s.replace("\\", "\\\\").replace("|", "\\|").replace(";", "\\;")


def fmt_list(rng, items):
    """render a list of strings as a List[str] cell (one separator level only)"""
    if not items:
        return ""
    sep = ";" if rng.random() < 0.7 else "|"
    parts = [esc(x) for x in items]
    if rng.random() < 0.2:
        parts = [" " + p + " " for p in parts]
    cell = sep.join(parts)
    if len(items) == 1:
        # a single element: plain, or with the trailing separator
        return cell + sep if rng.random() < 0.3 else cell
    if rng.random() < 0.15:
        cell += sep     # trailing separator is dropped by the cell parser
    return cell


class Gen:
    def __init__(self, rng, tbl):
        self.rng = rng
        self.tbl = tbl
        self.cyc = {}

    def cycle(self, key, values):
        """every value of an enum is used, round-robin with a random start"""
        i = self.cyc.get(key, self.rng.randrange(len(values)))
        self.cyc[key] = i + 1
        return values[i % len(values)]

    def junk(self, key, extra=()):
        cur = self.tbl[key] if not isinstance(self.tbl[key], dict) else None
        cands = [j for j in JUNK + list(extra) if cur is None or j not in cur]
        return self.rng.choice(cands)

    # ---------------------------------------------------------------- campaign rows
    def camp_row(self, flows_pool, invalid=None):
        rng, tbl = self.rng, self.tbl
        unit = self.cycle("unit", enum_or(tbl, "unit"))
        sm = self.cycle("start_mode", enum_or(tbl, "start_mode"))
        et = self.cycle("event_type", enum_or(tbl, "event_type"))
        offset = rng.choice([0, 1, 15, 150, -3, 7, 1000, 23, -12])
        hour = rng.choice([None, None, 0, 6, 12, 23, -1, 7])
        is_msg = et in tbl["need_msg"]
        text = rng.choice(TEXTS) if (is_msg or rng.random() < 0.15) else None
        lang = rng.choice(LANGS)
        label = rng.choice(LABELS)
        flow = rng.choice(flows_pool) if (not is_msg or rng.random() < 0.3) else ""
        if not is_msg and rng.random() < 0.08:
            flow = ""          # a flow event without a flow name: accepted by the code (design note)
        cells = {
            "uuid": rng.choice(["", "", "abc", XUUIDS[0]]),
            "offset": pad(rng, fmt_int(rng, offset)),
            "unit": pad(rng, unit), "event_type": pad(rng, et),
            "delivery_hour": "" if hour is None else pad(rng, fmt_int(rng, hour)),
            "message": "" if text is None else pad(rng, text),
            "relative_to": pad(rng, label), "start_mode": pad(rng, sm),
            "flow": pad(rng, flow) if flow else "", "base_language": pad(rng, lang) if lang else "",
        }
        want = {
            "offset": offset, "unit": unit, "event_type": et, "hour": PROPERTY_NO_HOUR if hour is None else hour,
            "text": None if text is None else text.strip(), "lang": (lang or None) if text is not None else None,
            "label": label.strip(), "start_mode": sm, "flow": flow or None, "is_msg": is_msg,
        }
        inv = None
        if invalid:
            inv = self.break_camp(cells, want, invalid)
        return cells, want, inv

    def break_camp(self, cells, want, kind):
        rng = self.rng
        if kind == "unit":
            cells["unit"] = self.junk("unit", ["", want["unit"].lower(), want["unit"] * 2])
            return ("validate", "invalid-unit")
        if kind == "start_mode":
            cells["start_mode"] = self.junk("start_mode", ["", want["start_mode"].lower(), "IS"])
            return ("validate", "invalid-start-mode")
        if kind == "event_type":
            cells["event_type"] = self.junk("event_type", ["", want["event_type"].lower(), "MF"])
            return ("validate", "invalid-event-type")
        if kind == "no_text":
            cells["event_type"] = self.rng.choice(self.tbl["need_msg"]) if self.tbl["need_msg"] else "M"
            cells["message"] = rng.choice(["", "   ", "\t"])
            return ("parse", "message-event-without-text")
        if kind == "offset":
            cells["offset"] = rng.choice(["", "x", "1.5", "1__0", "_1", "--1", "1 0", "1_", "+", "0x10", "1e3"])
            return ("parse", "offset-not-an-integer")
        if kind == "hour":
            cells["delivery_hour"] = rng.choice(["x", "1.0", "_", "1-", "noon"])
            return ("parse", "delivery-hour-not-an-integer")
        if kind == "label":
            cells["relative_to"] = rng.choice(["", "123", "a" * 37, "___", "  ", "A" + " " * 36 + "b", "é"])
            return ("parse", "relative-to-without-usable-key")
        raise AssertionError(kind)

    def camp_sheet(self, flows_pool, n_rows, invalid=None, missing_col=None):
        rng = self.rng
        bad_at = rng.randrange(n_rows) if (invalid and n_rows) else None
        gen = [self.camp_row(flows_pool, invalid if i == bad_at else None) for i in range(n_rows)]
        cols = [c for c in CAMP_COLS if c in self.tbl["camp_required"] or rng.random() < 0.75]
        # a valid message event needs its text column; an invalid value needs its column
        if any(w["is_msg"] and inv is None for (_, w, inv) in gen) and "message" not in cols:
            cols.append("message")
        if invalid == "hour" and "delivery_hour" not in cols:
            cols.append("delivery_hour")
        if missing_col:
            cols = [c for c in cols if c != missing_col]
        rng.shuffle(cols)
        rows, wants, invs = [], [], []
        for cells, want, inv in gen:
            # an absent column means the default of its field
            if "delivery_hour" not in cols:
                want["hour"] = PROPERTY_NO_HOUR
            if "message" not in cols:
                want["text"], want["lang"] = None, None
            if "base_language" not in cols:
                want["lang"] = None
            if "flow" not in cols:
                want["flow"] = None
            rows.append([cells[c] for c in cols])
            wants.append(want)
            invs.append(inv)
        if missing_col and n_rows:
            invs[0] = ("validate", "missing-required-column")
        return dict(cols=cols, rows=rows, want=wants, invalid=invs)

    # ---------------------------------------------------------------- trigger rows
    def trig_row(self, flows_pool, invalid=None):
        rng, tbl = self.rng, self.tbl
        tt = self.cycle("trigger_type", enum_or(tbl, "trigger_type"))
        needs_kw, dflt_mt = tbl["kw_rules"].get(tt, (False, None))
        kws = list(rng.choice(KEYWORDS)) if (needs_kw or rng.random() < 0.2) else []
        mts = tbl["match_type"].get(tt)
        if mts is not None:
            mt = self.cycle("match_type", mts)
        else:
            mt = rng.choice(["", "", "", "F", "O", "Z"])
        flow = rng.choice(flows_pool)
        groups = rng.sample(GROUP_NAMES, rng.choice([0, 0, 1, 2, 3]))
        excl = rng.sample(GROUP_NAMES, rng.choice([0, 0, 0, 1, 2]))
        ch = rng.choice(CHANNELS)
        cells = {"type": pad(rng, tt), "keywords": fmt_list(rng, kws), "flow": pad(rng, flow),
                 "groups": fmt_list(rng, groups), "exclude_groups": fmt_list(rng, excl),
                 "channel": pad(rng, ch) if ch else "", "match_type": pad(rng, mt) if mt else ""}
        want = {"type": tt, "keywords": [k.strip() for k in kws], "flow": flow, "groups": groups, "exclude_groups": excl,
                "channel": ch or None, "match_type": mt or None, "needs_kw": needs_kw, "dflt_mt": dflt_mt}
        inv = None
        if invalid:
            inv = self.break_trig(cells, want, invalid)
        return cells, want, inv

    def break_trig(self, cells, want, kind):
        rng, tbl = self.rng, self.tbl
        kw_types = [t for t, (n, _) in tbl["kw_rules"].items() if n] or ["K"]
        if kind == "type":
            cells["type"] = self.junk("trigger_type", ["", want["type"].lower(), "KC"])
            return ("validate", "invalid-trigger-type")
        if kind == "match_type":
            constrained = [t for t, l in tbl["match_type"].items() if l is not None] or ["K"]
            t = rng.choice(constrained)
            cur = tbl["match_type"].get(t) or []
            cells["type"] = t
            if not cells["keywords"]:
                cells["keywords"] = "kw"
            cells["match_type"] = rng.choice([j for j in JUNK + ["f", "FO", "o"] if j not in cur])
            return ("validate", "invalid-match-type")
        if kind == "no_keyword":
            cells["type"] = rng.choice(kw_types)
            cells["keywords"] = rng.choice(["", ";a", "  ", "|b"])
            if cells["match_type"].strip() not in (tbl["match_type"].get(cells["type"]) or [cells["match_type"].strip()]):
                cells["match_type"] = ""
            return ("parse", "keyword-trigger-without-keyword")
        if kind == "no_flow":
            cells["flow"] = rng.choice(["", "  "])
            return ("parse", "trigger-without-flow")
        if kind == "empty_group":
            which = rng.choice(["groups", "exclude_groups"])
            cells[which] = rng.choice(["a;;b", ";", ";x", "G1| |g 3"])
            return ("parse", "trigger-group-without-name")
        if kind == "unknown_flow":
            cells["flow"] = "nowhere"
            return ("resolve", "trigger-for-unknown-flow")
        raise AssertionError(kind)

    def trig_sheet(self, flows_pool, n_rows, invalid=None, missing_col=None):
        rng = self.rng
        bad_at = rng.randrange(n_rows) if (invalid and n_rows) else None
        gen = [self.trig_row(flows_pool, invalid if i == bad_at else None) for i in range(n_rows)]
        cols = [c for c in TRIG_COLS if c in self.tbl["trig_required"] or c == "flow" or rng.random() < 0.8]
        if any(w["needs_kw"] and inv is None for (_, w, inv) in gen) and "keywords" not in cols:
            cols.append("keywords")
        if invalid:
            for c in ("keywords", "match_type", "groups", "exclude_groups"):
                if c not in cols:
                    cols.append(c)
        if missing_col:
            cols = [c for c in cols if c != missing_col]
        rng.shuffle(cols)
        rows, wants, invs = [], [], []
        for cells, w, inv in gen:
            if "keywords" not in cols:
                w["keywords"] = []
            if "groups" not in cols:
                w["groups"] = []
            if "exclude_groups" not in cols:
                w["exclude_groups"] = []
            if "channel" not in cols:
                w["channel"] = None
            if "match_type" not in cols:
                w["match_type"] = None
            rows.append([cells[c] for c in cols])
            wants.append(w)
            invs.append(inv)
        if missing_col and n_rows:
            invs[0] = ("validate", "missing-required-column")
        return dict(cols=cols, rows=rows, want=wants, invalid=invs)

    # ---------------------------------------------------------------- a whole index
    def case(self, malformed=None, max_rows=8):
        rng = self.rng
        # flows of the same index
        n_flows = rng.choice([0, 1, 1, 2, 3])
        flow_sheets = rng.sample(FLOW_SHEETS, n_flows)
        flows = {}
        defined = []
        for fs in flow_sheets:
            new = rng.choice(["", "", "Flow Three", "F1"]) if rng.random() < 0.3 else ""
            name = new or fs
            if name in defined:
                new, name = "", fs
            defined.append(name)
            flows[fs] = dict(new=new)
        # explicit uuids: one per name at most; never for a flow the index defines
        xflow = {n: XUUIDS[i] for i, n in enumerate(FLOW_NAMES) if n not in defined and rng.random() < 0.4}
        xgroup = {n: GUUIDS[i] for i, n in enumerate(GROUP_NAMES) if rng.random() < 0.4}
        for fs in flow_sheets:
            f = flows[fs]
            if rng.random() < 0.6:
                g = rng.choice(GROUP_NAMES)
                f["group"] = [g, xgroup.get(g, "") if rng.random() < 0.7 else ""]
            if rng.random() < 0.5:
                tgt = rng.choice([n for n in FLOW_NAMES if n != "ghost"])
                f["enter"] = [tgt, xflow.get(tgt, "") if rng.random() < 0.7 else ""]
        entered = [f["enter"][0] for f in flows.values() if "enter" in f]
        known = defined + entered
        camp_pool = FLOW_NAMES                      # campaigns may name any flow, known or not
        # sheets
        n_camp = rng.choice([0, 1, 1, 2, 3])
        n_trig = rng.choice([0, 1, 1, 2])
        camp_sheets = rng.sample(CAMP_SHEETS, n_camp)
        trig_sheets = rng.sample(TRIG_SHEETS, n_trig)
        bad_kind, bad_sheet = None, None
        if malformed:
            bad_kind = malformed
            if malformed in ("unit", "start_mode", "event_type", "no_text", "offset", "hour", "label", "camp_missing"):
                if not camp_sheets:
                    camp_sheets = [rng.choice(CAMP_SHEETS)]
                bad_sheet = rng.choice(camp_sheets)
            elif malformed in ("type", "match_type", "no_keyword", "no_flow", "empty_group", "unknown_flow", "trig_missing"):
                if not trig_sheets:
                    trig_sheets = [rng.choice(TRIG_SHEETS)]
                bad_sheet = rng.choice(trig_sheets)
        camps, trigs = {}, {}
        for s in camp_sheets:
            n = rng.randint(0, max_rows)
            if s == bad_sheet:
                n = max(n, 1)
                if bad_kind == "camp_missing":
                    camps[s] = self.camp_sheet(camp_pool, n, missing_col=rng.choice(self.tbl["camp_required"]))
                else:
                    camps[s] = self.camp_sheet(camp_pool, n, invalid=bad_kind)
            else:
                camps[s] = self.camp_sheet(camp_pool, n)
        index = []
        for fs in flow_sheets:
            index.append(dict(t="flow", sheet=fs, new=flows[fs]["new"]))
        for s in camp_sheets:
            reps = 2 if rng.random() < 0.2 else 1
            for k in range(reps):
                new = rng.choice(["", "", "", "renamed", "camp_a", "trig_a", "Other Name"])
                index.append(dict(t="camp", sheet=s, new=new, group=rng.choice(GROUP_NAMES + ["Camp Group"])))
        for s in trig_sheets:
            reps = 2 if rng.random() < 0.15 else 1
            for k in range(reps):
                index.append(dict(t="trig", sheet=s))
        rng.shuffle(index)
        # ignore rows: names of campaigns / trigger sheets / flows / nothing
        ignorable = [r.get("new") or r["sheet"] for r in index] + ["unrelated"]
        if rng.random() < 0.25 and index:
            pos = rng.randint(0, len(index))
            index.insert(pos, dict(t="ignore", name=rng.choice(ignorable)))
        # known flows after ignore rows (a reference computation of the harness)
        live_flows = []
        for r in index:
            if r["t"] == "flow":
                live_flows.append(r)
            elif r["t"] == "ignore":
                live_flows = [f for f in live_flows if (f["new"] or f["sheet"]) != r["name"]]
        known = [(f["new"] or f["sheet"]) for f in live_flows] + \
                [flows[f["sheet"]]["enter"][0] for f in live_flows if "enter" in flows[f["sheet"]]]
        # campaign flows of the surviving campaigns also become known to the container
        trig_pool = sorted(set(known))
        if rng.random() < 0.3:
            # a flow that only a surviving campaign names is known to the container as well
            live = {}
            for r in index:
                if r["t"] == "camp":
                    live[r["new"] or r["sheet"]] = r["sheet"]
                elif r["t"] == "ignore":
                    live.pop(r["name"], None)
            extra = [w["flow"] for s2 in live.values() for w in camps[s2]["want"] if w["flow"]]
            trig_pool = sorted(set(trig_pool + extra))
        for s in trig_sheets:
            n = rng.randint(0, max_rows)
            if not trig_pool and not (s == bad_sheet):
                n = 0           # no flow a trigger could point at
            if s == bad_sheet:
                n = max(n, 1)
                if bad_kind == "trig_missing":
                    trigs[s] = self.trig_sheet(trig_pool or ["ghost"], n, missing_col=rng.choice(self.tbl["trig_required"]))
                else:
                    trigs[s] = self.trig_sheet(trig_pool or ["ghost"], n, invalid=bad_kind)
            else:
                trigs[s] = self.trig_sheet(trig_pool, n)
        return dict(index=index, camps=camps, trigs=trigs, flows=flows, known=known,
                    xflow=xflow, xgroup=xgroup, malformed=malformed)


# ------------------------------------------------------------------------------ rendering a case
def sheets_of(ac):
    sheets = {}
    idx = [["type", "sheet_name", "new_name", "group"]]
    for r in ac["index"]:
        if r["t"] == "flow":
            idx.append(["create_flow", r["sheet"], r["new"], ""])
        elif r["t"] == "camp":
            idx.append(["create_campaign", r["sheet"], r["new"], r["group"]])
        elif r["t"] == "trig":
            idx.append(["create_triggers", r["sheet"], "", ""])
        else:
            idx.append(["ignore_row", r["name"], "", ""])
    sheets["content_index"] = idx
    for s, sh in ac["camps"].items():
        sheets[s] = [sh["cols"]] + sh["rows"]
    for s, sh in ac["trigs"].items():
        sheets[s] = [sh["cols"]] + sh["rows"]
    for s, f in ac["flows"].items():
        rows = [["row_id", "type", "from", "message_text", "obj_id"], ["", "send_message", "start", "hello", ""]]
        if "group" in f:
            rows.append(["", "add_to_group", "", f["group"][0], f["group"][1]])
        if "enter" in f:
            rows.append(["", "start_new_flow", "", f["enter"][0], f["enter"][1]])
        sheets[s] = rows
    return sheets


def compile_impl(ac):
    from rpft.converters import create_flows

    d = tempfile.mkdtemp(prefix="c19_")
    try:
        for name, rows in sheets_of(ac).items():
            with open(os.path.join(d, name + ".csv"), "w", newline="", encoding="utf-8") as f:
                csv.writer(f).writerows(rows)
        return run_cli_mode(create_flows, [d], None, "csv")
    finally:
        shutil.rmtree(d, ignore_errors=True)


def enc_ostr(x):
    return "()" if x is None else "(" + enc_str(x) + ")"


def enc_raw(cols, row, all_cols):
    d = dict(zip(cols, row))
    return enc_list([enc_ostr(d.get(c)) for c in all_cols])


def model_request(ac):
    cs = enc_list(["(" + enc_str(s) + " " + enc_list([enc_raw(sh["cols"], r, CAMP_COLS) for r in sh["rows"]]) + ")"
                   for s, sh in ac["camps"].items()])
    ts = enc_list(["(" + enc_str(s) + " " + enc_list([enc_raw(sh["cols"], r, TRIG_COLS) for r in sh["rows"]]) + ")"
                   for s, sh in ac["trigs"].items()])
    idx = []
    for r in ac["index"]:
        if r["t"] == "camp":
            idx.append(f"(0 {enc_str(r['sheet'])} {enc_str(r['new'])} {enc_str(r['group'])})")
        elif r["t"] == "trig":
            idx.append(f"(1 {enc_str(r['sheet'])})")
        elif r["t"] == "ignore":
            idx.append(f"(2 {enc_str(r['name'])})")
    return f"(119 3 ({cs} {ts}) {enc_list(idx)} {enc_list([enc_str(k) for k in ac['known']])})"


def dec_json(x):
    t = x[0]
    if t == 0:
        return None
    if t == 1:
        return x[1] == 1
    if t == 2:
        return -x[2] if x[1] == 1 else x[2]
    if t in (3, 4):
        return dec_str(x[1])
    if t == 5:
        return [dec_json(y) for y in x[1]]
    if t == 6:
        return {dec_str(kv[0]): dec_json(kv[1]) for kv in x[1]}
    raise ValueError(x)


def model_result(line):
    if line.startswith("(999999"):
        return ("err", parse_sexp(line)[1])
    if line.startswith("(99999"):
        return ("bad", line)
    x = parse_sexp(line)
    return ("ok", dec_json(x[1]))


# ------------------------------------------------------------------------------ projection
def project(out):
    """campaigns / triggers arrays without their uuids (references keep the name only)"""
    def ref(r):
        return {"name": r["name"]}

    camps = []
    for c in out["campaigns"]:
        evs = []
        for e in c["events"]:
            e2 = {k: v for k, v in e.items() if k != "uuid"}
            if "flow" in e2:
                e2["flow"] = ref(e2["flow"])
            evs.append(e2)
        camps.append({"group": ref(c["group"]), "name": c["name"], "events": evs})
    trigs = []
    for t in out["triggers"]:
        t2 = dict(t)
        t2["flow"] = ref(t["flow"])
        t2["groups"] = [ref(g) for g in t["groups"]]
        t2["exclude_groups"] = [ref(g) for g in t["exclude_groups"]]
        trigs.append(t2)
    return {"campaigns": camps, "triggers": trigs}


# ------------------------------------------------------------------------------ the oracle
def survivors(ac):
    """Reference reading of the index (property C10's rule: sequential, last definition wins,
    a redefinition keeps the first position, ignore_row removes): which campaign definitions
    and trigger sheets are in force at the end, and which sheets were read on the way."""
    camps, trigs, read = {}, {}, []
    for r in ac["index"]:
        if r["t"] == "camp":
            read.append(("camp", r["sheet"]))
            camps[r["new"] or r["sheet"]] = (r["sheet"], r["group"])
        elif r["t"] == "trig":
            read.append(("trig", r["sheet"]))
            trigs[r["sheet"]] = r["sheet"]
        elif r["t"] == "ignore":
            camps.pop(r["name"], None)
            trigs.pop(r["name"], None)
    return camps, trigs, read


def expected_rejections(ac):
    """[(finding class)] of the invalid values that must stop the run"""
    camps, trigs, read = survivors(ac)
    out = []
    for kind, s in read:
        sh = ac["camps"][s] if kind == "camp" else ac["trigs"][s]
        out += [inv[1] for inv in sh["invalid"] if inv and inv[0] == "validate"]
    for name, (s, g) in camps.items():
        out += [inv[1] for inv in ac["camps"][s]["invalid"] if inv and inv[0] == "parse"]
    known = set(ac["known"])
    for name, (s, g) in camps.items():
        for w, inv in zip(ac["camps"][s]["want"], ac["camps"][s]["invalid"]):
            if w["flow"]:
                known.add(w["flow"])
    for s in trigs:
        sh = ac["trigs"][s]
        out += [inv[1] for inv in sh["invalid"] if inv and inv[0] == "parse"]
        for w, inv in zip(sh["want"], sh["invalid"]):
            if inv and inv[0] == "resolve":
                out.append(inv[1])
            elif inv is None and w["flow"] not in known:
                out.append("trigger-for-unknown-flow")
    return out


def field_key(label):
    return label.strip().lower().replace(" ", "_")


def oracle(ac, res, tbl):
    """Failures of the property on this input: list of (finding class, summary)."""
    fails = []
    rej = expected_rejections(ac)
    if res[0] != "ok":
        if not rej:
            fails.append(("valid-sheets-rejected", f"all rows valid, but the run stopped: {res[1]}: {res[2][:200]}"))
        return fails
    if rej:
        fails.append((rej[0] + "-accepted", f"a row with {rej[0]} was compiled without an error"))
        return fails
    out = res[1]
    camps, trigs, _ = survivors(ac)
    # ---- campaigns: one per surviving definition, one event per row, in order, as written
    if [c["name"] for c in out["campaigns"]] != list(camps.keys()):
        fails.append(("campaign-list", f"campaign names {[c['name'] for c in out['campaigns']]} != {list(camps.keys())}"))
        return fails
    for c, (name, (s, group)) in zip(out["campaigns"], camps.items()):
        sh = ac["camps"][s]
        if c["group"]["name"] != group:
            fails.append(("campaign-group", f"campaign {name}: group {c['group']['name']!r} != {group!r}"))
        if len(c["events"]) != len(sh["rows"]):
            fails.append(("event-count", f"campaign {name}: {len(sh['rows'])} rows but {len(c['events'])} events"))
            continue
        for i, (e, w) in enumerate(zip(c["events"], sh["want"])):
            exp = {"offset": w["offset"], "unit": w["unit"], "event_type": w["event_type"], "delivery_hour": w["hour"],
                   "start_mode": w["start_mode"], "relative_to": {"label": w["label"], "key": field_key(w["label"])}}
            got = {k: e.get(k) for k in exp}
            if got != exp:
                bad = [k for k in exp if got[k] != exp[k]]
                fails.append(("event-field-" + bad[0], f"campaign {name} row {i + 2}: {bad[0]} = {got[bad[0]]!r}, written {exp[bad[0]]!r}"))
            if w["is_msg"]:
                m = e.get("message")
                if not (isinstance(m, dict) and list(m.values()) == [w["text"]]):
                    fails.append(("event-message", f"campaign {name} row {i + 2}: message {m!r}, written {w['text']!r}"))
                if e.get("base_language") != (w["lang"] or tbl["default_lang"]) or \
                        (isinstance(m, dict) and w["lang"] is None and list(m.keys()) != [e.get("base_language")]):
                    fails.append(("event-base-language", f"campaign {name} row {i + 2}: base_language {e.get('base_language')!r}, written {w['lang']!r}"))
            else:
                f = e.get("flow")
                if not isinstance(f, dict) or f.get("name") != w["flow"]:
                    fails.append(("event-flow", f"campaign {name} row {i + 2}: flow {f!r}, written {w['flow']!r}"))
    # ---- triggers: one per row of every surviving sheet, in order
    wants = [w for s in trigs for w in ac["trigs"][s]["want"]]
    if len(out["triggers"]) != len(wants):
        fails.append(("trigger-count", f"{len(wants)} trigger rows but {len(out['triggers'])} triggers"))
    else:
        for i, (t, w) in enumerate(zip(out["triggers"], wants)):
            mt = w["match_type"] or w["dflt_mt"]
            exp = {"trigger_type": w["type"], "keywords": w["keywords"], "channel": w["channel"],
                   "keyword": w["keywords"][0] if w["keywords"] else None}
            got = {k: t.get(k, "<absent>") for k in exp}
            got["flow"], exp["flow"] = t["flow"]["name"], w["flow"]
            got["groups"], exp["groups"] = [g["name"] for g in t["groups"]], w["groups"]
            got["exclude_groups"], exp["exclude_groups"] = [g["name"] for g in t["exclude_groups"]], w["exclude_groups"]
            got["match_type"], exp["match_type"] = t.get("match_type"), mt
            if got != exp:
                bad = [k for k in exp if got[k] != exp[k]]
                fails.append(("trigger-field-" + bad[0], f"trigger {i}: {bad[0]} = {got[bad[0]]!r}, written {exp[bad[0]]!r}"))
    # ---- references: one uuid per (kind, name) in the whole document, explicit ones win
    fails += check_refs(ac, out)
    return fails


def occurrences(out):
    occ = []
    for g in out["groups"]:
        occ.append(("group", g["name"], g["uuid"], "groups[]"))
    for f in out["flows"]:
        occ.append(("flow", f["name"], f["uuid"], "flows[]"))
        for n in f["nodes"]:
            for a in n.get("actions", []):
                if a.get("type") == "enter_flow":
                    occ.append(("flow", a["flow"]["name"], a["flow"]["uuid"], "enter_flow"))
                for g in a.get("groups", []) or []:
                    occ.append(("group", g["name"], g["uuid"], a.get("type")))
    for c in out["campaigns"]:
        occ.append(("group", c["group"]["name"], c["group"]["uuid"], "campaign.group"))
        for e in c["events"]:
            if "flow" in e:
                occ.append(("flow", e["flow"]["name"], e["flow"]["uuid"], "event.flow"))
    for t in out["triggers"]:
        occ.append(("flow", t["flow"]["name"], t["flow"]["uuid"], "trigger.flow"))
        for g in t["groups"]:
            occ.append(("group", g["name"], g["uuid"], "trigger.groups"))
        for g in t["exclude_groups"]:
            occ.append(("group", g["name"], g["uuid"], "trigger.exclude_groups"))
    return occ


def check_refs(ac, out):
    fails = []
    occ = occurrences(out)
    by = {}
    for kind, name, uuid, site in occ:
        if not uuid:
            fails.append(("reference-without-uuid", f"{kind} {name!r} at {site} has uuid {uuid!r}"))
            continue
        if (kind, name) in by and by[(kind, name)][0] != uuid:
            fails.append(("one-name-two-uuids", f"{kind} {name!r}: {by[(kind, name)]} vs {uuid} at {site}"))
        by.setdefault((kind, name), (uuid, site))
    inv = {}
    for (kind, name), (uuid, site) in by.items():
        if uuid in inv and inv[uuid] != (kind, name):
            fails.append(("one-uuid-two-names", f"{uuid} is {inv[uuid]} and {(kind, name)}"))
        inv[uuid] = (kind, name)
    for kind, given in (("flow", ac["xflow"]), ("group", ac["xgroup"])):
        for name, u in given.items():
            written = any(("enter" in f and f["enter"] == [name, u]) if kind == "flow" else ("group" in f and f["group"] == [name, u])
                          for s, f in ac["flows"].items() if any(r["t"] == "flow" and r["sheet"] == s for r in live_flow_rows(ac)))
            if written and (kind, name) in by and by[(kind, name)][0] != u:
                fails.append(("explicit-uuid-lost", f"{kind} {name!r} was given {u} but carries {by[(kind, name)][0]}"))
    top = [g["name"] for g in out["groups"]]
    if len(top) != len(set(top)):
        fails.append(("duplicate-top-level-group", repr(top)))
    for (kind, name) in by:
        if kind == "group" and name not in top:
            fails.append(("group-not-listed", f"group {name!r} is referenced but not in groups[]"))
    # invented ids of campaigns and events: pairwise distinct, distinct from every reference uuid
    own = [c["uuid"] for c in out["campaigns"]] + [e["uuid"] for c in out["campaigns"] for e in c["events"]]
    if len(set(own)) != len(own) or any(u in inv for u in own) or not all(isinstance(u, str) and UUID_RE.match(u) for u in own):
        fails.append(("campaign-event-ids", "campaign / event uuids are not pairwise distinct fresh uuid4 strings"))
    return fails


def live_flow_rows(ac):
    live = []
    for r in ac["index"]:
        if r["t"] == "flow":
            live.append(r)
        elif r["t"] == "ignore":
            live = [f for f in live if (f["new"] or f["sheet"]) != r["name"]]
    return live


# ------------------------------------------------------------------------------ run
MALFORMED = ["unit", "start_mode", "event_type", "no_text", "offset", "hour", "label", "camp_missing",
             "type", "match_type", "no_keyword", "no_flow", "empty_group", "unknown_flow", "trig_missing"]


def run(ctx):
    v, rng, m = ctx.v, ctx.rng, ctx.model
    thorough = ctx.tier == "thorough"
    tbl, from_model = read_tables(m)
    ctx.stats["tables_from_model"] = from_model
    ctx.stats["enum_tables"] = {k: tbl[k] for k in ("unit", "start_mode", "event_type", "trigger_type", "match_type")}

    # ---- the regenerated tables against the property text (a table that no longer rejects
    #      anything, or a delivery-hour default other than -1, is searched for below)
    gen = Gen(rng, tbl)
    n_cases = (20000 if thorough else 1500) * ctx.scale
    dist = {"ok": 0, "err": 0, "malformed": {}, "rows_per_camp_sheet": {}, "rows_per_trig_sheet": {},
            "flows_in_index": {}, "unit": {}, "start_mode": {}, "event_type": {}, "trigger_type": {}, "match_type": {},
            "explicit_uuids": 0, "ignore_rows": 0, "duplicate_definitions": 0, "model_unmodelled": 0,
            "campaign_events_checked": 0, "triggers_checked": 0, "err_kinds_impl": {}, "err_cross_tab": {}}
    nontrivial = set()
    cases = []
    for i in range(n_cases):
        mal = None
        if rng.random() < 0.3:
            mal = MALFORMED[i % len(MALFORMED)] if rng.random() < 0.8 else rng.choice(MALFORMED)
        cases.append(gen.case(malformed=mal))
    reqs = [model_request(ac) for ac in cases]
    # one request at a time: the requests are long, a batch would fill the pipes both ways
    outs = [m.ask(r) for r in reqs] if m else [None] * len(cases)
    samples = []
    for ac, line in zip(cases, outs):
        v.coverage["evaluations"] += 1
        res = compile_impl(ac)
        # ---------------- distribution
        dist["ok" if res[0] == "ok" else "err"] += 1
        if res[0] != "ok":
            dist["err_kinds_impl"][res[1]] = dist["err_kinds_impl"].get(res[1], 0) + 1
        k = ac["malformed"] or "none"
        dist["malformed"][k] = dist["malformed"].get(k, 0) + 1
        for sh in ac["camps"].values():
            n = len(sh["rows"])
            dist["rows_per_camp_sheet"][n] = dist["rows_per_camp_sheet"].get(n, 0) + 1
            for w in sh["want"]:
                for key in ("unit", "start_mode", "event_type"):
                    dist[key][w[key]] = dist[key].get(w[key], 0) + 1
        for sh in ac["trigs"].values():
            n = len(sh["rows"])
            dist["rows_per_trig_sheet"][n] = dist["rows_per_trig_sheet"].get(n, 0) + 1
            for w in sh["want"]:
                dist["trigger_type"][w["type"]] = dist["trigger_type"].get(w["type"], 0) + 1
                dist["match_type"][str(w["match_type"])] = dist["match_type"].get(str(w["match_type"]), 0) + 1
        nf = len(ac["flows"])
        dist["flows_in_index"][nf] = dist["flows_in_index"].get(nf, 0) + 1
        dist["explicit_uuids"] += len(ac["xflow"]) + len(ac["xgroup"])
        dist["ignore_rows"] += sum(1 for r in ac["index"] if r["t"] == "ignore")
        names = [(r["t"], r.get("new") or r["sheet"]) for r in ac["index"] if r["t"] in ("camp", "trig")]
        dist["duplicate_definitions"] += len(names) - len(set(names))
        # ---------------- oracle on the implementation
        fails = oracle(ac, res, tbl)
        for key, summary in fails[:2]:
            v.failing_input(key, summary, dict(case=ac))
        if res[0] == "ok":
            for c in res[1]["campaigns"]:
                dist["campaign_events_checked"] += len(c["events"])
            dist["triggers_checked"] += len(res[1]["triggers"])
            if res[1]["campaigns"] or res[1]["triggers"]:
                nontrivial.add(repr(sheets_of(ac)))
        elif ac["malformed"]:
            nontrivial.add(repr(sheets_of(ac)))
        # ---------------- correspondence
        if line is not None:
            mr = model_result(line)
            if mr[0] == "bad":
                ctx.disagree("model refused the request", sheets_of(ac), mr[1], "")
            elif mr[0] == "err" and mr[1] == 12:
                dist["model_unmodelled"] += 1
            elif mr[0] == "err":
                # recorded, not judged: which error of the model meets which kind of stop of the implementation
                # (the tie compares Ok/Err; C19_*_first_offending_row speak about the model's error only)
                xk = f"model Err {mr[1]} / impl {res[1] if res[0] != 'ok' else 'ok'}"
                dist["err_cross_tab"][xk] = dist["err_cross_tab"].get(xk, 0) + 1
                if res[0] == "ok":
                    ctx.disagree("model rejects, implementation accepts", sheets_of(ac), f"Err {mr[1]}", project(res[1]))
            else:
                if res[0] != "ok":
                    ctx.disagree("model accepts, implementation rejects", sheets_of(ac), mr[1], list(res[1:]))
                elif mr[1] != project(res[1]):
                    ctx.disagree("campaigns/triggers arrays differ", sheets_of(ac), mr[1], project(res[1]))
        if len(samples) < 4 and (res[0] == "ok") == (len(samples) % 2 == 0):
            samples.append(sheets_of(ac))
    ctx.stats["index_cases"] = dist

    # ---- function-level correspondence
    fn_stats = function_level(ctx, m, thorough)
    ctx.stats["function_level"] = fn_stats

    v.coverage["distinct_nontrivial"] = len(nontrivial)
    v.coverage["rule"] = (
        "generated content indexes written as CSV folders and compiled by rpft.converters.create_flows: 0..3 campaign "
        "sheets and 0..2 trigger sheets of 0..8 rows (columns shuffled, optional columns present or absent, cells padded "
        "with whitespace, every value of every regenerated enum list in rotation), 0..3 flows that define / enter flows "
        "and add groups with and without explicit uuids, duplicate definitions and ignore_row; ~30% of the cases carry "
        "exactly one invalid value of one of 15 kinds at a random row. Same case through the extracted model (compile); "
        "projection = campaigns/triggers arrays without uuids, Ok vs Err. Oracle on the implementation from the intended "
        "values. non-trivial = distinct folder that either compiled to at least one campaign or trigger, or carries an "
        "invalid value. Plus exhaustive small-scope strings through generate_field_key / int() / List[str] cells.")
    v.coverage["samples"] = samples[:4]
    v.assumptions += [
        "cells of campaign/trigger sheets contain no '{' (Jinja templating in these sheets is not modelled; the model answers Unmodelled)",
        "a List[str] cell uses one separator level (an element that is itself a list becomes Python's repr of a list: Unmodelled)",
        "number cells use ASCII digits (Python's int() also accepts other Unicode decimal digits); labels keep upper case within ASCII",
        "the uuid resolution itself (C06/E4) is not modelled here: that references carry one uuid per (kind, name) is checked on the implementation's output only",
        "uuid4 does not collide",
    ]


def function_level(ctx, m, thorough):
    """generate_field_key, int(), List[str] cells: model vs implementation on exhaustive small scopes."""
    from rpft.rapidpro.models.common import generate_field_key
    from rpft.parsers.common.cellparser import CellParser
    from rpft.parsers.common.rowparser import RowParser
    from rpft.parsers.creation.triggerrowmodel import TriggerRowModel

    v, rng = ctx.v, ctx.rng
    stats = {}
    # ---- keys
    alpha = [" ", "a", "Z", "_", "1", "\t", "é"]
    n = 5 if thorough else 4
    strs = [""] + ["".join(t) for k in range(1, n + 1) for t in itertools.product(alpha, repeat=k)]
    for L in (34, 35, 36, 37, 38):
        strs += ["a" * L, " " + "b" * L + " ", "1" * L, "A " * (L // 2) + "c" * (L % 2), " " * L + "x"]
    for _ in range(500 * ctx.scale):
        strs.append("".join(rng.choice(alpha + ["B", "-", ".", "日"]) for _ in range(rng.choice([6, 10, 30, 36, 37, 40]))))
    stats["field_key_strings"] = len(strs)
    outs = m.ask_many([f"(119 4 {enc_str(s)})" for s in strs]) if m else None
    for i, s in enumerate(strs):
        v.coverage["evaluations"] += 1
        r = run_cli_mode(generate_field_key, s)
        # spec of the derived key, from the property text ("derived key") and the function's contract
        if r[0] == "ok":
            k = r[1]
            if k != s.strip().lower().replace(" ", "_") or len(k) > 36 or not re.search("[A-Za-z]", k):
                v.failing_input("derived-key", f"generate_field_key({s!r}) = {k!r}", dict(fn="key", s=s))
        if outs:
            mo = outs[i]
            mr = ("err",) if mo.startswith("(999999") else ("ok", dec_str(parse_sexp(mo)[1]))
            if (mr[0] == "ok") != (r[0] == "ok") or (mr[0] == "ok" and mr[1] != r[1]):
                ctx.disagree("generate_field_key", repr(s), repr(mr), repr(r[:2]))
    # ---- int()
    alpha = ["0", "1", "9", "_", "+", "-", " ", "a", "."]
    n = 5 if thorough else 4
    strs = [""] + ["".join(t) for k in range(1, n + 1) for t in itertools.product(alpha, repeat=k)]
    strs += ["007", "1_000_000", "-0", "+12", " 42 ", "4 2", "123456789012345678", "\t7\n", "1__2", "0_0"]
    stats["int_strings"] = len(strs)
    outs = m.ask_many([f"(119 5 {enc_str(s)})" for s in strs]) if m else None
    for i, s in enumerate(strs):
        v.coverage["evaluations"] += 1
        try:
            want = int(s)
        except ValueError:
            want = None
        if outs:
            x = parse_sexp(outs[i])
            got = None if x == [] else (-x[0][1] if x[0][0] == 1 else x[0][1])
            if got != want:
                ctx.disagree("int()", repr(s), repr(got), repr(want))
    # ---- List[str] cells through the real RowParser
    alpha = ["a", ";", "|", "\\", " ", "b"]
    n = 6 if thorough else 5
    strs = [""] + ["".join(t) for k in range(1, n + 1) for t in itertools.product(alpha, repeat=k)]
    stats["list_cells"] = len(strs)
    outs = m.ask_many([f"(119 6 {enc_str(s)})" for s in strs]) if m else None
    rp = RowParser(TriggerRowModel, CellParser())
    unmodelled = 0
    for i, s in enumerate(strs):
        v.coverage["evaluations"] += 1
        r = run_cli_mode(lambda: rp.parse_row({"type": "C", "keywords": s}, {}).keywords)
        if outs:
            mo = outs[i]
            if mo.startswith("(999999"):
                unmodelled += 1
                continue
            got = [dec_str(y) for y in parse_sexp(mo)[1]]
            if r[0] != "ok" or r[1] != got:
                ctx.disagree("List[str] cell", repr(s), repr(got), repr(r[:2]))
    stats["list_cells_unmodelled_nested"] = unmodelled
    return stats


def replay(rep):
    r = rep["replay"]
    if r.get("fn") == "key":
        from rpft.rapidpro.models.common import generate_field_key
        s = r["s"]
        x = run_cli_mode(generate_field_key, s)
        if x[0] != "ok":
            return True
        k = x[1]
        return k == s.strip().lower().replace(" ", "_") and len(k) <= 36 and bool(re.search("[A-Za-z]", k))
    ac = r["case"]
    tbl = dict(DEFAULT_TABLES)
    res = compile_impl(ac)
    fails = oracle(ac, res, tbl)
    for key, summary in fails:
        print(f"  {key}: {summary}")
    return not fails
