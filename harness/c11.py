"""C11 — data-sheet concat / filter / sort, registration, non-interference, export.

(a) correspondence: generated chains of data_sheet index rows go through the real
    ContentIndexParser (CSV folders in scratch dirs, rpft.converters) — once per prefix of
    the index, so the registry is observed after every step — and through the extracted
    Gallina model (Index/DataOps.v: scan).  Projection: for every registered sheet its
    ordered (row id, row dict) list; ok/error per step; save_data_sheets output.
    The filter/sort expressions are evaluated by the harness in Python over the universe
    of generated rows and handed to the model as pred/key tables (the model's Section
    variables pred/key).
(b) the property's own oracle, written from the property text, evaluated on the
    implementation's registries (before/after each step) without the model.
(c) the pure operations of the model against Python's OrderedDict.update / sorted on
    larger lists (ties the stable-sort model to CPython's sorted, both directions).
"""
import csv
import json
import os
import shutil
import sys
import tempfile
from collections import OrderedDict

from common import enc_str, parse_sexp, dec_str, run_cli_mode

LEVEL = "proof"

MODELS_SRC = """from rpft.parsers.creation.datarowmodel import DataRowModel


class RowM(DataRowModel):
    x: int = 0
    name: str = ""


class RowN(DataRowModel):
    x: int = 0
    name: str = ""
"""
MODNAME = "c11_scratch_models"
DEFINED = ["RowM", "RowN"]
INDEX_FLAT = ["type", "sheet_name", "new_name", "data_model", "operation.type", "operation.expression", "operation.order", "data_sheet"]
INDEX_PACKED = ["type", "sheet_name", "new_name", "data_model", "operation", "data_sheet"]
TEMPLATE = [["row_id", "type", "from", "message_text"], ["", "send_message", "start", "v{{x}}n{{name}}"]]
TEMPLATE0 = [["row_id", "type", "from", "message_text"], ["", "send_message", "start", "hello"]]
NOISE_FLOWS = ("tpl0", "noiseflow")

FILTER_EXPRS = ["x > 2", "x >= 3", "name == 'a'", "x % 2 == 0", "len(name) > 1", "name in ['a', 'b']",
                "x == 3 or name == 'b'", "not name", "True", "False", "ID != 'r2'", "name.lower() == 'a'",
                # values that are not the object True: must be dropped by `is True`
                "x", "name", "x > 2 and 1", "1", "x - 3"]
SORT_EXPRS = ["x", "-x", "name", "len(name)", "name.lower()", "x % 3", "(x % 2, -x)", "x > 2", "ID", "0",
              "str(x)", "-len(name)", "name[:1]"]
BAD_EXPRS = ["y > 1", "x >", "1/0", "x + name", "", "nme", "x.lower()"]
ORDERS = ["", "", "ascending", "descending", "descending", "Descending", "DESCENDING", "desc", "reverse"]
NAMES = ["a", "b", "A", "bb", "", "ab", "B", "a", "b", "c"]
XS = [0, 1, 2, 3, 3, 3, 5, 10, -1, 2, 12]
IDS = ["r1", "r2", "r3", "r4", "r5", "r6"]
FRESH = ["s1", "s2", "s3", "s4"]
DERIVED = ["d1", "d2", "d3", "d4", "d5"]


# ------------------------------------------------------------------ abstract cases
def row_dict(r, explicit, annotated):
    """the dict the parsed row must have: x is an int under an explicit model or an
    annotated header, else the cell text"""
    x = r[1] if (explicit or annotated) else str(r[1])
    return {"ID": r[0], "x": x, "name": r[2]}


def gen_sheet(rng):
    n = rng.choice([0, 1, 2, 3, 4, 4, 5, 6, 8])
    ids = IDS[:rng.choice([2, 3, 4, 6])]
    rows = []
    for _ in range(n):
        # mostly distinct ids inside one sheet, sometimes a repeat
        if rng.random() < 0.8:
            free = [i for i in IDS if i not in [r[0] for r in rows]]
            i = rng.choice(free) if free else rng.choice(ids)
        else:
            i = rng.choice(ids)
        rows.append([i, rng.choice(XS), rng.choice(NAMES)])
    return {"annotated": rng.random() < 0.5, "rows": rows}


def gen_case(rng, malformed):
    sheets = {n: gen_sheet(rng) for n in FRESH[:rng.choice([1, 2, 2, 3, 4])]}
    fresh = list(sheets)
    n_ops = rng.choice([1, 2, 3, 3, 4, 4, 5, 6])
    bad_at = rng.randrange(n_ops) if malformed else -1
    index = []
    # the generator tracks which names are registered and under which model, so that the
    # valid stream stays valid (the tracking is not used for expectations)
    reg = OrderedDict()
    for k in range(n_ops):
        pool = list(reg) + fresh
        kind = rng.choice(["plain", "concat", "concat", "filter", "filter", "sort", "sort", "sort"])
        row = {"names": [], "new": "", "dm": "", "op": "", "expr": "", "order": ""}
        if kind in ("plain", "concat"):
            dm = rng.choice(["RowM", "RowM", "RowM", "RowN"])
            compatible = [n for n in pool if reg.get(n, dm) == dm]
            cnt = 1 if (kind == "plain" and rng.random() < 0.6) else rng.choice([1, 2, 2, 3])
            if kind == "plain" and cnt == 1 and rng.random() < 0.3:
                dm = ""   # inferred model, single source
                compatible = [n for n in pool if n not in reg] or compatible
            row["names"] = [rng.choice(compatible) for _ in range(cnt)] if compatible else [rng.choice(fresh)]
            row["dm"] = dm
            row["op"] = "" if kind == "plain" else "concat"
            if kind == "concat" or rng.random() < 0.5:
                row["new"] = rng.choice(DERIVED + list(reg)[:1])
            model = dm if dm else ("inf", k)
            if len(row["names"]) == 1 and row["names"][0] in reg:
                model = reg[row["names"][0]]
        else:
            src = rng.choice(pool)
            row["names"] = [src] + ([rng.choice(pool)] if rng.random() < 0.1 else [])
            row["dm"] = rng.choice(["RowM", "RowM", "RowN", ""]) if src not in reg else rng.choice(["", "RowM", "Bogus"])
            row["op"] = kind
            row["new"] = rng.choice(DERIVED + [src] + list(reg)[:2])
            if kind == "filter":
                row["expr"] = rng.choice(FILTER_EXPRS)
            else:
                row["expr"] = rng.choice(SORT_EXPRS)
                row["order"] = rng.choice(ORDERS)
            model = reg[src] if src in reg else (row["dm"] or ("inf", k))
        if k == bad_at:
            what = rng.choice(["missing", "nonew", "unknownop", "bogusdm", "badexpr", "mismatch", "nonames"])
            if what == "missing":
                row["names"] = row["names"][:rng.randrange(len(row["names"]) + 1)] + ["nosuch"]
                if row["op"] in ("filter", "sort"):
                    row["names"] = ["nosuch"]
            elif what == "nonew":
                row["new"] = ""
                if not row["op"]:
                    row["op"] = "concat"
            elif what == "unknownop":
                row["op"] = rng.choice(["sorted", "merge", "filterx", "union", "x"])
                row["new"] = row["new"] or "d1"
            elif what == "bogusdm":
                row["dm"] = rng.choice(["Bogus", "rowm", "RowM2"])
            elif what == "badexpr":
                if row["op"] not in ("filter", "sort"):
                    row["op"] = rng.choice(["filter", "sort"])
                    row["names"] = row["names"][:1]
                    row["new"] = row["new"] or "d2"
                row["expr"] = rng.choice(BAD_EXPRS)
            elif what == "mismatch":
                row["op"] = "concat"
                row["new"] = row["new"] or "d3"
                row["names"] = [rng.choice(pool), rng.choice(pool)]
                row["dm"] = rng.choice(["", "RowN", "RowM"])
            elif what == "nonames":
                row["names"] = []
        index.append(row)
        tgt = row["new"] or (row["names"][0] if row["names"] else "")
        reg[tgt] = model
    return {"sheets": sheets, "index": index, "packed": rng.random() < 0.3}



# ------------------------------------------------------------------ histories (strengthening after wave 3)
def reads_of(row):
    """the sheet names an index row reads: all for a concat, the first one for filter / sort"""
    return list(row["names"]) if row["op"] in ("", "concat") else list(row["names"][:1])


def target_of(row):
    return row["new"] or (row["names"][0] if row["names"] else "")


def descriptor(row):
    """what a result memo could be keyed by: everything of the row but the name it registers under"""
    return (tuple(reads_of(row)), row["op"] or "concat", row["expr"], row["order"].lower())


def gen_history(rng, short=False):
    """A chain built around REPETITION: a few operation descriptors (op, expression, order) are
    applied again and again to a few focus names while, in between, other rows change what is
    registered under these names - for the first time (plain / implicit concat without new_name,
    concat / filter / sort with new_name = the source or another focus name) or again (overwrite).
    Optional noise rows, nested index or two workbooks.  The generator tracks models only to keep
    most chains valid; expectations never use the tracking."""
    names = FRESH[:rng.choice([2, 2, 3, 3, 4])]
    sheets = {n: gen_sheet(rng) for n in names}
    for sh in sheets.values():          # sources worth filtering: mostly 2+ rows
        if len(sh["rows"]) < 2 and rng.random() < 0.7:
            sh["rows"] = gen_sheet(rng)["rows"] or [["r1", 3, "a"], ["r2", 1, "b"]]
    dm_main = rng.choice(["RowM", "RowM", "RowM", "RowN"])
    other = "RowN" if dm_main == "RowM" else "RowM"
    descs = []
    for _ in range(rng.choice([1, 2, 2, 3])):
        if rng.random() < 0.5:
            descs.append(("filter", rng.choice(FILTER_EXPRS), ""))
        else:
            descs.append(("sort", rng.choice(SORT_EXPRS), rng.choice(ORDERS)))
    focus = rng.sample(names, rng.choice([1, 1, 2]))
    n_ops = rng.choice([2, 3, 3, 4]) if short else rng.choice([3, 4, 5, 6, 6, 7, 8])
    reg = OrderedDict()     # name -> tracked model
    index = []
    registered_start = rng.random() < 0.3   # the focus names are registered before anything is derived from them
    for k in range(n_ops):
        row = {"names": [], "new": "", "dm": dm_main, "op": "", "expr": "", "order": ""}
        derived_names = [n for n in reg if n not in names]
        u = rng.random()
        if registered_start and k < len(focus):
            row.update(names=[focus[k]])
            model = dm_main
        elif u < 0.5 or k == 0:
            # apply one of the recurring descriptors, mostly to a focus name
            op, expr, order = rng.choice(descs)
            src = rng.choice(focus * 3 + derived_names[:2] + names[:1])
            row.update(names=[src], op=op, expr=expr, order=order)
            if src in reg:
                row["dm"] = rng.choice([dm_main, dm_main, "", other, "Bogus"])   # ignored for a registered source
            elif rng.random() < 0.12:
                row["dm"] = rng.choice(["", other])
            v = rng.random()
            row["new"] = (rng.choice(DERIVED) if v < 0.7 else src if v < 0.8 else rng.choice(focus) if v < 0.9
                          else rng.choice(derived_names or DERIVED))
            model = reg[src] if src in reg else (row["dm"] or ("inf", k))
        else:
            # change what is registered under a focus name (or register it for the first time)
            tgt = rng.choice(focus)
            how = rng.choice(["plain1", "implicit", "concat-self", "concat-self", "concat-other", "derive-other", "derive-self"])
            ok = [n for n in list(reg) + names if reg.get(n, dm_main) == dm_main]
            if how == "plain1":
                row.update(names=[tgt])                      # registers the sheet under its own name
                if tgt in reg:
                    row["dm"] = rng.choice([dm_main, ""])
            elif how == "implicit":
                row.update(names=[tgt] + [rng.choice(ok) for _ in range(rng.choice([1, 2]))])
            elif how == "concat-self":
                srcs = [tgt] + [rng.choice(ok) for _ in range(rng.choice([1, 1, 2]))]
                if rng.random() < 0.4:
                    srcs.reverse()
                row.update(names=srcs, new=tgt, op="concat")
            elif how == "concat-other":
                row.update(names=[rng.choice(ok) for _ in range(rng.choice([1, 2, 3]))], new=tgt, op="concat")
            else:
                op, expr, order = rng.choice(descs) if rng.random() < 0.5 else rng.choice(
                    [("filter", rng.choice(FILTER_EXPRS), ""), ("sort", rng.choice(SORT_EXPRS), rng.choice(ORDERS))])
                src = tgt if how == "derive-self" else rng.choice([n for n in list(reg) + names if n != tgt] or [tgt])
                row.update(names=[src], new=tgt, op=op, expr=expr, order=order)
            if row["op"] in ("", "concat"):
                if any(reg.get(n, dm_main) != dm_main for n in row["names"]):
                    row["names"] = [n for n in row["names"] if reg.get(n, dm_main) == dm_main] or [names[-1]]
                model = dm_main
                if len(row["names"]) == 1 and row["names"][0] in reg:
                    model = reg[row["names"][0]]
            else:
                model = reg[row["names"][0]] if row["names"][0] in reg else (row["dm"] or ("inf", k))
        index.append(row)
        reg[target_of(row)] = model
    case = {"sheets": sheets, "index": index, "packed": rng.random() < 0.25, "hist": True}
    # rows that are not applied data_sheet rows
    noise = []
    if rng.random() < 0.4:
        known = [target_of(r) for r in index] + names
        for _ in range(rng.choice([1, 1, 2, 3])):
            pos = rng.randrange(len(index) + 1)
            kind = rng.choice(["ignore_row", "ignore_row", "draft", "draft", "template_definition", "create_flow"])
            if kind == "ignore_row":
                arg = rng.choice(known + ["tpl", "tpl0", "noiseflow"])
            elif kind == "draft":
                arg = dict(rng.choice(index))
                arg["new"] = rng.choice(focus + [arg["new"] or "d1"])
                arg["names"] = list(arg["names"])
            elif kind == "create_flow":
                arg = rng.choice(["", "noiseflow"])
            else:
                arg = ""
            noise.append([pos, kind, arg])
        case["noise"] = noise
    u = rng.random()
    if u < 0.2 and len(index) >= 2:
        a = rng.randrange(0, len(index))
        b = rng.randrange(a + 1, len(index) + 1)
        case["layout"] = {"kind": "nested", "cut": [a, b]}
    elif u < 0.4 and len(index) >= 2:
        case["layout"] = {"kind": "books", "cut": rng.randrange(1, len(index)),
                          "where": {n: rng.choice([1, 2, 2, "both"]) for n in names}}
    return case


def history_slice(case, k):
    """indices of the rows step k depends on (backward slice through targets and reads), ending with k"""
    idx = case["index"]
    needed = set(reads_of(idx[k]))
    kept = [k]
    for j in range(k - 1, -1, -1):
        t = target_of(idx[j])
        if t in needed:
            kept.append(j)
            needed.discard(t)
            needed |= set(reads_of(idx[j]))
    return sorted(kept)


def repeat_classes(case, states):
    """for every step that repeats the descriptor of an earlier step: what happened to the names it
    reads in between, seen on the implementation's registries (before = registry the step saw)"""
    out = []
    idx = case["index"]
    before = [OrderedDict()] + [s[1] for s in states if s[0] == "ok"]
    for k in range(min(len(idx), len(before))):
        for j in range(k):
            if descriptor(idx[j]) != descriptor(idx[k]):
                continue
            cls = "unchanged"
            for n in reads_of(idx[k]):
                if n not in before[j] and n in before[k]:
                    cls = "first-registration"
                    break
                if n in before[j] and before[j][n] != before[k].get(n):
                    cls = "re-registered-different"
            out.append(cls)
            break
    return out


def impl_read_sequence(scr, case, sheet):
    """ONE parser, after the whole index: registry, export, flows from `sheet`, export again,
    registry again (row by row through get_data_sheet_row)"""
    from rpft.converters import get_content_index_parser

    d, inputs = scr.render(case, len(case["index"]), flow_from=sheet)

    def snap(p):
        return OrderedDict((name, [(i, r.dict()) for i, r in p.get_data_sheet_rows(name).items()]) for name in p.data_sheets)

    def go():
        p = get_content_index_parser(inputs, "csv", MODNAME, [])
        o1 = snap(p)
        e1 = json.loads(json.dumps(p.data_sheets_to_dict()))
        out = p.parse_all().render()
        fl = [(f["name"], f["nodes"][0]["actions"][0]["text"]) for f in out["flows"] if f["name"] not in NOISE_FLOWS]
        e2 = json.loads(json.dumps(p.data_sheets_to_dict()))
        o2 = OrderedDict((name, [(i, p.get_data_sheet_row(name, i).dict()) for i in list(p.get_data_sheet_rows(name))])
                         for name in p.data_sheets)
        return o1, e1, fl, e2, o2
    try:
        return run_cli_mode(go)
    finally:
        shutil.rmtree(d, ignore_errors=True)


def history_oracles(scr, case, states):
    """(i) minimal history: the sheet a step registers in the long chain equals the sheet the same
    row registers on a fresh parser that ran only the rows this step depends on;
    (ii) reads do not disturb: one parser, registry / export / flows / export / registry."""
    problems = []
    extra = {"slice_runs": 0, "read_sequences": 0}
    idx = case["index"]
    for k in range(len(idx)):
        if k >= len(states) or states[k][0] != "ok":
            break
        if not idx[k]["names"]:
            continue
        kept = history_slice(case, k)
        plain = not case.get("noise") and not case.get("layout")
        if len(kept) == k + 1 and plain:
            continue
        sub = {"sheets": case["sheets"], "index": [idx[j] for j in kept], "packed": False}
        r = impl_registry(scr, sub, len(kept))
        extra["slice_runs"] += 1
        tgt = target_of(idx[k])
        got = states[k][1].get(tgt)
        def show(rows):
            return "nothing" if rows is None else f"ids {ids(rows)}" + ("" if rows == got or got is None or ids(rows) != ids(got) else " with other row contents")
        if r[0] != "ok":
            problems.append(("history-dependent", f"step {k}: registers {show(got)} under {tgt!r} in the chain, but the same row fails "
                             f"on a fresh parser that ran only the rows it depends on {kept}: {r[1:]}"))
        elif r[1].get(tgt) != got:
            problems.append(("history-dependent", f"step {k}: the chain registers {show(got)} under {tgt!r}; a fresh parser that ran only "
                             f"the rows this step depends on {kept} (plain single index) registers {show(r[1].get(tgt))}"))
    if states and len(states) == len(idx) and all(s[0] == "ok" for s in states):
        final = states[-1][1]
        tgt = target_of(idx[-1])
        if tgt in final and tgt != "tpl":
            rs = impl_read_sequence(scr, case, tgt)
            extra["read_sequences"] += 1
            if rs[0] != "ok":
                problems.append(("read-sequence-error", f"registry/export/parse_all/export on one parser failed: {rs[1:]}"))
            else:
                o1, e1, fl, e2, o2 = rs[1]
                want_rows = {name: [dd for _, dd in rows] for name, rows in final.items()}
                if o1 != final or o2 != final:
                    problems.append(("reads-disturb-registry", "registry of one parser before / after export and parse_all differs from "
                                     f"the registry after the index: {[n for n in final if o1.get(n) != final[n] or o2.get(n) != final[n]]}"))
                for what, e in (("first", e1), ("second", e2)):
                    got = {name: shd.get("rows") for name, shd in e.get("sheets", {}).items()}
                    if got != want_rows:
                        problems.append(("export-rows", f"{what} data_sheets_to_dict of one parser lists {got}, registered {want_rows}"))
                want = [(f"tpl - {i}", f"v{dd['x']}n{dd['name']}") for i, dd in final[tgt]]
                if fl != want:
                    problems.append(("flows-from-derived", f"flows instantiated from {tgt!r} on the same parser: {fl} expected {want}"))
    return problems, extra



def gen_session(rng):
    """2..4 workbooks for ONE process: a short history and variants of it that keep the sheet names
    and most operations - other data under the same names, the same workbook again, another index
    over the same data, a workbook whose index fails half way"""
    import copy

    cases = [gen_history(rng, short=True)]
    for _ in range(rng.choice([1, 2, 2, 3])):
        c = copy.deepcopy(rng.choice(cases))
        kind = rng.choice(["newdata", "newdata", "newdata", "same", "newindex", "broken"])
        if kind == "newdata":
            for n in c["sheets"]:
                if rng.random() < 0.8:
                    c["sheets"][n] = gen_sheet(rng)
        elif kind == "newindex":
            h = gen_history(rng, short=True)
            h["sheets"].update({n: sh for n, sh in c["sheets"].items() if n in h["sheets"]})
            c = h
        elif kind == "broken":
            j = rng.randrange(len(c["index"]))
            row = c["index"][j]
            if row["op"] in ("filter", "sort") and rng.random() < 0.5:
                row["expr"] = rng.choice(BAD_EXPRS)
            else:
                row["names"] = row["names"][:rng.randrange(len(row["names"]))] + ["nosuch"]
        cases.append(c)
    return cases


def session_problems(scr, cases):
    """problems of every workbook of a session, run one after the other in THIS process"""
    return [[list(p) for p in check_case(scr, c)[2]] for c in cases]


def fresh_process_problems(cases):
    """session_problems in a fresh interpreter (None if that could not be done)"""
    import subprocess

    fd, path = tempfile.mkstemp(prefix="c11_session_", suffix=".json")
    try:
        with os.fdopen(fd, "w") as f:
            json.dump(cases, f)
        r = subprocess.run([sys.executable, os.path.abspath(__file__), "--session", path], stdout=subprocess.PIPE,
                           stderr=subprocess.DEVNULL, timeout=300, env=dict(os.environ))
        return json.loads(r.stdout.decode().strip().splitlines()[-1])
    except Exception:
        return None
    finally:
        os.unlink(path)


# ------------------------------------------------------------------ implementation side
class Scratch:
    """scratch area holding the models module and one folder per rendered case"""

    def __init__(self):
        self.base = tempfile.mkdtemp(prefix="c11_")
        with open(os.path.join(self.base, MODNAME + ".py"), "w") as f:
            f.write(MODELS_SRC)
        if self.base not in sys.path:
            sys.path.insert(0, self.base)
        sys.modules.pop(MODNAME, None)
        self.n = 0

    def close(self):
        if self.base in sys.path:
            sys.path.remove(self.base)
        sys.modules.pop(MODNAME, None)
        shutil.rmtree(self.base, ignore_errors=True)

    def render(self, case, upto, flow_from=None):
        """Writes the workbook(s) of the first `upto` data_sheet rows of `case`; returns
        (root dir to remove, list of input folders).  Optional parts of a case:
          noise  = [[pos, kind, arg]]: an index row that is not an applied data_sheet row, placed
                   before data row `pos` (ignore_row / draft data_sheet row / template_definition /
                   create_flow of a constant template);
          layout = {"kind": "nested", "cut": [a, b]}: data rows a..b-1 live in a child index
                   reached through a content_index row of the parent;
                   {"kind": "books", "cut": a, "where": {sheet: 1|2|"both"}}: two workbooks, each
                   with its own content_index (rows < a / rows >= a); a sheet placed in "both"
                   has a decoy copy in the first workbook (the last workbook's copy is the active one)."""
        self.n += 1
        root = os.path.join(self.base, f"case{self.n}")
        os.mkdir(root)
        packed = bool(case.get("packed"))
        noise = case.get("noise") or []
        layout = case.get("layout") or {}
        n_all = len(case["index"])
        headers = list(INDEX_PACKED if packed else INDEX_FLAT) + (["status"] if noise else [])

        def cells(r, status=""):
            d = {"type": "data_sheet", "sheet_name": ";".join(r["names"]), "new_name": r["new"], "data_model": r["dm"]}
            if packed:
                parts = [r["op"]] if r["op"] else []
                if r["op"] and r["expr"]:
                    parts.append("expression;" + r["expr"])
                if r["op"] and r["order"]:
                    parts.append("order;" + r["order"])
                d["operation"] = "|".join(parts)
            else:
                d.update({"operation.type": r["op"], "operation.expression": r["expr"], "operation.order": r["order"]})
            if status:
                d["status"] = status
            return d

        # the linear sequence of index rows: (position, cells)
        entries = []
        for k in range(upto + 1):
            for pos, kind, arg in noise:
                if pos != k or (k == upto and upto != n_all):
                    continue
                if kind == "ignore_row":
                    entries.append((k, {"type": "ignore_row", "sheet_name": arg}))
                elif kind == "draft":
                    entries.append((k, cells(arg, "draft")))
                elif kind == "template_definition":
                    entries.append((k, {"type": "template_definition", "sheet_name": "tpl0"}))
                elif kind == "create_flow":
                    entries.append((k, {"type": "create_flow", "sheet_name": "tpl0", "new_name": arg or ""}))
            if k < upto:
                entries.append((k, cells(case["index"][k])))
        if flow_from:
            entries.append((n_all, {"type": "create_flow", "sheet_name": "tpl", "data_sheet": flow_from}))

        def write_index(folder, name, ents):
            with open(os.path.join(folder, name + ".csv"), "w", newline="") as f:
                w = csv.writer(f)
                w.writerow(headers)
                for e in ents:
                    w.writerow([e.get(h, "") for h in headers])

        def write_sheet(folder, name, sh, rows=None):
            with open(os.path.join(folder, name + ".csv"), "w", newline="") as f:
                w = csv.writer(f)
                w.writerow(["ID", "x:int" if sh["annotated"] else "x", "name"])
                for r in (sh["rows"] if rows is None else rows):
                    w.writerow(r)

        if layout.get("kind") == "books":
            wb1, wb2 = os.path.join(root, "wb1"), os.path.join(root, "wb2")
            os.mkdir(wb1)
            os.mkdir(wb2)
            inputs = [wb1, wb2]
            a = layout["cut"]
            first = [e for pos, e in entries if pos < a]
            second = [e for pos, e in entries if pos >= a]
            write_index(wb1, "content_index", first)
            if second:
                write_index(wb2, "content_index", second)
            for name, sh in case["sheets"].items():
                where = layout.get("where", {}).get(name, 2)
                if where == "both":
                    # decoy: other rows under the same name in the earlier workbook
                    write_sheet(wb1, name, sh, [[r[0], r[1] + 7, r[2] + "z"] for r in reversed(sh["rows"])] + [["r9", 9, "decoy"]])
                    write_sheet(wb2, name, sh)
                else:
                    write_sheet(wb1 if where == 1 else wb2, name, sh)
            last = wb2
        else:
            inputs = [root]
            last = root
            if layout.get("kind") == "nested":
                a, b = layout["cut"]
                inner = [e for pos, e in entries if a <= pos < b]
                outer = [e for pos, e in entries if pos < a]
                if inner:
                    outer.append({"type": "content_index", "sheet_name": "sub_index"})
                    write_index(root, "sub_index", inner)
                outer += [e for pos, e in entries if pos >= b]
                write_index(root, "content_index", outer)
            else:
                write_index(root, "content_index", [e for _, e in entries])
            for name, sh in case["sheets"].items():
                write_sheet(root, name, sh)
        if flow_from:
            with open(os.path.join(last, "tpl.csv"), "w", newline="") as f:
                csv.writer(f).writerows(TEMPLATE)
        if any(kind in ("template_definition", "create_flow") for _, kind, _ in noise):
            with open(os.path.join(last, "tpl0.csv"), "w", newline="") as f:
                csv.writer(f).writerows(TEMPLATE0)
        return root, inputs


def impl_registry(scr, case, upto):
    """('ok', {name: [(id, dict)]}) or ('err', kind, msg) for the first `upto` index rows"""
    from rpft.converters import get_content_index_parser

    d, inputs = scr.render(case, upto)

    def go():
        p = get_content_index_parser(inputs, "csv", MODNAME, [])
        # observed through the public accessor and the registry's names
        return OrderedDict((name, [(i, r.dict()) for i, r in p.get_data_sheet_rows(name).items()])
                           for name in p.data_sheets)
    try:
        return run_cli_mode(go)
    finally:
        shutil.rmtree(d, ignore_errors=True)


def impl_saved(scr, case):
    from rpft.converters import save_data_sheets

    d, inputs = scr.render(case, len(case["index"]))
    out = os.path.join(d, "out.json")

    def go():
        ret = save_data_sheets(inputs, out, "csv", data_models=MODNAME)
        with open(out) as f:
            disk = json.load(f)
        return ret, disk
    try:
        return run_cli_mode(go)
    finally:
        shutil.rmtree(d, ignore_errors=True)


def impl_flows(scr, case, sheet):
    """(flow name, message text) of the flows create_flows instantiates from `sheet`, in output order"""
    from rpft.converters import create_flows

    d, inputs = scr.render(case, len(case["index"]), flow_from=sheet)

    def go():
        out = create_flows(inputs, None, "csv", data_models=MODNAME)
        return [(f["name"], f["nodes"][0]["actions"][0]["text"]) for f in out["flows"]
                if not (case.get("noise") and f["name"] in NOISE_FLOWS)]
    try:
        return run_cli_mode(go)
    finally:
        shutil.rmtree(d, ignore_errors=True)


# ------------------------------------------------------------------ model side
def tokens_of(case):
    """token -> row dict, and per sheet the token lists under explicit / inferred parsing"""
    tok = {}
    per = {}
    for si, (name, sh) in enumerate(case["sheets"].items()):
        ex, inf = [], []
        for ri, r in enumerate(sh["rows"]):
            t = (si * 16 + ri) * 2 + 1
            tok[t] = row_dict(r, True, sh["annotated"])
            tok[t + 1] = row_dict(r, False, sh["annotated"])
            ex.append(t)
            inf.append(t + 1)
        per[name] = (ex, inf)
    return tok, per


def eval_expr(expr, d):
    """('ok', value) or ('raise',): what eval(expression, {}, dict(row)) does"""
    try:
        return ("ok", eval(expr, {}, dict(d)))
    except BaseException:
        return ("raise",)


def enc_key(v):
    """sort-key value -> list of integers under the lexicographic order (None if outside the family)"""
    if isinstance(v, bool):
        return [int(v)]
    if isinstance(v, int):
        return [v]
    if isinstance(v, str):
        return [ord(c) for c in v]
    if isinstance(v, tuple) and all(isinstance(c, int) for c in v):
        return [int(c) for c in v]
    return None


def enc_z(n):
    return f"({0 if n >= 0 else 1} {abs(n)})"


def model_request(case, fn=1):
    tok, per = tokens_of(case)
    sheets = "(" + " ".join(
        f"({enc_str(n)} ((({' '.join(map(str, ex))})) (({' '.join(map(str, inf))}))))" for n, (ex, inf) in per.items()) + ")"
    defined = "(" + " ".join(enc_str(m) for m in DEFINED) + ")"
    ridtab = "(" + " ".join(f"({t} {enc_str(d['ID'])})" for t, d in tok.items()) + ")"
    rows = []
    supported = True
    for r in case["index"]:
        ptab, ktab = [], []
        if r["op"] == "filter":
            for t, d in tok.items():
                e = eval_expr(r["expr"], d)
                ptab.append(f"({t} {2 if e[0] == 'raise' else (1 if e[1] is True else 0)})")
        if r["op"] == "sort":
            for t, d in tok.items():
                e = eval_expr(r["expr"], d)
                if e[0] == "raise":
                    ktab.append(f"({t} ())")
                else:
                    k = enc_key(e[1])
                    if k is None:
                        supported = False
                        k = []
                    ktab.append(f"({t} (({' '.join(enc_z(z) for z in k)})))")
        rows.append("(" + " ".join([
            "(" + " ".join(enc_str(n) for n in r["names"]) + ")", enc_str(r["new"]), enc_str(r["dm"]), enc_str(r["op"]),
            "(" + " ".join(ptab) + ")", "(" + " ".join(ktab) + ")", enc_str(r["order"])]) + ")")
    return f"(111 {fn} {sheets} {defined} {ridtab} ({' '.join(rows)}))", tok, supported


def dec_model_scan(out, tok):
    """[('ok', {name: [(id, dict)]}) | ('err', code)] per step"""
    res = []
    for step in parse_sexp(out):
        if step[0] == 1:
            res.append(("err", step[1]))
        else:
            reg = OrderedDict()
            for name, _mid, rows in step[1][0]:
                reg[dec_str(name)] = [(dec_str(i), tok[t]) for i, t in rows]
            res.append(("ok", reg))
    return res


# ------------------------------------------------------------------ oracle from the property text
def dedupe(rows):
    """rows of a fresh sheet as the sheet holds them: first position, last content"""
    out = OrderedDict()
    for i, r in rows:
        out[i] = r
    return list(out.items())


def fresh_rows(case, name, dm):
    sh = case["sheets"].get(name)
    if sh is None:
        return None
    return dedupe([(r[0], row_dict(r, bool(dm), sh["annotated"])) for r in sh["rows"]])


def oracle_step(case, k, prev, cur):
    """Problems (key, text) with step k given the implementation's registries before/after it.
    prev / cur are {name: [(id, dict)]}."""
    row = case["index"][k]
    bad = []
    tgt = row["new"] or row["names"][0]
    # registration under the new name
    if tgt not in cur:
        return [("not-registered", f"step {k}: result is not registered under {tgt!r}")]
    # sources and every other sheet untouched
    for name, rows in prev.items():
        if name == tgt:
            continue
        if name not in cur:
            bad.append(("source-unregistered", f"step {k}: sheet {name!r} was registered before and is gone"))
        elif cur[name] != rows:
            bad.append(("source-changed", f"step {k}: rows of {name!r} changed from {ids(rows)} to {ids(cur[name])}"))
    for name in cur:
        if name != tgt and name not in prev:
            bad.append(("extra-registration", f"step {k}: unexpected sheet {name!r} registered"))
    # every row id once, and the key is the row's ID
    for name, rows in cur.items():
        il = [i for i, _ in rows]
        if len(set(il)) != len(il) or any(i != d.get("ID") for i, d in rows) or len({d.get("ID") for _, d in rows}) != len(rows):
            bad.append(("duplicate-id", f"step {k}: sheet {name!r} has ids {il} / {[d.get('ID') for _, d in rows]}"))
    res = cur[tgt]

    def source(name):
        return prev[name] if name in prev else fresh_rows(case, name, row["dm"])

    op = row["op"]
    if op in ("", "concat"):
        srcs = [source(n) for n in row["names"]]
        if any(s is None for s in srcs):
            return bad
        flat = [it for s in srcs for it in s]
        first = []
        for i, _ in flat:
            if i not in first:
                first.append(i)
        last = {}
        for i, r in flat:
            last[i] = r
        if [i for i, _ in res] != first:
            bad.append(("concat-order", f"step {k}: concat ids {ids(res)}, expected first occurrences {first}"))
        elif any(r != last[i] for i, r in res):
            bad.append(("concat-content", f"step {k}: a duplicate id does not carry the later row's content"))
    elif op == "filter":
        src = source(row["names"][0])
        if src is None:
            return bad
        ev = [eval_expr(row["expr"], r) for _, r in src]
        if any(e[0] == "raise" for e in ev):
            return bad
        want = [it for it, e in zip(src, ev) if e[1] is True]
        if res != want:
            bad.append(("filter", f"step {k}: filter {row['expr']!r} gave {ids(res)}, expected {ids(want)} from {ids(src)}"))
    elif op == "sort":
        src = source(row["names"][0])
        if src is None:
            return bad
        ev = [eval_expr(row["expr"], r) for _, r in src]
        if any(e[0] == "raise" for e in ev):
            return bad
        keyof = {i: e[1] for (i, _), e in zip(src, ev)}
        pos = {i: n for n, (i, _) in enumerate(src)}
        # the property says "reversed for `descending`": the exact word decides; for a word that
        # matches only case-insensitively ("Descending") either direction is accepted (the code
        # lower-cases it; the model follows the code through the regenerated table)
        if row["order"] == "descending":
            dirs = [True]
        elif row["order"].lower() == "descending":
            dirs = [True, False]
        else:
            dirs = [False]
        if sorted(map(repr, res)) != sorted(map(repr, src)):
            bad.append(("sort-permutation", f"step {k}: sort result {ids(res)} is not a reordering of {ids(src)}"))
        else:
            try:
                found = []
                for desc in dirs:
                    f = None
                    for (a, _), (b, _) in zip(res, res[1:]):
                        ka, kb = keyof[a], keyof[b]
                        if (ka < kb) if desc else (kb < ka):
                            f = ("sort-order", f"step {k}: sort {row['expr']!r} order={row['order']!r}: {a} (key {ka!r}) before {b} (key {kb!r})")
                            break
                        if not (ka < kb) and not (kb < ka) and pos[a] > pos[b]:
                            f = ("sort-stability", f"step {k}: sort {row['expr']!r} order={row['order']!r}: equal keys {a},{b} not in source order {ids(src)} -> {ids(res)}")
                            break
                    found.append(f)
                if all(found):
                    bad.append(found[0])
            except TypeError:
                pass
    return bad


def ids(rows):
    return [i for i, _ in rows]


def oracle_saved(final, saved):
    """save_data_sheets lists exactly the rows of every registered sheet (returned dict and file)"""
    bad = []
    for what, out in (("returned", saved[0]), ("file", saved[1])):
        sh = out.get("sheets", {})
        if set(sh) != set(final):
            bad.append(("export-sheets", f"save_data_sheets ({what}) sheets {sorted(sh)} vs registered {sorted(final)}"))
            continue
        for name, rows in final.items():
            if sh[name].get("rows") != [d for _, d in rows]:
                bad.append(("export-rows", f"save_data_sheets ({what}) rows of {name!r}: {sh[name].get('rows')} vs {[d for _, d in rows]}"))
    return bad


def check_case(scr, case):
    """Runs the implementation on every prefix. Returns (states, problems): states[k] is the
    result after k+1 rows (stops after the first error)."""
    states = []
    problems = []
    prev = OrderedDict()
    for k in range(len(case["index"])):
        r = impl_registry(scr, case, k + 1)
        states.append(r)
        if r[0] != "ok":
            break
        cur = r[1]
        if case["index"][k]["names"]:
            problems += oracle_step(case, k, prev, cur)
        prev = cur
    saved = None
    if states and all(s[0] == "ok" for s in states) and len(states) == len(case["index"]):
        saved = impl_saved(scr, case)
        if saved[0] != "ok":
            problems.append(("export-error", f"save_data_sheets failed although the index is processed: {saved[1:]}"))
        else:
            problems += oracle_saved(states[-1][1], saved[1])
        # flows instantiated from the sheet the last row registered: one per row, in the sheet's order
        last = case["index"][-1]
        tgt = last["new"] or last["names"][0]
        rows = states[-1][1].get(tgt)
        if rows is not None and tgt != "tpl":
            fl = impl_flows(scr, case, tgt)
            want = [(f"tpl - {i}", f"v{d['x']}n{d['name']}") for i, d in rows]
            if fl[0] != "ok":
                problems.append(("flows-error", f"create_flows over sheet {tgt!r} failed: {fl[1:]}"))
            elif fl[1] != want:
                problems.append(("flows-from-derived", f"flows instantiated from {tgt!r}: {fl[1]} expected {want}"))
    if case.get("hist"):
        more, extra = history_oracles(scr, case, states)
        problems += more
        for key, n in extra.items():
            HIST_STATS[key] = HIST_STATS.get(key, 0) + n
    return states, saved, problems


HIST_STATS = {}


def diverge(mproj, iproj):
    """None when model and implementation agree step by step up to the first common error;
    ('lenient', k) when the model rejects row k and the implementation accepts it;
    ('disagree', k) when the registries after row k differ or the implementation rejects a
    row the model accepts"""
    for k in range(max(len(mproj), len(iproj))):
        a = mproj[k] if k < len(mproj) else None
        b = iproj[k] if k < len(iproj) else None
        if a is None or b is None:
            return ("disagree", k)   # cannot happen: both lists end at their first error
        if a[0] == "err" and b[0] == "err":
            return None
        if a[0] == "err":
            return ("lenient", k)
        if b[0] == "err" or a != b:
            return ("disagree", k)
    return None


# ------------------------------------------------------------------ shrinking
def shrink(case, still_fails, budget=120):
    """greedy delta debugging on index rows, sheets, sheet rows; keeps `still_fails` true"""
    import copy

    cur = copy.deepcopy(case)
    spent = 0
    progress = True
    while progress and spent < budget:
        progress = False
        cands = []
        if cur.get("layout"):
            c = copy.deepcopy(cur)
            c["layout"] = None
            cands.append(c)
        for i in range(len(cur.get("noise") or [])):
            c = copy.deepcopy(cur)
            del c["noise"][i]
            cands.append(c)
        for i in reversed(range(len(cur["index"]))):
            if len(cur["index"]) > 1:
                c = copy.deepcopy(cur)
                del c["index"][i]
                # positions of noise rows and layout cuts follow the deleted row
                for nz in c.get("noise") or []:
                    if nz[0] > i:
                        nz[0] -= 1
                lay = c.get("layout") or {}
                if lay.get("kind") == "nested":
                    lay["cut"] = [x - 1 if x > i else x for x in lay["cut"]]
                elif lay.get("kind") == "books":
                    lay["cut"] = max(1, lay["cut"] - 1) if lay["cut"] > i else lay["cut"]
                cands.append(c)
        used = {n for r in cur["index"] for n in r["names"]}
        for n in list(cur["sheets"]):
            if n not in used:
                c = copy.deepcopy(cur)
                del c["sheets"][n]
                cands.append(c)
        for n, sh in cur["sheets"].items():
            for i in reversed(range(len(sh["rows"]))):
                c = copy.deepcopy(cur)
                del c["sheets"][n]["rows"][i]
                cands.append(c)
        for i, r in enumerate(cur["index"]):
            if len(r["names"]) > 1:
                for j in range(len(r["names"])):
                    c = copy.deepcopy(cur)
                    del c["index"][i]["names"][j]
                    cands.append(c)
        if cur.get("packed"):
            c = copy.deepcopy(cur)
            c["packed"] = False
            cands.append(c)
        for c in cands:
            if spent >= budget:
                break
            spent += 1
            try:
                if still_fails(c):
                    cur = c
                    progress = True
                    break
            except Exception:
                pass
    return cur


# ------------------------------------------------------------------ classification for coverage
def features(case, states):
    f = set()
    prev = {}
    for k, row in enumerate(case["index"]):
        if k >= len(states) or states[k][0] != "ok":
            f.add("error")
            break
        cur = states[k][1]
        op = row["op"]
        srcs = [prev[n] if n in prev else (fresh_rows(case, n, row["dm"]) or []) for n in row["names"]]
        if any(n in prev for n in row["names"]):
            f.add("derived-source")
        if op in ("", "concat") and len(srcs) > 1:
            seen = set()
            for s in srcs:
                if seen & set(ids(s)):
                    f.add("concat-duplicate-id")
                seen |= set(ids(s))
        if op == "filter" and srcs:
            n_in, n_out = len(srcs[0]), len(cur.get(row["new"], []))
            if 0 < n_out < n_in:
                f.add("filter-proper")
        if op == "sort" and srcs and len(srcs[0]) > 1:
            ev = [eval_expr(row["expr"], r) for _, r in srcs[0]]
            ks = [repr(e[1:]) for e in ev]
            if len(set(ks)) < len(ks):
                f.add("sort-ties")
            if row["order"].lower() == "descending":
                f.add("sort-descending")
        if (row["new"] or row["names"][0]) in prev:
            f.add("overwrite")
        prev = cur
    return f


# ------------------------------------------------------------------ pure operations vs CPython
def pure_ops(ctx, n_cases):
    rng = ctx.rng
    m = ctx.model
    reqs, wants = [], []
    for _ in range(n_cases):
        kind = rng.choice(["concat", "filter", "sort", "sort", "sort", "items"])
        tokn = 0

        def items(maxn, idrange):
            nonlocal tokn
            out = []
            for _ in range(rng.choice([0, 1, 2, 3, 5, 8, maxn])):
                tokn += 1
                out.append((rng.randrange(idrange), tokn))
            return out
        if kind == "concat":
            srcs = [list(OrderedDict(items(12, 8)).items()) for _ in range(rng.choice([0, 1, 2, 3, 4]))]
            od = OrderedDict()
            for s in srcs:
                od.update(OrderedDict(s))
            reqs.append("(111 3 (" + " ".join("(" + " ".join(f"({i} {t})" for i, t in s) + ")" for s in srcs) + "))")
            wants.append([list(p) for p in od.items()])
        elif kind == "items":
            its = items(20, 6)
            reqs.append("(111 6 (" + " ".join(f"({i} {t})" for i, t in its) + "))")
            wants.append([list(p) for p in OrderedDict(its).items()])
        elif kind == "filter":
            its = list(OrderedDict(items(20, 30)).items())
            codes = {t: rng.choice([0, 1, 1, 2] if rng.random() < 0.1 else [0, 1]) for _, t in its}
            reqs.append("(111 4 (" + " ".join(f"({t} {c})" for t, c in codes.items()) + ") (" + " ".join(f"({i} {t})" for i, t in its) + "))")
            if any(c == 2 for c in codes.values()):
                wants.append([1, 7])
            else:
                wants.append([0, [[i, t] for i, t in its if codes[t] == 1]])
        else:
            its = list(OrderedDict(items(40, 60)).items())
            shape = rng.choice(["int", "int", "str", "tuple"])
            keys = {}
            for _, t in its:
                if shape == "int":
                    keys[t] = rng.choice([-2, 0, 1, 1, 2, 3, 3, 10])
                elif shape == "str":
                    keys[t] = rng.choice(["", "a", "b", "ab", "B", "a", "ba", "é"])
                else:
                    keys[t] = (rng.randrange(2), rng.choice([-1, 0, 5]))
            desc = rng.random() < 0.5
            ktab = " ".join(f"({t} (({' '.join(enc_z(z) for z in enc_key(k))})))" for t, k in keys.items())
            reqs.append(f"(111 5 ({ktab}) {1 if desc else 0} (" + " ".join(f"({i} {t})" for i, t in its) + "))")
            wants.append([0, [list(p) for p in sorted(its, key=lambda kv: keys[kv[1]], reverse=desc)]])
    if not m:
        return 0
    outs = m.ask_many(reqs)
    for rq, o, w in zip(reqs, outs, wants):
        got = parse_sexp(o)
        if got != w:
            ctx.disagree("pure operation vs CPython (OrderedDict.update / sorted)", rq, repr(got), repr(w))
    return len(reqs)


# ------------------------------------------------------------------ run / replay
def run(ctx):
    v = ctx.v
    rng = ctx.rng
    m = ctx.model
    thorough = ctx.tier == "thorough"
    n_cases = (30000 if thorough else 1500) * ctx.scale
    scr = Scratch()
    nontrivial = set()
    samples = []
    shrunk = {}

    def projections(c):
        """(model, implementation) projections of a case: per step ok+registry or err"""
        rq, tok, supported = model_request(c)
        ms = dec_model_scan(m.ask(rq), tok)
        st, _, _ = check_case(scr, c)
        return ([("ok", dict(x[1])) if x[0] == "ok" else ("err",) for x in ms],
                [("ok", dict(x[1])) if x[0] == "ok" else ("err",) for x in st], st)

    dist = {"chains": 0, "malformed_stream": 0, "chains_with_error": 0, "steps_run": 0, "ops": {}, "chain_len": {},
            "rows_per_source": {}, "features": {}, "model_err_codes": {}, "packed_layout": 0, "unsupported_key": 0,
            "impl_accepts_what_model_rejects": 0}
    hist = {"chains": 0, "chains_with_error": 0, "steps_run": 0, "chain_len": {}, "ops": {}, "layout": {}, "noise_rows": {},
            "features": {}, "repeated_descriptor_steps": {}, "chains_with_repeat": 0,
            "chains_repeat_after_first_registration": 0, "sessions": 0, "session_cases": {}, "session_cases_with_error": 0}
    HIST_STATS.clear()

    process_log = []    # the last workbooks this process parsed (all streams)
    proc_keys = set()   # failure classes that turned out to need the process history

    def report_process_history(case, key, text, session):
        """`case` fails here but not alone in a fresh interpreter: find the earlier workbooks it takes"""
        if shrunk.get("process-history", 0) >= 2:
            v.failing_input("process-history", text, dict(fn="session", cases=[case]))
            return
        shrunk["process-history"] = shrunk.get("process-history", 0) + 1

        def fails(cand):
            r = fresh_process_problems(cand)
            return bool(r) and bool(r[-1])
        for cand in ([session] if session else []) + [process_log + [case]]:
            if len(cand) < 2 or not fails(cand):
                continue
            pre, budget, n = cand[:-1], 14, 2
            while pre and budget > 0:
                chunk = max(1, len(pre) // n)
                for at in range(0, len(pre), chunk):
                    trial = pre[:at] + pre[at + chunk:]
                    budget -= 1
                    if fails(trial + [case]):
                        pre = trial
                        n = max(2, n - 1)
                        break
                    if budget <= 0:
                        break
                else:
                    if chunk == 1:
                        break
                    n = min(len(pre), n * 2)
            v.failing_input("process-history", f"workbook {len(pre) + 1} of {len(pre) + 1} parsed one after the other in ONE process: {text}; "
                            "the same workbook alone in a fresh process is fine", dict(fn="session", cases=pre + [case]))
            return
        v.failing_input("process-history", f"{text}; the same workbook alone in a fresh process is fine, and so are the last "
                        f"{len(process_log)} workbooks of this run followed by it: the replay does not reproduce it",
                        dict(fn="session", cases=(session or [case])))

    def one(case, d, malformed=False, session=None):
        """one chain: implementation on every prefix + oracles, then the correspondence with the model"""
        d["chains"] += 1
        d["chain_len"][len(case["index"])] = d["chain_len"].get(len(case["index"]), 0) + 1
        for r in case["index"]:
            d["ops"][r["op"] or "(none)"] = d["ops"].get(r["op"] or "(none)", 0) + 1
        if d is dist:
            d["malformed_stream"] += malformed
            d["packed_layout"] += bool(case["packed"])
            for sh in case["sheets"].values():
                d["rows_per_source"][len(sh["rows"])] = d["rows_per_source"].get(len(sh["rows"]), 0) + 1
        states, saved, problems = check_case(scr, case)
        d["steps_run"] += len(states)
        v.coverage["evaluations"] += 1
        if any(s[0] != "ok" for s in states):
            d["chains_with_error"] += 1
        fs = features(case, states)
        for f in fs:
            d["features"][f] = d["features"].get(f, 0) + 1
        if d is hist:
            lay = (case.get("layout") or {}).get("kind", "single")
            d["layout"][lay] = d["layout"].get(lay, 0) + 1
            for _, kind, _ in case.get("noise") or []:
                d["noise_rows"][kind] = d["noise_rows"].get(kind, 0) + 1
            rc = repeat_classes(case, states)
            for c in rc:
                d["repeated_descriptor_steps"][c] = d["repeated_descriptor_steps"].get(c, 0) + 1
            d["chains_with_repeat"] += bool(rc)
            d["chains_repeat_after_first_registration"] += "first-registration" in rc
            if rc:
                fs = fs | {"repeat"}
        if fs - {"error"}:
            nontrivial.add(json.dumps(case, sort_keys=True))
        if len(fs) >= 3 and sum(1 for c in samples if bool(c.get("hist")) == (d is hist)) < 2:
            samples.append(case)
        for key, text in problems[:3]:
            shrunk[key] = shrunk.get(key, 0) + 1
            small = case
            if shrunk[key] <= 2:
                # is it this workbook, or what the process parsed before it?  ask a fresh interpreter
                alone = fresh_process_problems([case])
                if alone is not None and not alone[-1]:
                    proc_keys.add(key)
                    report_process_history(case, key, text, session)
                    continue
                small = shrink(case, lambda c, key=key: any(k == key for k, _ in check_case(scr, c)[2]))
                text = next((t for k, t in check_case(scr, small)[2] if k == key), text)
            elif key in proc_keys:
                # same class as a failure that took the process history: counted there (not triaged again)
                v.failing_input("process-history", text, dict(fn="session", cases=(session or [case])))
                continue
            v.failing_input(key, text, dict(fn="chain", case=small))
        process_log.append(case)
        del process_log[:-80]
        # ---- correspondence with the extracted model
        if m:
            rq, tok, supported = model_request(case)
            if not supported:
                dist["unsupported_key"] += 1
                return problems
            ms = dec_model_scan(m.ask(rq), tok)
            for s in ms:
                if s[0] == "err":
                    dist["model_err_codes"][s[1]] = dist["model_err_codes"].get(s[1], 0) + 1
            mproj = [("ok", dict(s[1])) if s[0] == "ok" else ("err",) for s in ms]
            iproj = [("ok", dict(s[1])) if s[0] == "ok" else ("err",) for s in states]
            dv = diverge(mproj, iproj)
            if dv and dv[0] == "lenient":
                # the implementation accepts a row the model rejects: the property does not say
                # when an operation must be refused (that is C15), so this is recorded, not reported
                dist["impl_accepts_what_model_rejects"] += 1
            elif dv:
                small = case
                if len(ctx.disagreements) < 3:
                    small = shrink(case, lambda c: (lambda p: (diverge(p[0], p[1]) or ("",))[0] == "disagree")(projections(c)))
                    mproj, iproj, states = projections(small)
                    dv = diverge(mproj, iproj) or dv
                k = dv[1]
                ctx.disagree(f"registry after step {k} (ordered ids and row dicts of every registered sheet)",
                             small, repr(mproj[k] if k < len(mproj) else None),
                             repr(states[k] if k < len(states) else None))
            if not dv and saved is not None and saved[0] == "ok":
                out = parse_sexp(m.ask(model_request(case, fn=2)[0]))
                want = {dec_str(nm): [tok[t] for t in ts] for nm, ts in out[1]} if out[0] == 0 else None
                got = {nm: sh.get("rows") for nm, sh in saved[1][0].get("sheets", {}).items()}
                if want != got:
                    ctx.disagree("save_data_sheets output vs model data_sheets_to_dict", case, repr(want), repr(got))
        return problems

    try:
        # ---- process histories first (the process has run nothing of the implementation yet): several
        # workbooks with the same sheet names / operations, one after the other in this process
        for n in range((600 if thorough else 25) * ctx.scale):
            cases = gen_session(rng)
            hist["sessions"] += 1
            hist["session_cases"][len(cases)] = hist["session_cases"].get(len(cases), 0) + 1
            for i, case in enumerate(cases):
                before = hist["chains_with_error"]
                one(case, hist, session=cases[:i + 1] if i else None)
                hist["session_cases_with_error"] += hist["chains_with_error"] - before
        # ---- random chains
        for n in range(n_cases):
            malformed = rng.random() < 0.15
            one(gen_case(rng, malformed), dist, malformed)
        # ---- histories built around repetition and re-registration
        for n in range((6000 if thorough else 300) * ctx.scale):
            one(gen_history(rng), hist)
        # ---- the order word: the model's is_descending against what the implementation does
        if m:
            words = sorted(set(ORDERS + ["DeScEnDiNg", "descendin", "descendingg", "ascending", "d", "dESCENDING"]))
            outs = m.ask_many([f"(111 7 {enc_str(w)})" for w in words])
            for w, o in zip(words, outs):
                c = {"sheets": {"s1": {"annotated": True, "rows": [["r1", 1, "a"], ["r2", 2, "b"]]}}, "packed": False,
                     "index": [{"names": ["s1"], "new": "d1", "dm": "RowM", "op": "sort", "expr": "x", "order": w}]}
                r = impl_registry(scr, c, 1)
                got = r[0] == "ok" and ids(r[1].get("d1", [])) == ["r2", "r1"]
                if (o == "1") != got:
                    ctx.disagree("is_descending (model) vs direction of a two-row sort (implementation)", w, o, repr(r))
        dist["pure_op_cases"] = pure_ops(ctx, (40000 if thorough else 4000) * ctx.scale)
        v.coverage["evaluations"] += dist["pure_op_cases"]
    finally:
        scr.close()
    hist.update(HIST_STATS)
    dist["histories"] = hist
    ctx.stats["c11"] = dist
    v.coverage["distinct_nontrivial"] = len(nontrivial)
    v.coverage["rule"] = (
        "generated chains of 1..6 data_sheet index rows (plain registration, implicit/explicit concat of 1..3 sources, "
        "filter, sort asc/desc) over 1..4 CSV source sheets of 0..8 rows with ids from r1..r6 (duplicates inside and across "
        "sources), int/str fields, tied keys, fresh or derived or self-overwriting targets, flat or packed operation columns; "
        "15% malformed stream (missing sheet, no new_name, unknown operation word, undefined data model, raising or empty "
        "expression, model mismatch, no sheet name). Every prefix of every chain is run through the real ContentIndexParser "
        "(CSV folder, rpft.converters) and the final index through save_data_sheets; the whole chain goes through the extracted "
        "model. non-trivial = distinct chain showing at least one of: concat with an id shared between sources, a filter that "
        "keeps some and drops some rows, a sort with tied keys, a descending sort, a derived source, an overwritten name, "
        "a repeated operation descriptor. HISTORIES: chains of 3..8 rows built around repetition (1..3 recurring (op, expression, "
        "order) descriptors applied again and again to 1..2 focus names while other rows register something under these names for "
        "the first time or again: plain / implicit concat without new_name, concat / filter / sort whose new_name is the source or "
        "another focus name), with rows that are not applied data_sheet rows (ignore_row, draft, template_definition, create_flow), "
        "a nested content_index or two workbooks each with its own index (decoy copies of sheets in the earlier one); additional "
        "oracles there: every step equals the same row on a fresh parser that ran only the rows the step depends on (backward "
        "slice, plain layout), and one parser read as registry / export / parse_all / export / registry row by row. PROCESS "
        "SESSIONS: 2..4 such workbooks with the same sheet names and operations (new data, same again, other index, failing index) "
        "parsed one after the other in one process, before anything else runs; a failure is re-run in a fresh interpreter alone "
        "and as a session to find the workbooks it takes")
    v.coverage["samples"] = samples[:4]
    v.assumptions += [
        "filter/sort expressions are pure and total or raising functions of the row's fields: the harness evaluates them with "
        "Python's eval over the generated rows and hands the model the resulting pred/key tables",
        "a user models module is supplied (save_data_sheets needs it); inferred models are distinct classes per load",
        "sort keys within one sheet are mutually comparable (ints, bools, strs, int tuples); rendered as integer lists under "
        "the lexicographic order, which is CPython's order inside each of these types",
        "rows of a content index that are not applied data_sheet rows (ignore_row, draft rows, template_definition, create_flow) and "
        "the split of an index over a child index or two workbooks are outside Index/DataOps.v: the model is given the data_sheet "
        "rows in processing order; that the other rows leave the registry alone is checked on the implementation (per-step oracle "
        "and the plain-layout slice differential)",
        "row-model parsing of CSV cells (int fields, annotated headers) is taken from the generator's expectation "
        "(row_dict) and checked against the implementation on every registered sheet",
    ]


def replay(rep):
    import common
    r = rep.get("replay") or {}
    if r.get("fn") not in ("chain", "session"):
        return True
    common.use_impl()
    scr = Scratch()
    try:
        if r["fn"] == "session":
            # the workbooks of the session one after the other in this (fresh) process
            per = session_problems(scr, r["cases"])
            problems = [(k, f"workbook {i + 1}: {t}") for i, ps in enumerate(per) for k, t in ps]
        else:
            _, _, problems = check_case(scr, r["case"])
    finally:
        scr.close()
    for key, text in problems:
        print(f"  {key}: {text}")
    return not problems


if __name__ == "__main__":
    # worker for fresh_process_problems: python c11.py --session file.json
    import common
    if len(sys.argv) == 3 and sys.argv[1] == "--session":
        common.use_impl()
        _scr = Scratch()
        try:
            with open(sys.argv[2]) as _f:
                print(json.dumps(session_problems(_scr, json.load(_f))))
        finally:
            _scr.close()
