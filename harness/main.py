"""./check <Cxx> [--tier quick|thorough] [--replay file]   (run with /venv/bin/python)"""
import argparse
import importlib
import json
import os
import random
import sys
import time

sys.path.insert(0, os.path.dirname(os.path.abspath(__file__)))
import common  # noqa: E402


class Ctx:
    def __init__(self, prop, tier, seed, verdict, build, model):
        self.prop = prop
        self.tier = tier
        self.seed = seed
        self.rng = random.Random(seed * 1000003 + int(prop[1:]))
        self.v = verdict
        self.build = build
        self.model = model          # None when the model does not build
        self.disagreements = []     # model-vs-implementation differences (minimised)
        self.scale = 1
        self.stats = {}

    def disagree(self, what, case, model_out, impl_out):
        if len(self.disagreements) < 20:
            self.disagreements.append(dict(what=what, case=case, model=model_out, impl=impl_out))

    def count(self, key, n=1):
        self.stats[key] = self.stats.get(key, 0) + n


def source_drift(prop):
    import srcdigest
    files = []
    try:
        for l in open(os.path.join(common.VERIF, "properties.jsonl")):
            p = json.loads(l)
            if p["id"] == prop:
                files = p.get("anchors", {}).get("files", [])
        return srcdigest.drift(common.VERIF, common.REPO, files) or []
    except Exception as e:  # the fingerprint is an aid, never a reason to fail
        return [f"<source digest unavailable: {type(e).__name__}>"]


def main():
    ap = argparse.ArgumentParser()
    ap.add_argument("prop")
    ap.add_argument("--tier", default=os.environ.get("VERIF_TIER", "quick"))
    ap.add_argument("--replay")
    args = ap.parse_args()
    prop = args.prop.upper()
    seed = int(os.environ.get("VERIF_SEED", "0"))
    tier = args.tier if args.tier in ("quick", "thorough") else "quick"

    mod = importlib.import_module(prop.lower())
    # the level written into the evidence is the one the manifest fragment claims for this property
    level = getattr(mod, "LEVEL", "proof")
    frag = os.path.join(common.VERIF, "manifest.d", f"{prop}.json")
    if os.path.exists(frag):
        try:
            level = json.load(open(frag)).get("category", level)
        except Exception:
            pass
    verdict = common.Verdict(prop, tier, seed, level=level)
    common.use_impl()

    if args.replay:
        rep = json.load(open(args.replay))
        ok = mod.replay(rep)
        print("replay:", "property holds on this input" if ok else "FAILS (reproduced)")
        return 0 if ok else 1

    st = common.build()
    model = None
    if st.translator_ok and st.extract_ok:
        model = common.Model()
    ctx = Ctx(prop, tier, seed, verdict, st, model)

    # functions of the files this property is anchored in that differ from the recorded baseline (the tree the models
    # were last tied to): a rewrite of modelled code is where model and code can have parted company, so the first pass
    # already runs at a larger scale; not a violation by itself
    drift = source_drift(prop)
    if drift:
        ctx.scale = 3
        ctx.stats["source_drift"] = drift[:60]
        print(f"{prop}: {len(drift)} function(s) of the anchored sources differ from translator/source_baseline.json "
              f"({', '.join(drift[:4])}{', ...' if len(drift) > 4 else ''}): first pass at scale 3")

    proof = None
    if st.translator_ok:
        proof = common.proof_status(prop, chk=(tier == "thorough"))

    mod.run(ctx)

    broken = []
    if not st.translator_ok:
        broken.append(("translator", st.translator_msg))
    if proof is not None and (proof["rc"] != 0 or proof["discharged"] < proof["obligations"]):
        bad = proof.get("failing") or [n for (n, ok, _) in proof["theorems"] if not ok]
        broken.append((f"proof obligation {bad} of coq/props/{prop}.v", proof["log"][-1500:]))
    if proof is not None and proof.get("coqchk") and not proof["coqchk"]["ok"]:
        broken.append((f"coqchk -o on coq/props/{prop}.vo (independent re-check / axiom list)", proof["coqchk"]["tail"]))
    if st.translator_ok and not st.extract_ok:
        broken.append(("model does not build (extraction)", (st.make_log[-1500:] + st.extract_log[-1500:])))
    if ctx.disagreements:
        broken.append(("correspondence model<->implementation", ctx.disagreements[:5]))

    if broken and not verdict.violations:
        # directed search at 10x volume before giving up on a failing input
        ctx.scale = 10
        ctx.rng = random.Random(seed * 7919 + 17)
        ctx.disagreements_before = list(ctx.disagreements)
        mod.run(ctx)
        if not verdict.violations:
            for what, detail in broken:
                verdict.broken(what, detail)

    extra = dict(stats=ctx.stats, tables_digest=st.tables_digest,
                 correspondence_disagreements=len(ctx.disagreements))
    if model:
        extra["model_calls"] = model.calls
        model.close()
    rc = verdict.finish(proof, extra)
    print(f"{prop} {tier}: exit {rc}; evaluations={verdict.coverage['evaluations']} "
          f"obligations={proof['obligations'] if proof else 0} discharged={proof['discharged'] if proof else 0} "
          f"wall={time.time() - verdict.t0:.1f}s")
    return rc


if __name__ == "__main__":
    sys.exit(main())
